"""Second source translator (DESIGN §1.4, third tie): IMPERATIVE / STATEFUL Python of pyCSEP -> Lean 4 definitions.

harness/py2lean.py translates pure numeric functions (straight-line code, `if`, one fold). This module translates what it
rejects: loops with several mutable locals, `while`, `continue` / `break`, `yield`, in-place array updates, the global numpy
generator, methods that read and assign `self.<attr>`. Same discipline:

* on every run each entry of TARGETS is read with `ast` from the tree under test and a definition `SrcSM.<f>` is emitted
  into lean/PycsepVerif/GeneratedSrcSM.lean; lean/PycsepVerif/SourceSM/Cxx.lean proves `SrcSM.<f> = <hand model>` for all
  inputs; harness/src_tie_sm.py runs `SrcSM.<f>` against the real function;
* TYPED shallow embedding: expressions are translated by py2lean's typed expression translator (class `Fn`, reused
  unchanged), statements by the continuation-passing compiler below. The meaning of EVERY accepted statement form is
  documented once, in the header of lean/PycsepVerif/PyPreludeSM.lean, and the table STATEMENTS below lists them;
* anything else raises `Untranslatable(function, lineno, reason)`; nothing is skipped silently.

Result of a generated definition: `PySM.M (ret × extras)`, where `ret` is the returned value (for a generator: the list of
everything it yields), and `extras`, in this order: the final value of every `inout` parameter that is not the returned value
itself, the final `self` structure (methods), the rest of the random stream `rng'` (if `numpy.random` is used).
Hidden parameters, in this order: `fuel` / `fuel_k : Nat` (one per `while`), `rng' : List Rat`, then `self'`, then the
Python parameters.
"""
import ast
import hashlib
import os

try:
    from . import py2lean as P
except ImportError:          # run as a script
    import py2lean as P

from fractions import Fraction

Ty, Val, Untranslatable, mangle, dotted = P.Ty, P.Val, P.Untranslatable, P.mangle, P.dotted
F64, INT, NAT, BOOL, NONE, STR, LIST, TUPLE, UNUSED = P.F64, P.INT, P.NAT, P.BOOL, P.NONE, P.STR, P.LIST, P.TUPLE, P.UNUSED
REAL, EREAL = P.REAL, P.EREAL


def OPT(t):
    return Ty("opt", item=t)


def REC(name):
    """a value of an opaque Lean type `name` that is a type parameter of the generated definition"""
    return Ty("rec", item=name)


def DICT(v):
    """a Python dict with str keys as the list of its (key, value) pairs in insertion order (no key twice)"""
    return Ty("dict", item=v)


def SUM(a, b):
    """a value of one of two declared types (values of a dict that holds both): Lean `A ⊕ B`"""
    return Ty("sum", item=(a, b))


EMPTYLIST = Ty("list", item=None)       # the literal `[]` before it meets a typed context

# ----------------------------------------------------------------------------- accepted statement forms (documentation table)
STATEMENTS = {
    "x = e / a, b = e (tuple)": "`let`; an expression that can raise is bound with Except.bind before the statement",
    "x += e": "`let x := x ∘ e` (lists of the real layer / counts: elementwise, `a += b` on arrays rebinds `a`)",
    "x[i] = v": "Except.bind (PySM.setN / PySM.setI x i v) fun x => …",
    "x.fill(v) / x.append(v) / numpy.add.at(x, idx, v)": "PySM.fill / PySM.append / PySM.addAt, the variable is rebound",
    "assert c": "if c then … else Except.error (.py .assertionError)",
    "raise E(...)": "Except.error (ValueError IndexError AssertionError StopIteration TypeError AttributeError, else other)",
    "if c: A else: B": "variables assigned in A or B returned as a tuple of type M; continuation duplicated when a branch "
                       "contains return / continue / break",
    "if x is None: A else: B (x Optional)": "match x with | none => A | some x => B",
    "for v in xs: body / for v in range(n)": "PySM.forLoop (state = assigned ∩ defined before)",
    "while c: body": "PySM.whileLoop with a fuel parameter of the definition",
    "continue / break": "Ctl.next / Ctl.brk of the enclosing loop",
    "yield e": "out' := out' ++ [e]",
    "return e / return": "Except.ok (e, extras)",
    "numpy.random.uniform(0,1) / numpy.random.rand(n)": "PySM.rngUniform / PySM.rngRand on the hidden stream rng'",
    "numpy.searchsorted(a, v, side='right'|'left')": "PySM.searchsortedRight / Left (scalar; mapped over an array of v)",
    "a[i] (list)": "PySM.getN (index is a count) / PySM.getI (Python int): IndexError outside",
    "t[k], t[k:] (tuple, literal k)": "projection / sub-tuple",
    "all([p(v) for v in <tuple>]) / any(...)": "unrolled conjunction / disjunction over the components",
    "v in (None, '') ": "Option.isNone v (Optional) ; v == \"\" (str)",
    "f(args) for f in TARGETS.opaque (nested helper / constructor)": "opaque function parameter; `raises` → Except.bind",
    "for i, (a, b) in enumerate(zip(xs, ys))": "PySM.enumerate / List.zip; the target pattern is taken apart with projections",
    "a[mask] (mask : list bool)": "PySM.maskSelect (IndexError unless the lengths agree)",
    "a['col'] (a : list of opaque rows)": "List.map col_<name> a, col_<name> an opaque projection (TARGETS.columns)",
    "a.shape[0]": "Py.size a",
    "numpy.ones(n, dtype=bool)": "List.replicate n true",
    "x ** y (floats)": "opaque parameter declared as TARGETS.opaque['**'] (transcendental)",
    "self.a / self.a = e (methods)": "fields of the state record self' (tuple of TARGETS.self_fields); final record returned",
    "self.m() / property self.m (same class, single-expression body, no parameters)": "inlined",
    "return self": "the final state record",
    "with open(<file parameter>, …) as f: body": "body; csv.reader(f, delimiter=',') = the hidden parameter rows'",
    "try: <pure helper calls>; <**kwargs>.setdefault(…) except: pass (results read nowhere else)": "left out, named in header",
    "os.path.isfile(…) etc. in TARGETS.static_calls": "constant of the specialisation; dead branch named in the header",
    "f(args…) where f is the function itself (TARGETS.recursive, a procedure on its inout lists)":
        "the same definition with the remaining fuel; `match fuel with | 0 => outOfFuel | fuel + 1 => body`",
    "s + t, len(s) (str)": "String append, String.length",
    "v.west etc. on a namedtuple returned by an opaque call (TARGETS.tuple_attrs)": "tuple projection",
    "numpy.logical_and / logical_or (list bool), numpy.size": "List.zipWith (&&) / (||), Py.size",
    "a[i, j, k] = v (a : n-d array)": "PySM.NdArr.setAt a [i, j, k] v",
    "if A and B: (an operation that can raise inside B)": "if A: if B: (else branch duplicated)",
    "TARGETS.body_from = 'for' with TARGETS.live_in": "the function from its first top-level loop on; live-in variables are parameters",
    "print(…)": "no-op",
    "obj.m(…) / x = obj.m(…) with TARGETS.rec_methods[...].mutates": "opaque T_m : T → … → M (ret × T); obj rebound, x = the result",
    "opt.attr / opt.m(…) (opt an Optional opaque object)": "PySM.getObj: AttributeError on None",
    "return None next to return x (TARGETS.returns = Optional type)": "none / some x",
    "numpy.isnan(x), x == -numpy.inf, numpy.isnan(numpy.sum(xs)), ~mask (values that may be nan / -inf: NREAL)":
        "PySM.isNan / isNegInf / anyNan / map not",
    "a / b of numpy integers with TARGETS.int_div = 'real'": "RealOps.div (ofNat a) (ofNat b)",
    "numpy.log10(x)": "PySM.log10 (real, list of reals, list of counts via ofNat)",
}
MUTATING_METHODS = ("fill", "append")


NREAL = Ty("nreal")         # a float of the real layer that may be nan or -inf: Option (ELL α), none = nan


def uses_real_sm(t):
    if t is None:
        return False
    if t.kind == "nreal":
        return True
    if t.kind in ("list", "opt", "ndarr"):
        return uses_real_sm(t.item)
    if t.kind == "tuple":
        return any(uses_real_sm(x) for x in t.item)
    return t.uses_real() if t.kind in ("real", "ereal") else False


def NDARR(t):
    return Ty("ndarr", item=t)


def lty(t):
    """Lean type of a Ty (superset of Ty.lean)"""
    k = t.kind
    if k == "nreal":
        return "Option (ELL α)"
    if k == "ndarr":
        return f"PySM.NdArr {P._paren(lty(t.item))}"
    if k == "opt":
        return f"Option {P._paren(lty(t.item))}"
    if k == "rec":
        return t.item
    if k == "str":
        return "String"
    if k == "list":
        if t.item is None:
            raise ValueError("untyped empty list")
        return f"List {P._paren(lty(t.item))}"
    if k == "tuple":
        return " × ".join(P._paren(lty(x)) for x in t.item)
    if k == "dict":
        return f"List (String × {P._paren(lty(t.item))})"
    if k == "sum":
        return f"{P._paren(lty(t.item[0]))} ⊕ {P._paren(lty(t.item[1]))}"
    return t.lean()


class Ctx:
    def __init__(self, kind, names=(), tys=None, inplace=()):
        self.kind, self.names, self.tys, self.inplace = kind, list(names), dict(tys or {}), set(inplace)


class FnSM(P.Fn):
    """translation of one imperative function / method / generator under one specialisation"""

    # hidden streams: the global numpy generator; `file'` = the records of the file written through csv.DictWriter
    STREAMS = {"rng'": LIST(F64), "pois'": LIST(NAT), "file'": LIST(LIST(REC("Cell")))}

    def __init__(self, tr, spec, node, relfile, no_rng=False, no_streams=()):
        super().__init__(tr, spec, node, relfile)
        # second pass: streams whose only uses are in branches dropped by the specialisation are not parameters
        self.no_streams = set(no_streams) | ({"rng'"} if no_rng else set())
        self.no_rng = "rng'" in self.no_streams
        self.used_streams = set()
        self.uses_seed = False
        self.pending = []        # (bound name, monadic Lean code): operations that can raise, in evaluation order
        self.fuels = []
        self.uses_rng = False
        self.is_gen = any(isinstance(n, (ast.Yield, ast.YieldFrom)) for n in ast.walk(node))
        self.aliased = set()
        self.yield_ty = spec.get("yields")
        self.used_opaque_exprs, self.used_cells, self.used_str_injections, self.used_preds = [], [], [], []
        self.uses_dyn_column = False
        if spec.get("returns") is not None:
            self.ret_ty = spec["returns"]     # declared (Optional) result type: `return None` next to `return x`
        self.extras = []         # env keys returned after the result
        self.raises = True
        self.rec_params = []     # opaque Lean type parameters in order of first use
        self.uses_rows = False
        self.used_opaque = []
        self.uses_field_of = False
        self.uses_iter_self = False
        self.uses_empty = False
        self.used_obj_iters = []
        self.used_injections = []
        self.used_rec_methods = []
        self.used_setters = []
        self.used_attrs = []     # (record type, attribute, type) of opaque objects' attributes read
        self.used_cols = []      # (column, row type, column type) of structured-array columns read
        self.is_method = False
        self.inlining = []
        self.file_params = [a for a, t in spec["params"].items() if not isinstance(t, dict) and t.kind == "file"]
        self.pure_helpers = [k_ for k_, o in spec.get("opaque", {}).items() if o.get("pure_helper")]

    # ---------------------------------------------------------------- helpers
    def pre(self, pad):
        out = "".join(f"{pad}Except.bind {code} fun {name} =>\n" for name, code in self.pending)
        self.pending = []
        return out

    def no_effects(self, n0, node, where):
        if len(self.pending) != n0:
            self.bad(node, f"an operation that can raise inside {where} (evaluation order would not be preserved)")

    def key_of(self, t):
        if isinstance(t, ast.Name):
            return t.id
        d = dotted(t)
        if d and d.startswith("self.") and d.count(".") == 1:
            return d
        return None

    def lname(self, key):
        """Lean variable of an env key"""
        if key.startswith("self."):
            return "self_" + mangle(key[5:]).replace("'", "") + "'"
        return key if key.endswith("'") else mangle(key)

    def assigned_sm(self, stmts, env=None):
        out = []

        def add(k):
            if k and k not in out:
                out.append(k)
        for s in stmts:
            for n in ast.walk(s):
                tg = []
                if isinstance(n, ast.Assign):
                    tg = n.targets
                elif isinstance(n, (ast.AugAssign, ast.AnnAssign, ast.For)):
                    tg = [n.target]
                elif isinstance(n, ast.Delete):
                    tg = n.targets
                for t in tg:
                    for x in (t.elts if isinstance(t, ast.Tuple) else [t]):
                        while isinstance(x, ast.Subscript):
                            x = x.value
                        if isinstance(x, ast.Attribute) and isinstance(x.value, ast.Name) and x.value.id != "self":
                            add(x.value.id)         # obj.attr = v rebinds the local object
                        add(self.key_of(x))
                if isinstance(n, ast.Call):
                    fn = dotted(n.func)
                    if fn in ("numpy.add.at", "np.add.at") and n.args:
                        add(self.key_of(n.args[0]))
                    if isinstance(n.func, ast.Attribute) and n.func.attr in MUTATING_METHODS:
                        add(self.key_of(n.func.value))
                        if isinstance(n.func.value, ast.Subscript):
                            add(self.key_of(n.func.value.value))        # d[k].append(v) changes the dict d
                    if fn and fn.startswith(("numpy.random.", "np.random.")):
                        kind = fn.split(".")[-1]
                        for st_ in (["pois'"] if kind == "poisson" else ["rng'", "pois'"] if kind == "seed" else ["rng'"]):
                            add(st_)
                    if isinstance(n.func, ast.Attribute) and isinstance(n.func.value, ast.Name) and any(
                            d_.get(n.func.attr, {}).get("mutates") for d_ in self.spec.get("rec_methods", {}).values()):
                        add(n.func.value.id)
                    var = self.callee_variant(n)
                    if var is not None:
                        for st_ in var.get("hidden", []):
                            add(st_)
                    if fn == "csv.DictWriter" or (isinstance(n.func, ast.Attribute) and n.func.attr in ("writerow", "writeheader")):
                        add("file'")
                if isinstance(n, ast.For) and self.is_obj_iter(n.iter) is not None:
                    add(self.is_obj_iter(n.iter)[1])
                if isinstance(n, (ast.Yield, ast.YieldFrom)):
                    add("out'")
        if env is not None:      # order of definition in the function (stable under renaming of locals)
            order = {k: i for i, k in enumerate(env)}
            out = sorted([k for k in out if k in env], key=lambda k: order[k]) + [k for k in out if k not in env]
        return out

    def callee_variant(self, call):
        """TARGETS.callees: the generated definition that stands for a call of another translated function"""
        fn = dotted(call.func)
        vs = self.spec.get("callees", {}).get(fn)
        if not vs:
            return None
        kws = sorted(k.arg for k in call.keywords if k.arg is not None)
        return next((v for v in vs if sorted(v.get("kw", [])) == kws), {"bad": kws})

    def inplace_keys(self, stmts):
        out = set()
        for s in stmts:
            for n in ast.walk(s):
                if isinstance(n, ast.Call):
                    if dotted(n.func) in ("numpy.add.at", "np.add.at") and n.args:
                        out.add(self.key_of(n.args[0]))
                    if isinstance(n.func, ast.Attribute) and n.func.attr in MUTATING_METHODS:
                        out.add(self.key_of(n.func.value))
                if isinstance(n, (ast.Assign, ast.AugAssign)):
                    for t in (n.targets if isinstance(n, ast.Assign) else [n.target]):
                        if isinstance(t, ast.Subscript):
                            out.add(self.key_of(t.value))
                        if isinstance(n, ast.AugAssign):
                            out.add(self.key_of(t))
        out.discard(None)
        return out

    @staticmethod
    def exits(stmts):
        """return / continue / break that leave `stmts` (break / continue of a nested loop do not)"""
        def walk(n, in_loop):
            if isinstance(n, (ast.FunctionDef, ast.Lambda)):
                return False
            if isinstance(n, ast.Return):
                return True
            if isinstance(n, (ast.Break, ast.Continue)):
                return not in_loop
            inner = in_loop or isinstance(n, (ast.For, ast.While))
            return any(walk(c, inner) for c in ast.iter_child_nodes(n))
        return any(walk(s, False) for s in stmts)

    def coerce_sm(self, v, ty, node):
        if ty.kind == "rec" and v.ty.kind in ("int", "nat") and ty.item in self.spec.get("lit_as", {}):
            # an int where a value of the opaque type is expected (e.g. the sentinel -1 of a quantile): opaque injection
            inj = self.spec["lit_as"][ty.item]
            if inj not in self.used_injections:
                self.used_injections.append((inj, ty.item)) if (inj, ty.item) not in self.used_injections else None
            return f"({inj} {self.to_int(v, node)})"
        if ty.kind == "sum" and v.ty != ty:
            for side, t_ in (("Sum.inl", ty.item[0]), ("Sum.inr", ty.item[1])):
                if v.ty.with_elem(False) == t_ or (t_.kind == "list" and v.ty.kind == "list" and v.ty.item is None):
                    return f"({side} {self.coerce_sm(v, t_, node)})"
            self.bad(node, f"a value of type {v.ty} stored where {ty} is expected")
        if ty.kind == "dict" and v.ty.kind == "emptydict":
            return f"([] : {lty(ty)})"
        if ty.kind == "rec" and v.ty.kind == "str" and ty.item in self.spec.get("str_as", {}):
            inj = self.spec["str_as"][ty.item]       # a str where an opaque value (bytes or str) is expected: opaque injection
            if (inj, ty.item) not in self.used_str_injections:
                self.used_str_injections.append((inj, ty.item))
            return f"({inj} {self.str_code(v)})"
        if ty.kind == "list" and v.ty.kind == "list" and v.ty.item is not None and v.ty != ty and ty.item.kind == "rec" \
                and v.ty.item.kind == "str" and ty.item.item in self.spec.get("str_as", {}):
            return f"(List.map (fun x_ => {self.coerce_sm(Val('x_', STR), ty.item, node)}) {v.code})"
        if ty.kind == "tuple" and v.ty.kind == "tuple" and len(ty.item) == len(v.ty.item) and getattr(v, "parts", None):
            return "(" + ", ".join(self.coerce_sm(x, t, node) for x, t in zip(v.parts, ty.item)) + ")"
        if ty.kind == "tuple" and v.ty.kind == "tuple" and len(ty.item) == len(v.ty.item) and v.ty != ty:
            n = len(ty.item)
            parts = [self.coerce_sm(Val(v.code + "".join([".2"] * i) + (".1" if i < n - 1 else ""), v.ty.item[i]), ty.item[i], node)
                     for i in range(n)]
            return "(" + ", ".join(parts) + ")"
        if ty.kind == "nreal" and v.ty.kind == "none":
            return "(none : Option (ELL α))"
        if ty.kind == "str" and v.ty.kind == "str":
            return self.str_code(v)
        if ty.kind == "opt":
            if v.ty.kind == "none":
                return f"(none : {lty(ty)})"
            if v.ty == ty:
                return v.code
            return f"(some {self.coerce_sm(v, ty.item, node)})"
        if ty.kind == "list" and v.ty.kind == "list" and v.ty.item is None:
            return f"([] : {lty(ty)})"
        if ty.kind == "nat" and v.ty.kind in ("int", "nat") and v.lit is not None and v.lit >= 0:
            return f"({v.lit} : Nat)"
        if v.ty == ty:
            return v.code
        if ty.kind in ("f64", "real", "int"):
            return self.coerce(v, ty, node)
        self.bad(node, f"cannot store {v.ty} where {ty} is expected")

    def pack(self, names, tys, env, node, inplace=()):
        vals = []
        for nm in names:
            if nm not in env:
                self.bad(node, f"{nm} is not defined on this path")
            if nm in inplace and getattr(env[nm], "escaped", False):
                self.bad(node, f"{nm} was handed to a constructor / yielded and is updated in place by a later iteration")
            vals.append(self.coerce_sm(env[nm], tys[nm], node))
        if not vals:
            return "()"
        return vals[0] if len(vals) == 1 else "(" + ", ".join(vals) + ")"

    def unpack(self, names, tys, tmp, env, pad):
        env2 = dict(env)
        out = ""
        n = len(names)
        for i, nm in enumerate(names):
            proj = tmp if n == 1 else tmp + "".join([".2"] * i) + (".1" if i < n - 1 else "")
            env2[nm] = Val(self.lname(nm), tys[nm])
            out += f"{pad}let {self.lname(nm)} := {proj};\n"
        return out, env2

    def sigma(self, names, tys):
        return "Unit" if not names else " × ".join(P._paren(lty(tys[nm])) for nm in names)

    # ---------------------------------------------------------------- expressions added to py2lean.Fn
    def to_bool(self, v, node):
        if v.ty.kind == "list":
            return f"(!(List.isEmpty {v.code}))"            # truthiness of a list: non-empty
        if v.ty.kind == "str" and v.code is not None:
            return f"(!({v.code} == \"\"))"
        return super().to_bool(v, node)

    def e_UnaryOp(self, e, env):
        if isinstance(e.op, ast.Invert):
            n0 = len(self.pending)
            v = self.expr(e.operand, env)
            if v.ty == LIST(BOOL):
                return Val(f"(List.map (fun b_ => !b_) {v.code})", LIST(BOOL))
            del self.pending[n0:]
        if isinstance(e.op, ast.Not):
            v = self.expr(e.operand, env)
            if v.is_static:
                return Val("true" if not v.static else "false", BOOL, static=not v.static)
            return Val(f"(!{self.to_bool(v, e)})", BOOL)
        return super().e_UnaryOp(e, env)

    def e_Dict(self, e, env):
        if not e.keys:
            return Val("[]", Ty("emptydict"))
        # {'>': operator.gt, …}: a table of comparison functions
        ops = {"operator.gt": "gt", "operator.lt": "lt", "operator.ge": "ge", "operator.le": "le", "operator.eq": "eq",
               "operator.ne": "ne"}
        keys = [k.value if isinstance(k, ast.Constant) and isinstance(k.value, str) else None for k in e.keys]
        vals = [ops.get(dotted(v)) for v in e.values]
        if e.keys and all(k is not None for k in keys) and all(v is not None for v in vals):
            if len(set(keys)) != len(keys):
                self.bad(e, "dict literal with a repeated key")
            return Val("[" + ", ".join(f"({_strlit(k)}, PySM.Cmp.{v})" for k, v in zip(keys, vals)) + "]", Ty("cmpdict"))
        if e.keys and all(k is not None for k in keys) and "cell_of" in self.spec:
            # a row for csv.DictWriter: the named cells, in the order written
            if len(set(keys)) != len(keys):
                self.bad(e, "dict literal with a repeated key")
            cells = [self.to_cell(self.expr(v, env), e) for v in e.values]
            return Val("[" + ", ".join(f"({_strlit(k)}, {c})" for k, c in zip(keys, cells)) + "]", Ty("celldict"))
        self.bad(e, "dict literal other than {str: operator.<comparison>} / a csv row (TARGETS.cell_of)")

    def e_Name(self, e, env):
        if e.id == "self":
            self.bad(e, "`self` used as a value (only self.<attr> is translated)")
        return super().e_Name(e, env)

    def e_List(self, e, env):
        if not e.elts:
            return Val("[]", EMPTYLIST)
        vs = [self.expr(x, env) for x in e.elts]
        t = vs[0].ty.with_elem(False)
        if t.kind == "str":
            return Val("[" + ", ".join(self.str_code(v) for v in vs) + "]", LIST(STR))
        return Val("[" + ", ".join(self.coerce_sm(v, t, e) for v in vs) + "]", LIST(t))

    def expr(self, e, env):
        for pat, o in self.spec.get("opaque_exprs", {}).items():
            hole = _match_pattern(ast.parse(pat, mode="eval").body, e)
            if hole is not None:
                # the whole expression is ONE opaque function of the sub-expression in the hole `_` (the pattern pins the text)
                v = self.expr(hole, env)
                code = f"({o['lean']} {self.coerce_sm(v, o['args'][0], e)})"
                if pat not in self.used_opaque_exprs:
                    self.used_opaque_exprs.append(pat)
                if o.get("raises"):
                    t = self.fresh("t")
                    self.pending.append((t, code))
                    return Val(t, o["ret"])
                return Val(code, o["ret"])
        return super().expr(e, env)

    def to_cell(self, v, node):
        """a value stored in a csv row: the opaque injection of its type into `Cell` (TARGETS.cell_of)"""
        inj = self.spec.get("cell_of", {}).get(str(v.ty.with_elem(False)))
        if inj is None:
            self.bad(node, f"a cell of type {v.ty} (no injection in TARGETS.cell_of)")
        if (inj, v.ty.with_elem(False)) not in self.used_cells:
            self.used_cells.append((inj, v.ty.with_elem(False)))
        code = self.str_code(v) if v.ty.kind == "str" else v.code
        return f"({inj} {code})"

    def e_Tuple(self, e, env):
        if any(isinstance(x, ast.Constant) and x.value is None for x in e.elts):
            # a tuple display with `None` members: only usable where the declared type says what None is there (Optional)
            vs = [self.expr(x, env) for x in e.elts]
            v = Val(None, TUPLE(*[x.ty.with_elem(False) for x in vs]))
            v.parts = vs
            return v
        return super().e_Tuple(e, env)

    def e_Attribute(self, e, env):
        k = self.key_of(e)
        if k == "self.__class__":
            return Val(None, Ty("class"), static="<class of self>")
        if k is not None and k.startswith("self."):
            if k in env:
                return env[k]
            m = self.find_method(k[5:])
            if m is not None and any(dotted(d) == "property" for d in m.decorator_list):
                return self.inline_method(m, e, env)
            self.bad(e, f"{k} is neither a declared field of the state record nor a property with a single-expression body")
        ra = self.spec.get("rec_attrs", {})
        if any(e.attr in d for d in ra.values()):
            n0 = len(self.pending)
            v = self.expr(e.value, env)
            if v.ty.kind == "opt" and v.ty.item.kind == "rec" and e.attr in ra.get(v.ty.item.item, {}):
                t_ = self.fresh("t")      # an attribute of an Optional object: AttributeError when it is None
                self.pending.append((t_, f"(PySM.getObj {v.code})"))
                v = Val(t_, v.ty.item)
            if v.ty.kind == "rec" and e.attr in ra.get(v.ty.item, {}):
                ent = (v.ty.item, e.attr, ra[v.ty.item][e.attr])
                if ent not in self.used_attrs:
                    self.used_attrs.append(ent)
                return Val(f"({v.ty.item}_{e.attr} {v.code})", ra[v.ty.item][e.attr])
            del self.pending[n0:]
        ta = self.spec.get("tuple_attrs", {})
        if e.attr in ta and not (isinstance(e.value, ast.Name) and e.value.id == "self"):
            n0 = len(self.pending)
            v = self.expr(e.value, env)
            if v.ty.kind == "tuple" and ta[e.attr] < len(v.ty.item):
                i, n = ta[e.attr], len(v.ty.item)
                return Val(v.code + "".join([".2"] * i) + (".1" if i < n - 1 else ""), v.ty.item[i])
            del self.pending[n0:]
        return super().e_Attribute(e, env)

    # ---- accessor methods of the same class are inlined
    def find_method(self, name):
        qual = self.spec["func"].split(".")
        if len(qual) != 2:
            return None
        cls = next((n for n in self.tr.tree(self.relfile).body if isinstance(n, ast.ClassDef) and n.name == qual[0]), None)
        seen = 0
        while cls is not None and seen < 5:
            m = next((n for n in cls.body if isinstance(n, ast.FunctionDef) and n.name == name), None)
            if m is not None:
                return m
            base = next((dotted(b) for b in cls.bases if dotted(b)), None)       # single inheritance inside the same file
            cls = next((n for n in self.tr.tree(self.relfile).body if isinstance(n, ast.ClassDef) and n.name == base), None)
            seen += 1
        return None

    def inline_method(self, m, node, env):
        """`self.m()` / property `self.m` of the same class whose body is `return e` or `if c: return a else: return b`
        (after the docstring), without parameters: the expression is translated in place"""
        if len(m.args.args) != 1 or m.args.vararg or m.args.kwarg or m.args.kwonlyargs or m.name in self.inlining:
            self.bad(node, f"method {m.name} takes parameters (or is recursive): not inlined")
        body = [s_ for s_ in m.body if not (isinstance(s_, ast.Expr) and isinstance(s_.value, ast.Constant))]
        self.inlining.append(m.name)
        try:
            self.note(f"line {node.lineno}: accessor `self.{m.name}` (line {m.lineno}) is inlined")
            return self.inline_body(body, m, node, env)
        finally:
            self.inlining.pop()

    def inline_body(self, body, m, node, env):
        if len(body) == 1 and isinstance(body[0], ast.Return) and body[0].value is not None:
            return self.expr(body[0].value, env)
        if len(body) == 1 and isinstance(body[0], ast.If):
            c = self.expr(body[0].test, env)
            if c.is_static:
                return self.inline_body(list(body[0].body if c.static else body[0].orelse), m, node, env)
            n0 = len(self.pending)
            a = self.inline_body(list(body[0].body), m, node, env)
            b = self.inline_body(list(body[0].orelse), m, node, env)
            self.no_effects(n0, node, "an inlined accessor")
            if a.ty != b.ty:
                self.bad(node, f"accessor {m.name} returns {a.ty} or {b.ty}")
            return Val(f"(if {self.to_bool(c, node)} then {a.code} else {b.code})", a.ty)
        self.bad(node, f"method {m.name} is not a single-expression accessor: not inlined")

    def str_code(self, v):
        return v.code if v.code is not None else _strlit(v.static)

    def unwrap_opt(self, v):
        """an Optional value used in arithmetic: TypeError when it is None"""
        if v.ty.kind != "opt":
            return v
        t = self.fresh("t")
        self.pending.append((t, f"(PySM.getOpt {v.code})"))
        return Val(t, v.ty.item)

    def e_BinOp(self, e, env):
        if isinstance(e.op, ast.Mult) and isinstance(e.left, ast.List) and len(e.left.elts) == 1:
            # [x] * n: n references to x (x is not a mutable object here)
            x, n = self.expr(e.left.elts[0], env), self.expr(e.right, env)
            if n.ty.kind not in ("nat", "int") or x.ty.kind in ("list", "none"):
                self.bad(e, f"[{x.ty}] * {n.ty}")
            cnt = n.code if n.ty.kind == "nat" else f"(Int.toNat {n.code})"
            code = self.str_code(x) if x.ty.kind == "str" else x.code
            return Val(f"(List.replicate {cnt} {code})", LIST(x.ty.with_elem(False)))
        if isinstance(e.op, (ast.Div, ast.Mult, ast.Sub)) or (isinstance(e.op, ast.Add)):
            n0 = len(self.pending)
            a0, b0 = self.expr(e.left, env), self.expr(e.right, env)
            if "opt" in (a0.ty.kind, b0.ty.kind):
                return self.lifted(e.op, self.unwrap_opt(a0), self.unwrap_opt(b0), e)
            del self.pending[n0:]
        if isinstance(e.op, ast.Add):
            a, b = self.expr(e.left, env), self.expr(e.right, env)
            if a.ty.kind == "str" and b.ty.kind == "str":
                if a.is_static and b.is_static:
                    return Val(None, STR, static=a.static + b.static)
                return Val(f"({self.str_code(a)} ++ {self.str_code(b)})", STR)       # str + str: concatenation
            return self.lifted(e.op, a, b, e)
        if isinstance(e.op, ast.Pow):
            a, b = self.expr(e.left, env), self.expr(e.right, env)
            if "f64" in (a.ty.kind, b.ty.kind) and {a.ty.kind, b.ty.kind} <= {"f64", "int", "nat"}:
                o = self.spec.get("opaque", {}).get("**")
                if o is None:
                    self.bad(e, "float power (transcendental): declare the opaque parameter '**' in TARGETS.opaque")
                if "**" not in self.used_opaque:
                    self.used_opaque.append("**")
                return Val(f"({o['lean']} {self.to_f64(a, e)} {self.to_f64(b, e)})", F64)
            return self.lifted(e.op, a, b, e)
        return super().e_BinOp(e, env)

    def e_BoolOp(self, e, env):
        n0 = len(self.pending)
        r = super().e_BoolOp(e, env)
        self.no_effects(n0, e, "`and` / `or`")
        return r

    def e_IfExp(self, e, env):
        n0 = len(self.pending)
        r = super().e_IfExp(e, env)
        self.no_effects(n0, e, "a conditional expression")
        return r

    def e_ListComp(self, e, env):
        n0 = len(self.pending)
        r = super().e_ListComp(e, env)
        self.no_effects(n0, e, "a comprehension")
        return r

    def e_Subscript(self, e, env):
        if isinstance(e.value, ast.Attribute) and e.value.attr == "shape" and isinstance(e.slice, ast.Constant) \
                and e.slice.value == 0:
            a = self.expr(e.value.value, env)
            if a.ty.kind == "list":
                return Val(f"(Py.size {a.code})", INT)        # first dimension of an array = number of rows
            self.bad(e, f".shape[0] of {a.ty}")
        v = self.expr(e.value, env)
        s = e.slice
        if isinstance(s, ast.Slice) and s.upper is None and s.step is None and isinstance(s.lower, ast.Constant) \
                and isinstance(s.lower.value, int) and s.lower.value >= 0 and v.ty.kind == "str" and v.code is not None:
            return Val(f"(PySM.strDrop {v.code} {s.lower.value})", STR)      # k[n:] on a str
        dc = self.spec.get("dyn_column")
        if dc is not None and self.key_of(e.value) == "self.catalog" and not isinstance(s, ast.Constant):
            kx = self.expr(s, env)
            if kx.ty.kind != "str":
                self.bad(e, f"catalog column named by {kx.ty}")
            self.uses_dyn_column = True     # a column named at run time: opaque, ValueError when there is no such field
            t = self.fresh("t")
            self.pending.append((t, f"({dc['lean']} {v.code} {self.str_code(kx)})"))
            return Val(t, dc["ret"])
        ra = self.spec.get("rec_attrs", {})
        if v.ty.kind == "rec" and isinstance(s, ast.Constant) and isinstance(s.value, str) and s.value in ra.get(v.ty.item, {}):
            ent = (v.ty.item, s.value, ra[v.ty.item][s.value])       # r["key"] on an opaque record: opaque projection
            if ent not in self.used_attrs:
                self.used_attrs.append(ent)
            return Val(f"({v.ty.item}_{s.value} {v.code})", ra[v.ty.item][s.value])
        if v.ty.kind == "cmpdict":
            kx = self.expr(s, env)
            if kx.ty.kind != "str":
                self.bad(e, f"operator table indexed with {kx.ty}")
            t = self.fresh("t")
            self.pending.append((t, f"(PySM.dictGet {v.code} {self.str_code(kx)})"))
            return Val(t, Ty("cmpop"))
        if v.ty.kind == "list" and v.ty.item is not None and v.ty.item.kind == "rec" and "field_of" in self.spec \
                and not isinstance(s, ast.Slice):
            n0 = len(self.pending)
            kx = self.expr(s, env)
            if kx.ty.kind == "str":
                # a[name] with the field name a run-time (or literal) string: float64 values of that field
                self.uses_field_of = True
                t = self.fresh("t")
                self.pending.append((t, f"(PySM.column field_of {self.str_code(kx)} {v.code})"))
                return Val(t, LIST(F64))
            del self.pending[n0:]
        if v.ty.kind == "list" and v.ty.item is not None and v.ty.item.kind == "rec" and isinstance(s, ast.Constant) \
                and isinstance(s.value, str):
            # column of a structured array
            cols = self.spec.get("columns", {})
            if s.value not in cols:
                self.bad(e, f"column {s.value!r} is not declared in TARGETS.columns")
            ent = (s.value, v.ty.item, cols[s.value])
            if ent not in self.used_cols:
                self.used_cols.append(ent)
            return Val(f"(List.map col_{s.value} {v.code})", LIST(cols[s.value]))
        if v.ty.kind == "tuple":
            n = len(v.ty.item)

            def proj(i):
                return v.code + "".join([".2"] * i) + (".1" if i < n - 1 else "")
            if isinstance(s, ast.Constant) and isinstance(s.value, int) and not isinstance(s.value, bool) and -n <= s.value < n:
                i = s.value % n
                return Val(f"{proj(i)}", v.ty.item[i])
            if isinstance(s, ast.Slice) and s.step is None and s.upper is None and isinstance(s.lower, ast.Constant) \
                    and isinstance(s.lower.value, int) and 0 <= s.lower.value < n:
                lo = s.lower.value
                if n - lo == 1:
                    return Val(proj(lo), v.ty.item[lo])
                r = Val("(" + ", ".join(proj(i) for i in range(lo, n)) + ")", TUPLE(*v.ty.item[lo:]))
                r.parts = [proj(i) for i in range(lo, n)]       # components, used when the tuple is only iterated
                return r
            self.bad(e, "tuple subscript other than a literal index / [k:]")
        if isinstance(s, ast.Slice):
            if s.lower is None and s.upper is None and isinstance(s.step, ast.UnaryOp) and isinstance(s.step.op, ast.USub) \
                    and isinstance(s.step.operand, ast.Constant) and s.step.operand.value == 1 and v.ty.kind == "list":
                return Val(f"(List.reverse {v.code})", v.ty)
            self.bad(e, "slice other than [::-1]")
        if isinstance(s, ast.Tuple) and len(s.elts) == 2 and isinstance(s.elts[1], ast.Slice) and \
                s.elts[1].lower is None and s.elts[1].upper is None and s.elts[1].step is None and \
                v.ty.kind == "list" and v.ty.item is not None and v.ty.item.kind == "list":
            # a[i, :] : row i of a 2-d array kept as a list of rows
            i = self.expr(s.elts[0], env)
            if i.ty.kind not in ("int", "nat"):
                self.bad(e, f"row index of type {i.ty}")
            t = self.fresh("t")
            self.pending.append((t, f"(PySM.{'getN' if i.ty.kind == 'nat' else 'getI'} {v.code} {i.code})"))
            return Val(t, v.ty.item)
        i = self.expr(s, env)
        if v.ty.kind == "list" and i.ty.kind == "idxtuple":
            return Val(f"(Py.gather {v.code} {i.code})", v.ty)
        if v.ty.kind == "list" and v.ty.item is not None and i.ty == LIST(BOOL):
            t = self.fresh("t")
            self.pending.append((t, f"(PySM.maskSelect {v.code} {i.code})"))
            return Val(t, v.ty)
        if v.ty.kind == "list" and v.ty.item is not None and i.ty.kind in ("int", "nat"):
            op = "getN" if i.ty.kind == "nat" else "getI"
            t = self.fresh("t")
            self.pending.append((t, f"(PySM.{op} {v.code} {i.code})"))
            return Val(t, Ty(v.ty.item.kind, False, v.ty.item.item))
        self.bad(e, f"subscript of {v.ty} with {i.ty}")

    def compare(self, op, a, b, node):
        name = type(op).__name__
        if name in ("Is", "IsNot") and b.ty.kind == "none" and a.ty.kind == "opt":
            code = f"(Option.isNone {a.code})"
            return Val(code if name == "Is" else f"(!{code})", BOOL)
        if name in ("Eq", "NotEq") and {a.ty.kind, b.ty.kind} == {"opt", "int"} or \
                (name in ("Eq", "NotEq") and {a.ty.kind, b.ty.kind} == {"opt", "nat"}):
            o, x = (a, b) if a.ty.kind == "opt" else (b, a)
            if o.ty.item.kind != "int":
                self.bad(node, f"comparison of {a.ty} with {b.ty}")
            code = f"(PySM.optEqInt {o.code} {self.to_int(x, node)})"
            return Val(code if name == "Eq" else f"(!{code})", BOOL)
        if name in ("Eq", "NotEq") and a.ty.kind == "none" and b.ty.kind in ("int", "nat", "f64") or \
                (name in ("Eq", "NotEq") and b.ty.kind == "none" and a.ty.kind in ("int", "nat", "f64")):
            r = name == "NotEq"          # None == 3 is False
            return Val("true" if r else "false", BOOL, static=r)
        if name in ("Eq", "NotEq") and a.ty.kind == "str" and b.ty.kind == "str" and not (a.is_static and b.is_static):
            x = a.code if a.code is not None else _strlit(a.static)
            y = b.code if b.code is not None else _strlit(b.static)
            code = f"({x} == {y})"
            return Val(code if name == "Eq" else f"(!{code})", BOOL)
        return super().compare(op, a, b, node)

    def e_Compare(self, e, env):
        if len(e.ops) == 1 and isinstance(e.ops[0], (ast.Eq, ast.NotEq)):
            c0 = e.comparators[0]
            neg = isinstance(e.ops[0], ast.NotEq)
            if isinstance(c0, ast.UnaryOp) and isinstance(c0.op, ast.USub) and dotted(c0.operand) in ("numpy.inf", "np.inf"):
                v = self.expr(e.left, env)
                if v.ty.kind in ("nreal", "ereal"):
                    self.uses_real = True
                    code = f"(PySM.isNegInf {v.code})" if v.ty.kind == "nreal" else f"(PySM.isNegInfE {v.code})"
                    return Val(f"(!{code})" if neg else code, BOOL)
                self.bad(e, f"comparison of {v.ty} with -inf")
            if isinstance(c0, ast.Constant) and c0.value == 0 and not isinstance(c0.value, bool):
                n0, tmp0 = len(self.pending), self.tmp
                v = self.expr(e.left, env)
                if v.ty.kind == "real" or v.ty == LIST(REAL):
                    self.uses_real = True
                    one = (lambda c: f"(!(PySM.isZeroR {c}))") if neg else (lambda c: f"(PySM.isZeroR {c})")
                    if v.ty.kind == "real":
                        return Val(one(v.code), BOOL)
                    return Val(f"(List.map (fun x_ => {one('x_')}) {v.code})", LIST(BOOL))
                del self.pending[n0:]
                self.tmp = tmp0          # the probe is undone completely: the names of the other path do not shift
        if len(e.ops) == 1 and isinstance(e.ops[0], ast.LtE):
            n0 = len(self.pending)
            a, b = self.expr(e.left, env), self.expr(e.comparators[0], env)
            if b.ty.kind == "ereal" and a.ty.kind == "ereal":
                self.uses_real = True
                return Val(f"(PySM.ellLe {a.code} {b.code})", BOOL)
            if b.ty.kind == "ereal" and a.ty == LIST(EREAL):
                self.uses_real = True
                return Val(f"(List.map (fun x_ => PySM.ellLe x_ {b.code}) {a.code})", LIST(BOOL))
            del self.pending[n0:]
        if len(e.ops) == 1 and isinstance(e.ops[0], (ast.Is, ast.IsNot)):
            # identity tests are never elementwise
            return self.compare(e.ops[0], self.expr(e.left, env), self.expr(e.comparators[0], env), e)
        if len(e.ops) == 1 and isinstance(e.ops[0], (ast.In, ast.NotIn)) and not isinstance(e.comparators[0], ast.Tuple) \
                and not (isinstance(e.left, ast.Constant) and e.left.value is None):
            n0, tmp0 = len(self.pending), self.tmp
            try:
                a, b = self.expr(e.left, env), self.expr(e.comparators[0], env)
            except Untranslatable:
                a = b = None
            if a is not None and a.ty.kind == "str" and b.ty == LIST(STR):
                code = f"(List.contains {b.code} {self.str_code(a)})"        # k in [names]
                return Val(code if isinstance(e.ops[0], ast.In) else f"(!{code})", BOOL)
            del self.pending[n0:]
            self.tmp = tmp0
        if len(e.ops) == 1 and isinstance(e.ops[0], (ast.In, ast.NotIn)) and isinstance(e.left, ast.Constant) \
                and e.left.value is None:
            v = self.expr(e.comparators[0], env)
            if v.ty.kind == "list" and v.ty.item is not None and v.ty.item.kind == "opt":
                code = f"(List.any {v.code} Option.isNone)"       # `None in t` on a group of Optional items
                return Val(code if isinstance(e.ops[0], ast.In) else f"(!{code})", BOOL)
            self.bad(e, f"`None in` {v.ty}")
        # `v in (None, '')`: emptiness of one field
        if len(e.ops) == 1 and isinstance(e.ops[0], (ast.In, ast.NotIn)) and isinstance(e.comparators[0], ast.Tuple):
            opts = e.comparators[0].elts
            if all(isinstance(o, ast.Constant) and o.value in (None, "") for o in opts) and \
                    {repr(o.value) for o in opts} == {"None", "''"}:
                v = self.expr(e.left, env)
                if v.ty.kind == "opt":
                    code = f"(Option.isNone {v.code})"
                elif v.ty.kind == "str":
                    code = f"({v.code} == \"\")"
                elif v.ty.kind == "none":
                    return Val("true", BOOL, static=True)
                else:
                    self.bad(e, f"`in (None, '')` on {v.ty}")
                return Val(code if isinstance(e.ops[0], ast.In) else f"(!{code})", BOOL)
            self.bad(e, "`in` other than `v in (None, '')`")
        return super().e_Compare(e, env)

    def e_Call(self, e, env):
        fn = dotted(e.func)
        args = e.args
        kw = {k.arg: k.value for k in e.keywords}
        np_ = lambda *names: fn in [p + n for n in names for p in ("numpy.", "np.")]
        opq = self.spec.get("opaque", {})
        if fn in opq and not (fn == "float"):
            o = opq[fn]
            if fn not in self.used_opaque:
                self.used_opaque.append(fn)
            allowed_kw = o.get("kwargs", [])
            if o.get("star") and len(args) == 1 and isinstance(args[0], ast.Starred):
                vs = [self.expr(args[0].value, env)]        # f(*t): the declared opaque takes the group as one list
            else:
                vs = [self.expr(a, env) for a in args]
            names_kw = [k.arg for k in e.keywords]
            if any(k is None and "**" not in allowed_kw for k in names_kw):
                self.bad(e, f"opaque {fn}: **kwargs not declared")
            kwv = {}
            for k in e.keywords:
                if k.arg is None:
                    continue        # `**kwargs`: declared pass-through of the caller's options (not a value of the model)
                if k.arg in o.get("fixed_kw", {}):
                    fv = self.expr(k.value, env)
                    if not (fv.is_static and fv.static == o["fixed_kw"][k.arg]):
                        self.bad(e, f"opaque {fn}: keyword {k.arg} is not the fixed {o['fixed_kw'][k.arg]!r}")
                    continue
                if k.arg not in o.get("kwparams", {}):
                    self.bad(e, f"opaque {fn}: keyword {k.arg} is not declared")
                kwv[k.arg] = self.expr(k.value, env)
            want = list(o["args"]) + [o["kwparams"][k] for k in o.get("kwparams", {})]
            got = vs + [kwv.get(k) for k in o.get("kwparams", {})]
            if len(vs) != len(o["args"]) or any(g is None for g in got):
                self.bad(e, f"opaque {fn}: arguments differ from the declaration")
            codes = [self.coerce_sm(v, t, e) for v, t in zip(got, want)]
            code = f"({o['lean']} " + " ".join(codes) + ")" if codes else o["lean"]
            if o.get("raises"):
                t = self.fresh("t")
                self.pending.append((t, code))
                return Val(t, o["ret"])
            return Val(code, o["ret"])
        if isinstance(e.func, ast.Attribute) and e.func.attr == "items" and not args and not kw:
            n0, tmp0 = len(self.pending), self.tmp
            d = self.expr(e.func.value, env)
            if d.ty.kind == "dict":
                return Val(d.code, LIST(TUPLE(STR, d.ty.item)))       # d.items(): the pairs in insertion order
            del self.pending[n0:]
            self.tmp = tmp0
        if fn in ("callable", "hasattr") and not kw and "rec_preds" in self.spec:
            v = self.expr(args[0], env)
            pk = "callable" if fn == "callable" and len(args) == 1 else \
                ("hasattr:" + args[1].value if fn == "hasattr" and len(args) == 2 and isinstance(args[1], ast.Constant)
                 and isinstance(args[1].value, str) else None)
            pn = self.spec["rec_preds"].get(v.ty.item if v.ty.kind == "rec" else None, {}).get(pk)
            if pn is None:
                self.bad(e, f"{fn} on {v.ty}: no opaque predicate declared (TARGETS.rec_preds)")
            if (pn, v.ty.item) not in self.used_preds:
                self.used_preds.append((pn, v.ty.item))
            return Val(f"({pn} {v.code})", BOOL)
        if isinstance(e.func, ast.Attribute) and e.func.attr == "startswith" and len(args) == 1 and not kw:
            n0, tmp0 = len(self.pending), self.tmp
            a, b = self.expr(e.func.value, env), self.expr(args[0], env)
            if a.ty.kind == "str" and b.ty.kind == "str" and a.code is not None:
                return Val(f"(PySM.strStartsWith {a.code} {self.str_code(b)})", BOOL)
            del self.pending[n0:]
            self.tmp = tmp0
        if fn == "list" and len(args) == 1 and not kw:
            n0, tmp0 = len(self.pending), self.tmp
            try:
                v = self.expr(args[0], env)
            except Untranslatable:
                v = None
            if v is not None and v.ty.kind == "list" and v.ty.item is not None:
                return v            # list(xs) of a list: a copy (lists are values here)
            del self.pending[n0:]
            self.tmp = tmp0
        if fn in ("zip_longest", "itertools.zip_longest") and len(args) == 1 and not kw and isinstance(args[0], ast.Starred):
            # zip_longest(*[g()] * k): ONE iterator object k times = its items in groups of k, the last filled with None
            b = args[0].value
            if isinstance(b, ast.BinOp) and isinstance(b.op, ast.Mult) and isinstance(b.left, ast.List) and len(b.left.elts) == 1 \
                    and isinstance(b.right, ast.Constant) and isinstance(b.right.value, int) and b.right.value > 0 \
                    and isinstance(b.left.elts[0], ast.Call) and opq.get(dotted(b.left.elts[0].func), {}).get("generator"):
                it = self.expr(b.left.elts[0], env)
                return Val(f"(PySM.chunksLongest {b.right.value} {it.code})", LIST(LIST(OPT(it.ty.item))))
            self.bad(e, "zip_longest other than zip_longest(*[<opaque generator>()] * <literal>)")
        if isinstance(e.func, ast.Attribute) and isinstance(e.func.value, ast.Name) and e.func.value.id == "self" \
                and self.is_method and not args and not kw:
            m = self.find_method(e.func.attr)
            if m is None:
                self.bad(e, f"method self.{e.func.attr} not found in the class")
            return self.inline_method(m, e, env)
        if ((fn is None and isinstance(e.func, ast.Subscript)) or
                (isinstance(e.func, ast.Name) and fn in env and env[fn].ty.kind == "cmpop")) and len(args) == 2 and not kw:
            f = self.expr(e.func, env)
            if f.ty.kind == "cmpop":
                a, b = self.expr(args[0], env), self.expr(args[1], env)
                if a.ty == LIST(F64) and b.ty.kind in ("f64", "int", "nat"):
                    return Val(f"(List.map (fun x_ => PySM.Cmp.apply {f.code} x_ {self.to_f64(b, e)}) {a.code})", LIST(BOOL))
                self.bad(e, f"comparison function applied to {a.ty}, {b.ty}")
            self.bad(e, "call of a subscripted value that is not an entry of an operator table")
        if fn == "isinstance" and len(args) == 2 and not kw:
            v = self.expr(args[0], env)
            names = [dotted(x) for x in (args[1].elts if isinstance(args[1], ast.Tuple) else [args[1]])]
            if all(n_ in ("str", "list", "tuple") for n_ in names) and v.ty.kind in ("str", "list", "none", "int", "f64"):
                r = (v.ty.kind == "str" and "str" in names) or (v.ty.kind == "list" and ("list" in names or "tuple" in names))
                # a Python list and a tuple of statements are both the type `list` here
                return Val("true" if r else "false", BOOL, static=r)
            self.bad(e, f"isinstance({v.ty}, {names})")
        if fn == "float" and len(args) == 1 and not kw and "float" in opq:
            n0 = len(self.pending)
            v = self.expr(args[0], env)
            if v.ty.kind == "str":
                o = opq["float"]
                if "float" not in self.used_opaque:
                    self.used_opaque.append("float")
                t = self.fresh("t")
                self.pending.append((t, f"({o['lean']} {self.str_code(v)})"))
                return Val(t, F64)
            if v.ty.kind in ("int", "nat", "f64"):
                return Val(self.to_f64(v, e), F64)
            self.bad(e, f"float() of {v.ty}")
        if isinstance(e.func, ast.Attribute) and e.func.attr == "split" and len(args) == 1 and not kw \
                and isinstance(args[0], ast.Constant) and isinstance(args[0].value, str) and args[0].value:
            v = self.expr(e.func.value, env)
            if v.ty.kind == "str":
                return Val(f"(PySM.split {self.str_code(v)} {_strlit(args[0].value)})", LIST(STR))
            self.bad(e, f".split of {v.ty}")
        if isinstance(e.func, ast.Attribute) and e.func.attr == "join" and len(args) == 1 and not kw \
                and isinstance(e.func.value, ast.Constant) and isinstance(e.func.value.value, str):
            v = self.expr(args[0], env)
            if v.ty == LIST(STR):
                return Val(f"(PySM.join {_strlit(e.func.value.value)} {v.code})", STR)
            self.bad(e, f".join of {v.ty}")
        if (np_("copy") or fn == "list") and len(args) == 1 and not kw:
            v = self.expr(args[0], env)
            if v.ty.kind == "list":
                return v            # a fresh copy: the identity under value semantics
            self.bad(e, f"{fn} of {v.ty}")
        if np_("isnan") and len(args) == 1 and not kw:
            a0 = args[0]
            if isinstance(a0, ast.Call) and dotted(a0.func) in ("numpy.sum", "np.sum") and len(a0.args) == 1:
                v = self.expr(a0.args[0], env)
                if v.ty == LIST(NREAL):
                    # isnan(sum(x)) for values in {nan, -inf, finite}: some entry is nan
                    self.uses_real = True
                    return Val(f"(PySM.anyNan {v.code})", BOOL)
            v = self.expr(a0, env)
            self.uses_real = True
            if v.ty.kind == "nreal":
                return Val(f"(PySM.isNan {v.code})", BOOL)
            if v.ty == LIST(NREAL):
                return Val(f"(List.map PySM.isNan {v.code})", LIST(BOOL))
            self.bad(e, f"numpy.isnan of {v.ty}")
        if np_("log10") and len(args) == 1 and not kw:
            v = self.expr(args[0], env)
            self.uses_real = True
            if v.ty.kind == "real":
                return Val(f"(PySM.log10 {v.code})", v.ty)
            if v.ty == LIST(REAL):
                return Val(f"(List.map PySM.log10 {v.code})", v.ty)
            if v.ty == LIST(NAT):     # an integer array: converted to float64 (exact: counts), then the real-layer log10
                return Val(f"(List.map (fun n_ => PySM.log10 (RealOps.ofNat n_ : α)) {v.code})", LIST(REAL))
            self.bad(e, f"numpy.log10 of {v.ty}")
        if fn == "str" and len(args) == 1 and not kw:
            n0 = len(self.pending)
            v = self.expr(args[0], env)
            ra = self.spec.get("rec_attrs", {})
            if v.ty.kind == "rec" and "__str__" in ra.get(v.ty.item, {}):
                ent = (v.ty.item, "__str__", ra[v.ty.item]["__str__"])
                if ent not in self.used_attrs:
                    self.used_attrs.append(ent)
                return Val(f"({v.ty.item}___str__ {v.code})", ra[v.ty.item]["__str__"])
            del self.pending[n0:]
        if fn == "time.time" and not args and not kw:
            return Val("<time.time()>", UNUSED)         # a clock reading: may be stored, any use stops the translation
        if np_("empty") and len(args) == 1 and not kw and "empty_as" in self.spec:
            # uninitialised memory: an arbitrary value, the hidden parameter `empty'`
            self.uses_empty = True
            return Val("empty'", self.spec["empty_as"])
        if isinstance(e.func, ast.Attribute) and not kw:
            rm = self.spec.get("rec_methods", {})
            if any(e.func.attr in d for d in rm.values()):
                n0 = len(self.pending)
                try:
                    recv = self.expr(e.func.value, env)
                except Untranslatable:          # e.g. `numpy.sum`: the receiver is a module, not an object
                    recv = Val(None, NONE, static=None)
                    del self.pending[n0:]
                if recv.ty.kind == "opt" and recv.ty.item.kind == "rec" and e.func.attr in rm.get(recv.ty.item.item, {}):
                    t_ = self.fresh("t")      # a method of an Optional object: AttributeError when it is None
                    self.pending.append((t_, f"(PySM.getObj {recv.code})"))
                    recv = Val(t_, recv.ty.item)
                if recv.ty.kind == "rec" and e.func.attr in rm.get(recv.ty.item, {}) \
                        and not rm[recv.ty.item][e.func.attr].get("mutates"):
                    o = rm[recv.ty.item][e.func.attr]
                    ent = (recv.ty.item, e.func.attr)
                    if ent not in self.used_rec_methods:
                        self.used_rec_methods.append(ent)
                    vs = [self.expr(a, env) for a in args]
                    if len(vs) != len(o["args"]):
                        self.bad(e, f"method {e.func.attr}: arguments differ from the declaration")
                    code = f"({recv.ty.item}_{e.func.attr} " + " ".join([recv.code] + [self.coerce_sm(v, t, e) for v, t in zip(vs, o["args"])]) + ")"
                    if o.get("raises"):
                        t = self.fresh("t")
                        self.pending.append((t, code))
                        return Val(t, o["ret"])
                    return Val(code, o["ret"])
                del self.pending[n0:]
        if fn == "len" and len(args) == 1 and not kw:
            v = self.expr(args[0], env)
            if v.ty.kind == "str":
                if v.is_static:
                    return Val(f"({len(v.static)} : Int)", INT, lit=len(v.static))
                return Val(f"((String.length {v.code} : Nat) : Int)", INT)
            if v.ty.kind == "list":
                return Val(f"(Py.size {v.code})", INT)
            self.bad(e, f"len of {v.ty}")
        if np_("logical_and", "logical_or") and len(args) == 2 and not kw:
            a, b = self.expr(args[0], env), self.expr(args[1], env)
            op = "&&" if fn.endswith("and") else "||"
            if a.ty == LIST(BOOL) and b.ty == LIST(BOOL):
                return Val(f"(List.zipWith (fun x_ y_ => x_ {op} y_) {a.code} {b.code})", LIST(BOOL))
            if a.ty.kind == "bool" and b.ty.kind == "bool":
                return Val(f"({a.code} {op} {b.code})", BOOL)
            self.bad(e, f"{fn} of {a.ty}, {b.ty}")
        if np_("sum") and len(args) == 1 and not kw:
            n0 = len(self.pending)
            v = self.expr(args[0], env)
            if v.ty == LIST(BOOL):
                return Val(f"(PySM.countTrue {v.code})", NAT)
            del self.pending[n0:]
        if np_("size") and len(args) == 1 and not kw:
            v = self.expr(args[0], env)
            if v.ty.kind == "list":
                return Val(f"(Py.size {v.code})", INT)
            self.bad(e, f"numpy.size of {v.ty}")
        if np_("zeros") and len(args) == 1 and not kw:
            if isinstance(args[0], ast.Tuple) and len(args[0].elts) == 2:
                a, b = self.expr(args[0].elts[0], env), self.expr(args[0].elts[1], env)
                if a.ty.kind in ("int", "nat") and b.ty.kind in ("int", "nat"):
                    tn = lambda v: v.code if v.ty.kind == "nat" else f"(Int.toNat {v.code})"
                    return Val(f"(List.replicate {tn(a)} (List.replicate {tn(b)} (0 : Nat)))", LIST(LIST(NAT)))
                self.bad(e, "numpy.zeros of a non-integer shape")
            n = self.expr(args[0], env)
            if n.ty.kind in ("int", "nat"):
                return Val(f"(List.replicate {n.code if n.ty.kind == 'nat' else '(Int.toNat ' + n.code + ')'} (0 : Nat))",
                           LIST(NAT))       # an array of counts (float64 zeros that only receive += 1)
            self.bad(e, f"numpy.zeros of {n.ty}")
        if np_("shape") and len(args) == 1 and not kw:
            v = self.expr(args[0], env)
            if v.ty.kind == "list":
                return Val(f"[Py.size {v.code}]", LIST(INT))
            self.bad(e, f"numpy.shape of {v.ty}")
        if fn == "zip" and len(args) > 2 and not kw:
            vs = [self.expr(a, env) for a in args]      # zip of k lists: right-nested List.zip (stops at the shortest)
            if not all(v.ty.kind == "list" and v.ty.item is not None for v in vs):
                self.bad(e, "zip of " + ", ".join(str(v.ty) for v in vs))
            code = vs[-1].code
            for v in reversed(vs[:-1]):
                code = f"(List.zip {v.code} {code})"
            return Val(code, LIST(TUPLE(*[v.ty.item for v in vs])))
        if fn == "zip" and len(args) == 2 and not kw:
            a, b = self.expr(args[0], env), self.expr(args[1], env)
            if a.ty.kind == "list" and b.ty.kind == "list" and a.ty.item is not None and b.ty.item is not None:
                return Val(f"(List.zip {a.code} {b.code})", LIST(TUPLE(a.ty.item, b.ty.item)))
            self.bad(e, f"zip of {a.ty}, {b.ty}")
        if fn == "enumerate" and len(args) == 1 and not kw:
            a = self.expr(args[0], env)
            if a.ty.kind == "list" and a.ty.item is not None:
                return Val(f"(PySM.enumerate {a.code})", LIST(TUPLE(NAT, a.ty.item)))
            self.bad(e, f"enumerate of {a.ty}")
        if np_("ones") and len(args) == 1 and set(kw) == {"dtype"} and dotted(kw["dtype"]) == "bool":
            n = self.expr(args[0], env)
            if n.ty.kind not in ("int", "nat"):
                self.bad(e, f"numpy.ones of {n.ty}")
            return Val(f"(List.replicate {n.code if n.ty.kind == 'nat' else '(Int.toNat ' + n.code + ')'} true)", LIST(BOOL))
        sc = self.spec.get("static_calls", {})
        if fn in sc:
            v = sc[fn]
            return Val("true" if v else "false", BOOL, static=v)
        if fn == "csv.reader" and len(args) == 1 and set(kw) <= {"delimiter"}:
            f = self.expr(args[0], env)
            d = kw.get("delimiter")
            if f.ty.kind != "file" or (d is not None and not (isinstance(d, ast.Constant) and d.value == ",")) \
                    or "csv_rows" not in self.spec:
                self.bad(e, "csv.reader of something other than the opened file with delimiter ','")
            self.uses_rows = True
            return Val("rows'", self.spec["csv_rows"])
        if np_("searchsorted") and len(args) == 2:
            side = kw.get("side")
            sd = side.value if isinstance(side, ast.Constant) else ("left" if side is None else None)
            if sd not in ("left", "right") or set(kw) - {"side"}:
                self.bad(e, "searchsorted with a side that is not a literal 'left' / 'right'")
            a, v = self.expr(args[0], env), self.expr(args[1], env)
            f = "PySM.searchsortedRight" if sd == "right" else "PySM.searchsortedLeft"
            if a.ty == LIST(F64) and v.ty.kind == "f64":
                return Val(f"({f} {a.code} {v.code})", NAT)
            if a.ty == LIST(F64) and v.ty == LIST(F64):
                return Val(f"(List.map ({f} {a.code}) {v.code})", LIST(NAT))
            self.bad(e, f"searchsorted of {a.ty}, {v.ty}")
        if np_("random.uniform") and len(args) == 2 and not kw:
            if not all(isinstance(a, ast.Constant) and a.value == c and not isinstance(a.value, bool)
                       for a, c in zip(args, (0, 1))):
                self.bad(e, "numpy.random.uniform with bounds other than the literals (0, 1)")
            return self.rng_draw(None, env, e)
        if np_("random.poisson") and len(args) == 1 and not kw:
            self.expr(args[0], env)           # the mean: evaluated, not looked at (the draws are inputs)
            if "pois'" not in env:
                self.bad(e, "numpy.random.poisson used, but the function was not given the hidden stream")
            self.used_streams.add("pois'")
            t = self.fresh("r")
            self.pending.append((t, f"(PySM.rngPoisson {env["pois'"].code})"))
            env["pois'"] = Val(f"{t}.2", LIST(NAT))
            return Val(f"{t}.1", NAT)
        var = self.callee_variant(e)
        if var is not None:
            if "bad" in var:
                self.bad(e, f"call of {fn} with keywords {var['bad']}: no such variant in TARGETS.callees")
            res = self.tr.results.get(var["lean"])
            if res is None or res["status"] != "ok":
                self.bad(e, f"call of {fn}: its definition {var['lean']} is not translated "
                            f"({(res or {}).get('reason', 'later in TARGETS')})")
            vals = [self.expr(a, env) for a in args] + [self.expr(kw[k_], env) for k_ in var.get("kw", [])]
            if len(vals) != len(var["types"]):
                self.bad(e, f"call of {fn} with other arguments than TARGETS.callees declares")
            codes = [self.coerce_sm(v, t_, e) for v, t_ in zip(vals, var["types"])]
            hid = []
            if var.get("fuel"):
                # the callee has a `while` loop: its fuel is a parameter of this definition too (the same for every call)
                if "fuel" not in self.fuels:
                    self.fuels.append("fuel")
                hid.append("fuel")
            for st_ in var.get("hidden", []):
                if st_ not in env:
                    self.bad(e, f"call of {fn} needs the hidden stream {st_}")
                self.used_streams.add(st_)
                hid.append(env[st_].code)
            t = self.fresh("c")
            self.pending.append((t, f"({var['lean']} " + " ".join(hid + codes) + ")"))
            n_res = 1 + len(var.get("hidden", []))
            for i, st_ in enumerate(var.get("hidden", [])):
                env[st_] = Val(t + "".join([".2"] * (i + 1)) + (".1" if i + 1 < n_res - 1 else ""), self.STREAMS[st_])
            return Val(t if n_res == 1 else t + ".1", var["ret"])
        if np_("random.rand", "random.random", "random.random_sample") and len(args) == 1 and not kw:
            n = self.expr(args[0], env)
            if n.ty.kind not in ("nat", "int"):
                self.bad(e, f"numpy.random.rand of {n.ty}")
            return self.rng_draw(n.code if n.ty.kind == "nat" else f"(Int.toNat {n.code})", env, e)
        if fn == "range" and len(args) == 1 and not kw:
            n = self.expr(args[0], env)
            return Val(f"(Py.range (0 : Int) {self.to_int(n, e)})", LIST(INT))
        if fn in ("all", "any") and len(args) == 1 and isinstance(args[0], ast.ListComp) and not kw:
            lc = args[0]
            if len(lc.generators) == 1 and not lc.generators[0].ifs and isinstance(lc.generators[0].target, ast.Name):
                n0 = len(self.pending)
                it = self.expr(lc.generators[0].iter, env)
                if it.ty.kind == "tuple":
                    n = len(it.ty.item)
                    parts = []
                    parts_ = getattr(it, "parts", None) or [it.code + "".join([".2"] * i) + (".1" if i < n - 1 else "")
                                                            for i in range(n)]
                    for i, t in enumerate(it.ty.item):
                        env2 = dict(env)
                        env2[lc.generators[0].target.id] = Val(parts_[i], t)
                        parts.append(self.to_bool(self.expr(lc.elt, env2), e))
                    self.no_effects(n0, e, "all([...]) / any([...])")
                    return Val("(" + (" && " if fn == "all" else " || ").join(parts) + ")", BOOL)
            self.bad(e, f"{fn}() of something other than a comprehension over a tuple")
        return super().e_Call(e, env)

    def rng_draw(self, n, env, node):
        if "rng'" not in env:
            self.bad(node, "numpy.random used, but the function was not given the hidden stream")
        self.uses_rng = True
        self.used_streams.add("rng'")
        t = self.fresh("r")
        rng = env["rng'"].code
        self.pending.append((t, f"(PySM.rngUniform {rng})" if n is None else f"(PySM.rngRand {n} {rng})"))
        env["rng'"] = Val(f"{t}.2", LIST(F64))
        return Val(f"{t}.1", F64 if n is None else LIST(F64))

    # ---------------------------------------------------------------- statements
    def final(self, v, env, node):
        """`Except.ok (result, extras…)`"""
        parts = [] if v is None else [v]
        for k in self.extras:
            if k == "self''":
                fs = ["self." + f for f in self.self_fields]
                parts.append(self.pack(fs, {"self." + f: t for f, (lf, t) in self.self_fields.items()}, env, node))
                continue
            if k not in env:
                self.bad(node, f"{k} is not defined at the exit")
            parts.append(env[k].code)
        if not parts:
            return "(Except.ok ())"
        return "(Except.ok " + (parts[0] if len(parts) == 1 else "(" + ", ".join(parts) + ")") + ")"

    def check_inplace(self, key, env, node):
        if key is None or key not in env:
            self.bad(node, "in-place update of something that is not a local variable / parameter / self.<attr>")
        if key in self.aliased:
            self.bad(node, f"in-place update of {key}, which has an alias")
        if getattr(env[key], "escaped", False):
            self.bad(node, f"in-place update of {key} after it was handed to a constructor / yielded and before it is rebound")
        if key in self.param_vals and key not in self.spec.get("inout", []):
            self.bad(node, f"parameter {key} is updated in place but not declared `inout` in TARGETS")

    def arith(self, op, a, b, node):
        if isinstance(op, ast.Div) and self.spec.get("int_div") == "real" and a.ty.kind in ("nat", "int") \
                and b.ty.kind in ("nat", "int"):
            # TARGETS.int_div = "real": both operands are numpy integers (results of numpy.sum on count arrays); numpy's true
            # division never raises, the quotient is a float64: the real-layer quotient (a zero divisor is outside that layer)
            self.uses_real = True
            return Val(f"(RealOps.div {self.to_real(a, node)} {self.to_real(b, node)})", Ty("real", a.ty.elem or b.ty.elem))
        return super().arith(op, a, b, node)

    def mut_call(self, c, env, s):
        """`obj.m(…)` that changes the opaque object `obj` (`rec_methods … mutates`): opaque `T_m : T → … → M (ret × T)`;
        queues the call, returns (bound name, obj, declaration) — the caller rebinds the object to `.2` — or None"""
        if not (isinstance(c, ast.Call) and isinstance(c.func, ast.Attribute) and isinstance(c.func.value, ast.Name)
                and c.func.value.id in env and env[c.func.value.id].ty.kind == "rec"):
            return None
        obj = env[c.func.value.id]
        o = self.spec.get("rec_methods", {}).get(obj.ty.item, {}).get(c.func.attr)
        if o is None or not o.get("mutates"):
            return None
        for k_ in c.keywords:
            if k_.arg not in o.get("ignore_kw", []):
                self.bad(s, f"method {c.func.attr}: keyword {k_.arg} is not declared")
        vs = [self.expr(a, env) for a in c.args]
        if len(vs) != len(o["args"]):
            self.bad(s, f"method {c.func.attr}: arguments differ from the declaration")
        ent = (obj.ty.item, c.func.attr)
        if ent not in self.used_rec_methods:
            self.used_rec_methods.append(ent)
        r = self.fresh("m")
        self.pending.append((r, f"({obj.ty.item}_{c.func.attr} " + " ".join(
            [obj.code] + [self.coerce_sm(v, t, s) for v, t in zip(vs, o["args"])]) + ")"))
        return r, obj, o

    def rebind(self, key, v, env, go, pad, node):
        """assignment of a translated value to an env key"""
        pre = self.pre(pad)
        decl = self.spec.get("locals", {}).get(key)
        if decl is None and key.startswith("self."):
            decl = self.self_fields[key[5:]][1]
        if v.ty.kind == "emptydict" and decl is None:
            self.bad(node, f"`{key} = {{}}` needs a declared value type (TARGETS.locals)")
        if decl is not None and (v.ty.kind in ("none", "emptydict") or (v.ty.kind == "list" and v.ty.item is None)
                                 or key.startswith("self.")):
            # the declaration gives the type of `None` / `[]`; any other value keeps its own (more precise) type and is
            # converted where paths meet (branch merge, loop state)
            v = Val(self.coerce_sm(v, decl, node), decl)
        if decl is not None and decl.kind == "list" and decl.item.kind == "rec" and v.ty.kind == "list" and v.ty != decl \
                and v.ty.item is not None:
            v = Val(self.coerce_sm(v, decl, node), decl)      # e.g. [''] * n where ids (bytes or str) are declared
        if v.ty.kind == "list" and v.ty.item is None:
            self.bad(node, f"`{key} = []` needs a declared element type (TARGETS.locals)")
        if (v.ty.kind == "none" and decl is None) or (v.code is None and v.is_static and v.ty.kind in ("class", "str")):
            env2 = dict(env)
            env2[key] = v
            return pre + go(env2)
        if v.ty.kind == "cmpdict":
            env2 = dict(env)
            env2[key] = Val(self.lname(key), v.ty)
            return pre + f"{pad}let {self.lname(key)} : List (String × PySM.Cmp) := {v.code};\n" + go(env2)
        if v.ty.kind == "unused":
            env2 = dict(env)
            env2[key] = v
            return pre + go(env2)
        if v.ty.kind in ("tzinfo", "tzstr", "monthrange", "utc"):
            self.bad(node, f"variable of helper type {v.ty}")
        env2 = dict(env)
        env2[key] = Val(self.lname(key), v.ty, lit=v.lit)
        return pre + f"{pad}let {self.lname(key)} := {v.code};\n" + go(env2)

    def mark_escapes(self, node, env):
        """list variables handed to an opaque call / yielded: a later in-place update before rebinding is refused"""
        for n in ast.walk(node):
            if isinstance(n, ast.Name) and n.id in env and env[n.id].ty.kind == "list" and env[n.id].code == self.lname(n.id):
                v = env[n.id]
                v2 = Val(v.code, v.ty, lit=v.lit)
                v2.escaped = True
                env[n.id] = v2

    def blk(self, stmts, env, k, ind, ctx):
        """Lean term of type `M ρ` for `stmts` followed by the continuation k(env)"""
        if not stmts:
            return k(env)
        s, rest = stmts[0], stmts[1:]
        pad = "  " * ind
        go = lambda env2: self.blk(rest, env2, k, ind, ctx)
        if isinstance(s, ast.Expr) and isinstance(s.value, ast.Constant) and isinstance(s.value.value, str):
            return go(env)
        if isinstance(s, ast.Pass):
            return go(env)
        if isinstance(s, ast.FunctionDef):
            self.bad(s, f"nested function {s.name} (declare it opaque in TARGETS.local_defs_opaque)")
        if isinstance(s, ast.Return):
            if ctx.kind != "fn":
                self.bad(s, "return inside a loop")
            if self.is_gen:
                if s.value is not None:
                    self.bad(s, "return with a value in a generator")
                return pad + self.final(env["out'"].code, env, s)
            if s.value is None:
                self.ret_check(Ty("unit"), s)
                return pad + self.final(None, env, s)
            if isinstance(s.value, ast.Name) and s.value.id == "self" and self.is_method:
                # `return self`: the result is the final state record (one component, not two)
                self.ret_check(Ty("self"), s)
                return pad + self.final(None, env, s)
            v = self.expr(s.value, env)
            pre = self.pre(pad)
            if v.code is None and v.ty.kind == "none" and self.ret_ty is not None and self.ret_ty.kind == "opt":
                v = Val(f"(none : {lty(self.ret_ty)})", self.ret_ty)
            if v.code is None:
                self.bad(s, f"return of a {v.ty} constant")
            key = self.key_of(s.value)
            rt = v.ty.with_elem(False)
            if self.ret_ty is not None and self.ret_ty.kind == "opt" and self.ret_ty.item == rt:
                v = Val(f"(some {v.code})", self.ret_ty)       # the other path returned the Optional field itself
                rt = self.ret_ty
            self.ret_check(rt, s)
            if key in self.extras and len(self.spec.get("inout", [])) == 1 and key in self.spec.get("inout", []):
                # the function returns the array it updated in place: one component, not two
                self.ret_is_inout = True
                return pre + pad + self.final(None, env, s)
            return pre + pad + self.final(v.code, env, s)
        if isinstance(s, ast.Raise):
            exc = dotted(s.exc.func) if isinstance(s.exc, ast.Call) else dotted(s.exc) if s.exc is not None else None
            return f"{pad}(Except.error {exc_of(exc)})"
        if isinstance(s, ast.Assert):
            c = self.expr(s.test, env)
            pre = self.pre(pad)
            if c.is_static:
                if c.static:
                    return pre + go(env)
                return pre + f"{pad}(Except.error (PySM.Exc.py Py.Err.assertionError))"
            return pre + f"{pad}if {self.to_bool(c, s)} then\n{self.blk(rest, dict(env), k, ind + 1, ctx)}\n" \
                         f"{pad}else\n{pad}  (Except.error (PySM.Exc.py Py.Err.assertionError))"
        if isinstance(s, ast.Continue):
            if ctx.kind != "loop":
                self.bad(s, "continue outside a loop")
            return f"{pad}(Except.ok (PySM.Ctl.next {self.pack(ctx.names, ctx.tys, env, s, ctx.inplace)}))"
        if isinstance(s, ast.Break):
            if ctx.kind != "loop":
                self.bad(s, "break outside a loop")
            return f"{pad}(Except.ok (PySM.Ctl.brk {self.pack(ctx.names, ctx.tys, env, s)}))"
        if isinstance(s, ast.Assign):
            if len(s.targets) != 1:
                self.bad(s, "multiple assignment targets")
            t = s.targets[0]
            if isinstance(t, ast.Name) and isinstance(s.value, ast.Call) and dotted(s.value.func) == "csv.DictWriter":
                # writer = csv.DictWriter(<the open file>, fieldnames=<list of str>, delimiter=','): rows go to the stream file'
                cw = s.value
                kws = {k_.arg: k_.value for k_ in cw.keywords}
                if len(cw.args) != 1 or not (isinstance(cw.args[0], ast.Name) and cw.args[0].id in env
                                             and env[cw.args[0].id].ty.kind == "file") or set(kws) != {"fieldnames", "delimiter"} \
                        or not (isinstance(kws["delimiter"], ast.Constant) and kws["delimiter"].value == ","):
                    self.bad(s, "csv.DictWriter other than DictWriter(<open file>, fieldnames=…, delimiter=',')")
                fnames = self.expr(kws["fieldnames"], env)
                if fnames.ty != LIST(STR):
                    self.bad(s, f"fieldnames of type {fnames.ty}")
                env2 = dict(env)
                env2[t.id] = Val(fnames.code, Ty("dictwriter"))
                return self.pre(pad) + go(env2)
            if isinstance(t, ast.Name) and t.id in self.spec.get("ignore_locals", []):
                self.check_ignored(t.id, s)
                return go(env)       # a message text: not evaluated
            mc = self.mut_call(s.value, env, s) if isinstance(t, ast.Name) else None
            if mc is not None:
                # x = obj.m(…): the object is rebound first, then x is the returned value
                return self.rebind(s.value.func.value.id, Val(f"{mc[0]}.2", mc[1].ty), env,
                                   lambda e_: self.rebind(t.id, Val(f"{mc[0]}.1", mc[2]["ret"]), e_, go, pad, s), pad, s)
            v = self.expr(s.value, env)
            key = self.key_of(t)
            if key is not None:
                src = self.key_of(s.value)
                if src is not None and v.ty.kind == "list":
                    self.aliased.update((key, src))        # two names for one mutable list
                return self.rebind(key, v, env, go, pad, s)
            if isinstance(t, ast.Tuple) and all(isinstance(x, ast.Name) for x in t.elts) and v.ty.kind == "tuple" \
                    and len(v.ty.item) == len(t.elts):
                pre = self.pre(pad)
                tmp = self.fresh("t")
                env2 = dict(env)
                out = f"{pad}let {tmp} := {v.code};\n"
                n = len(t.elts)
                for i, x in enumerate(t.elts):
                    proj = tmp + "".join([".2"] * i) + (".1" if i < n - 1 else "")
                    env2[x.id] = Val(mangle(x.id), v.ty.item[i])
                    out += f"{pad}let {mangle(x.id)} := {proj};\n"
                return pre + out + self.blk(rest, env2, k, ind, ctx)
            if isinstance(t, ast.Attribute) and isinstance(t.value, ast.Name) and t.value.id in env \
                    and env[t.value.id].ty.kind == "rec" \
                    and t.attr in self.spec.get("rec_setters", {}).get(env[t.value.id].ty.item, {}):
                # obj.attr = v on a local opaque object: the object with that attribute replaced (opaque setter)
                obj = env[t.value.id]
                at = self.spec["rec_setters"][obj.ty.item][t.attr]
                ent = (obj.ty.item, t.attr, at)
                if ent not in self.used_setters:
                    self.used_setters.append(ent)
                return self.rebind(t.value.id, Val(f"({obj.ty.item}_set_{t.attr} {obj.code} {self.coerce_sm(v, at, s)})", obj.ty),
                                   env, go, pad, s)
            if isinstance(t, ast.Tuple) and all(isinstance(x, ast.Name) for x in t.elts) and v.ty.kind == "list" \
                    and v.ty.item is not None and len(t.elts) in (3, 4):
                # a, b, c = <list>: ValueError unless the lengths agree
                tmp = self.fresh("u")
                self.pending.append((tmp, f"(PySM.unpack{len(t.elts)} {v.code})"))
                pre = self.pre(pad)
                env2 = dict(env)
                out = ""
                n = len(t.elts)
                for i, x in enumerate(t.elts):
                    proj = tmp + "".join([".2"] * i) + (".1" if i < n - 1 else "")
                    env2[x.id] = Val(mangle(x.id), v.ty.item)
                    out += f"{pad}let {mangle(x.id)} := {proj};\n"
                return pre + out + self.blk(rest, env2, k, ind, ctx)
            if isinstance(t, ast.Subscript) and self.key_of(t.value) in env and env[self.key_of(t.value)].ty.kind == "ndarr":
                key = self.key_of(t.value)
                self.check_inplace(key, env, s)
                cur = env[key]
                if not isinstance(t.slice, ast.Tuple):
                    self.bad(s, "assignment into an n-d array needs one integer index per axis")
                ics = []
                for x in t.slice.elts:
                    iv = self.expr(x, env)
                    if iv.ty.kind not in ("int", "nat"):
                        self.bad(s, f"n-d index of type {iv.ty}")
                    ics.append(self.to_int(iv, s))
                newv = self.coerce_sm(v, cur.ty.item, s)
                tmp = self.fresh("a")
                self.pending.append((tmp, f"(PySM.NdArr.setAt {cur.code} [{', '.join(ics)}] {newv})"))
                return self.rebind(key, Val(tmp, cur.ty), env, go, pad, s)
            if isinstance(t, ast.Subscript) and self.key_of(t.value) in env and env[self.key_of(t.value)].ty.kind == "dict" \
                    and not isinstance(t.slice, ast.Slice):
                # d[k] = v: the value of an existing key is replaced where it stands, a new key goes to the end
                key = self.key_of(t.value)
                cur = env[key]
                kx = self.expr(t.slice, env)
                if kx.ty.kind != "str":
                    self.bad(s, f"dict key of type {kx.ty}")
                return self.rebind(key, Val(f"(PySM.dictSet {cur.code} {self.str_code(kx)} {self.coerce_sm(v, cur.ty.item, s)})",
                                            cur.ty), env, go, pad, s)
            if isinstance(t, ast.Subscript):
                key = self.key_of(t.value)
                self.check_inplace(key, env, s)
                cur = env[key]
                if cur.ty.kind != "list" or isinstance(t.slice, ast.Slice):
                    self.bad(s, f"subscript assignment on {cur.ty}")
                i = self.expr(t.slice, env)
                if i.ty.kind not in ("nat", "int"):
                    self.bad(s, f"subscript assignment with an index of type {i.ty}")
                newv = self.coerce_sm(v, cur.ty.item, s)
                tmp = self.fresh("a")
                self.pending.append((tmp, f"(PySM.{'setN' if i.ty.kind == 'nat' else 'setI'} {cur.code} {i.code} {newv})"))
                return self.rebind(key, Val(tmp, cur.ty), env, go, pad, s)
            self.bad(s, "assignment target")
        if isinstance(s, ast.AugAssign) and isinstance(s.target, ast.Subscript) and isinstance(s.op, ast.Add) \
                and isinstance(s.target.slice, ast.Tuple) and len(s.target.slice.elts) == 2:
            key = self.key_of(s.target.value)
            self.check_inplace(key, env, s)
            cur = env[key]
            if cur.ty != LIST(LIST(NAT)):
                self.bad(s, f"a[(i, j)] += v on {cur.ty}")
            i, j = self.expr(s.target.slice.elts[0], env), self.expr(s.target.slice.elts[1], env)
            v = self.expr(s.value, env)
            tmp = self.fresh("a")
            self.pending.append((tmp, f"(PySM.bump2 {cur.code} {self.to_int(i, s)} {self.to_int(j, s)} "
                                      f"{self.coerce_sm(v, NAT, s)})"))
            return self.rebind(key, Val(tmp, cur.ty), env, go, pad, s)
        if isinstance(s, ast.AugAssign):
            key = self.key_of(s.target)
            if key is None:
                self.bad(s, "augmented assignment target")
            cur = self.expr(s.target, env)
            if cur.ty.kind == "list":
                self.check_inplace(key, env, s)
            v = self.lifted(s.op, cur, self.expr(s.value, env), s)
            return self.rebind(key, v, env, go, pad, s)
        if isinstance(s, ast.Expr) and isinstance(s.value, ast.Yield):
            if s.value.value is None:
                self.bad(s, "bare yield")
            v = self.expr(s.value.value, env)
            self.mark_escapes(s.value.value, env)
            if self.yield_ty is None:
                self.yield_ty = v.ty.with_elem(False)
            item = self.coerce_sm(v, self.yield_ty, s)
            cur_out = env["out'"].code
            return self.rebind("out'", Val(f"(PySM.append {cur_out} {item})", LIST(self.yield_ty)), env, go, pad, s)
        if isinstance(s, ast.Expr) and isinstance(s.value, ast.Call):
            c = s.value
            fn = dotted(c.func)
            if fn == self.node.name and "." not in self.spec["func"] and self.spec.get("recursive"):
                # the function calls itself (a procedure on its `inout` parameters): the same definition with the fuel that is left
                ps = [(a, t) for a, t in self.spec["params"].items() if not isinstance(t, dict) and t.kind not in ("none", "unused", "file")]
                if c.keywords or len(c.args) != len(self.argnames):
                    self.bad(s, "recursive call with other arguments than the parameters")
                codes = []
                for a, node_a in zip(self.argnames, c.args):
                    t = self.spec["params"][a]
                    if isinstance(t, dict) or t.kind in ("none", "unused", "file"):
                        continue
                    if a in self.spec.get("inout", []):
                        if self.key_of(node_a) != a:
                            self.bad(s, f"recursive call must pass the in-place parameter {a} itself")
                        self.check_inplace(a, env, s)
                        codes.append(env[a].code)
                    else:
                        codes.append(self.coerce_sm(self.expr(node_a, env), t, s))
                pre0 = self.pre(pad)
                r = self.fresh("r")
                names = list(self.extras)
                tys = {k_: env[k_].ty for k_ in names}
                lets, env2 = self.unpack(names, tys, r, env, pad)
                self.used_rec = True
                call = f"({self.spec['lean']} {{OPAQUE}} fuel " + " ".join(codes) + ")"
                return pre0 + f"{pad}Except.bind {call} fun {r} =>\n{lets}" + self.blk(rest, env2, k, ind, ctx)
            if fn == "print":
                return go(env)       # output only: a no-op (its arguments are not evaluated)
            if isinstance(c.func, ast.Attribute) and isinstance(c.func.value, ast.Name) and c.func.value.id in env \
                    and env[c.func.value.id].ty.kind == "dictwriter" and c.func.attr in ("writeheader", "writerow") and not c.keywords:
                w = env[c.func.value.id]
                self.used_streams.add("file'")
                hdr_inj = self.spec.get("cell_of", {}).get("str")
                if hdr_inj is None:
                    self.bad(s, "csv writer without a cell injection for str (TARGETS.cell_of)")
                if (hdr_inj, STR) not in self.used_cells:
                    self.used_cells.append((hdr_inj, STR))
                if c.func.attr == "writeheader" and not c.args:
                    # the header record: the field names themselves
                    return self.rebind("file'", Val(f"(PySM.append {env[chr(102) + 'ile' + chr(39)].code} (List.map {hdr_inj} {w.code}))",
                                                   self.STREAMS["file'"]), env, go, pad, s)
                if c.func.attr == "writerow" and len(c.args) == 1:
                    d = self.expr(c.args[0], env)
                    if d.ty.kind != "celldict":
                        self.bad(s, f"writerow of {d.ty}")
                    r = self.fresh("r")
                    self.pending.append((r, f"(PySM.dictRow {w.code} {d.code} ({hdr_inj} \"\"))"))
                    return self.rebind("file'", Val(f"(PySM.append {env[chr(102) + 'ile' + chr(39)].code} {r})", self.STREAMS["file'"]),
                                       env, go, pad, s)
                self.bad(s, f"csv writer call {c.func.attr}")
            if fn == "warnings.warn":
                return go(env)       # a warning under the default filters: a no-op (its arguments are not evaluated)
            mc = self.mut_call(c, env, s)
            if mc is not None:
                return self.rebind(c.func.value.id, Val(f"{mc[0]}.2", mc[1].ty), env, go, pad, s)
            if fn in ("numpy.random.seed", "np.random.seed") and len(c.args) == 1 and not c.keywords:
                sv = self.expr(c.args[0], env)
                if sv.ty.kind not in ("int", "nat"):
                    self.bad(s, f"numpy.random.seed of {sv.ty}")
                pre0 = self.pre(pad)
                self.uses_seed = True
                env2 = dict(env)
                out = ""
                for st_, fnm in (("rng'", "seed_rng"), ("pois'", "seed_pois")):
                    if st_ in env:
                        nm = self.fresh("g")
                        out += f"{pad}let {nm} := ({fnm} {self.to_int(sv, s)});\n"
                        env2[st_] = Val(nm, self.STREAMS[st_])
                return pre0 + out + self.blk(rest, env2, k, ind, ctx)
            if fn in ("numpy.add.at", "np.add.at") and len(c.args) == 3 and not c.keywords:
                key = self.key_of(c.args[0])
                self.check_inplace(key, env, s)
                cur, idx, val = env[key], self.expr(c.args[1], env), self.expr(c.args[2], env)
                if cur.ty != LIST(NAT) or idx.ty not in (LIST(NAT), LIST(INT)):
                    self.bad(s, f"numpy.add.at on {cur.ty} with indices {idx.ty}")
                tmp = self.fresh("a")
                op_ = "addAt" if idx.ty == LIST(NAT) else "addAtI"
                self.pending.append((tmp, f"(PySM.{op_} {cur.code} {idx.code} {self.coerce_sm(val, NAT, s)})"))
                return self.rebind(key, Val(tmp, cur.ty), env, go, pad, s)
            if isinstance(c.func, ast.Attribute) and c.func.attr == "append" and len(c.args) == 1 and not c.keywords \
                    and isinstance(c.func.value, ast.Subscript) and self.key_of(c.func.value.value) in env \
                    and env[self.key_of(c.func.value.value)].ty.kind == "dict":
                # d[k].append(v): KeyError without the key, AttributeError when the entry is not the list kind
                key = self.key_of(c.func.value.value)
                cur = env[key]
                kx = self.expr(c.func.value.slice, env)
                st_ = cur.ty.item
                if kx.ty.kind != "str" or st_.kind != "sum" or st_.item[1].kind != "list":
                    self.bad(s, f"append to an entry of {cur.ty}")
                v = self.expr(c.args[0], env)
                tmp = self.fresh("d")
                self.pending.append((tmp, f"(PySM.dictAppend {cur.code} {self.str_code(kx)} {self.coerce_sm(v, st_.item[1].item, s)})"))
                return self.rebind(key, Val(tmp, cur.ty), env, go, pad, s)
            if isinstance(c.func, ast.Attribute) and c.func.attr in MUTATING_METHODS and len(c.args) == 1 and not c.keywords:
                key = self.key_of(c.func.value)
                self.check_inplace(key, env, s)
                cur = env[key]
                if cur.ty.kind != "list":
                    self.bad(s, f".{c.func.attr} on {cur.ty}")
                v = self.expr(c.args[0], env)
                self.mark_escapes(c.args[0], env) if c.func.attr == "append" and v.ty.kind == "list" else None
                item = self.coerce_sm(v, cur.ty.item, s)
                return self.rebind(key, Val(f"(PySM.{c.func.attr} {cur.code} {item})", cur.ty), env, go, pad, s)
            self.bad(s, f"expression statement: call of {fn or ast.unparse(c.func)[:40]} is not an accepted in-place operation")
        if isinstance(s, ast.With):
            # `with open(<parameter>, …) as f:` — the body runs once; closing the file has no effect on the result
            it = s.items[0] if len(s.items) == 1 else None
            if it is None or not (isinstance(it.context_expr, ast.Call) and dotted(it.context_expr.func) == "open"
                                  and it.context_expr.args and isinstance(it.context_expr.args[0], ast.Name)
                                  and it.context_expr.args[0].id in self.file_params
                                  and isinstance(it.optional_vars, ast.Name)):
                self.bad(s, "with statement other than `with open(<file parameter>, …) as f`")
            env2 = dict(env)
            env2[it.optional_vars.id] = Val(None, Ty("file"), static="<file>")
            oc = it.context_expr
            if len(oc.args) == 2 and "file'" in env:
                # open(<file parameter>, mode, newline=''): the file as the list of its records — 'a' keeps them, 'w' starts empty
                if [k_.arg for k_ in oc.keywords] != ["newline"] or not (isinstance(oc.keywords[0].value, ast.Constant)
                                                                       and oc.keywords[0].value.value == ""):
                    self.bad(s, "a file opened for csv writing without newline=''")
                mode = self.expr(oc.args[1], env)
                if mode.ty.kind != "str":
                    self.bad(s, f"open mode of type {mode.ty}")
                pre = self.pre(pad)
                fv = self.fresh("f")
                self.used_streams.add("file'")
                env2["file'"] = Val(fv, self.STREAMS["file'"])
                return (pre + f"{pad}Except.bind (PySM.openForWrite {self.str_code(mode)} {env[chr(102) + 'ile' + chr(39)].code}) fun {fv} =>\n"
                        + self.blk(list(s.body) + rest, env2, k, ind, ctx))
            if len(oc.args) != 1 and not (len(oc.args) == 2 and isinstance(oc.args[1], ast.Constant) and oc.args[1].value in ("r", "rt")):
                self.bad(s, "open(…) with a mode other than reading (no csv writer in this function)")
            return self.blk(list(s.body) + rest, env2, k, ind, ctx)
        if isinstance(s, ast.Try):
            if len(s.body) == 1 and len(s.handlers) == 1 and s.handlers[0].type is not None and not s.orelse and not s.finalbody:
                return self.s_try_catch(s, rest, env, k, ind, ctx)
            if len(s.body) == 1 and len(s.handlers) == 1 and s.handlers[0].type is None and not s.orelse \
                    and len(s.handlers[0].body) == 1 and isinstance(s.handlers[0].body[0], ast.Pass):
                # try: x = E / except: pass / finally: F — every exception of E is caught and x keeps its value, the handler
                # cannot raise, so F simply runs next
                return self.s_try_catch(s, list(s.finalbody) + rest, env, k, ind, ctx)
            return self.s_dead_try(s, rest, env, k, ind, ctx)
        if isinstance(s, ast.If):
            return self.s_if(s, rest, env, k, ind, ctx)
        if isinstance(s, (ast.For, ast.While)):
            return self.s_loop(s, rest, env, k, ind, ctx)
        self.bad(s, f"statement {type(s).__name__} is not translated")

    def check_ignored(self, name, node):
        """a local declared in TARGETS.ignore_locals is built by `%` formatting only and read only by warnings.warn / print"""
        v = node.value
        if not (isinstance(v, ast.BinOp) and isinstance(v.op, ast.Mod) and isinstance(v.left, ast.Constant)
                and isinstance(v.left.value, str)) and not (isinstance(v, ast.Constant) and isinstance(v.value, str)):
            self.bad(node, f"ignored local {name} is not a string literal / `literal % values`")
        allowed = set()
        for n in ast.walk(self.node):
            if isinstance(n, ast.Call) and dotted(n.func) in ("warnings.warn", "print"):
                allowed |= {id(x) for x in ast.walk(n)}
        for n in ast.walk(self.node):
            if isinstance(n, ast.Name) and n.id == name and isinstance(n.ctx, ast.Load) and id(n) not in allowed:
                self.bad(n, f"ignored local {name} is read outside warnings.warn / print")

    def s_try_catch(self, s, rest, env, k, ind, ctx):
        """`try: x = f(…) except (E1, E2): H` around ONE call of an opaque raising function: PySM.tryCatch"""
        pad = "  " * ind
        h = s.handlers[0]
        if h.name is not None:
            self.bad(s, "`except … as e`")
        classes = [] if h.type is None else [dotted(x) for x in (h.type.elts if isinstance(h.type, ast.Tuple) else [h.type])]
        known = ("ValueError", "IndexError", "AssertionError", "StopIteration", "TypeError", "AttributeError", "KeyError",
                 "OSError", "IOError", "EnvironmentError", "RuntimeError")
        if any(c not in known for c in classes):
            self.bad(s, f"except clause names {classes}: only {known} are distinguished")
        st = s.body[0]
        if not (isinstance(st, ast.Assign) and len(st.targets) == 1 and isinstance(st.targets[0], ast.Name)):
            self.bad(s, "try body other than `x = <expression with one operation that can raise>`")
        pre0 = self.pre(pad)
        n0 = len(self.pending)
        v = self.expr(st.value, env)
        if len(self.pending) != n0 + 1:
            self.bad(s, "the expression inside `try` must contain exactly one operation that can raise (an opaque raising "
                        "call / method / run-time column lookup)")
        tv, act = self.pending.pop()
        ev = self.fresh("e")
        catches = "(fun " + ev + " => " + " || ".join(f"decide ({ev} = {exc_of(c)})" for c in dict.fromkeys(classes)) + ")" \
            if classes else "PySM.catchesAll"
        x = st.targets[0].id
        if h.type is None:
            if x not in env or env[x].code is None:
                self.bad(s, f"`except: pass` leaves {x} without a value")
            hcode = self.coerce_sm(env[x], v.ty, s)
            env2 = dict(env)
            env2[x] = Val(mangle(x), v.ty)
            return (pre0 + f"{pad}Except.bind (PySM.tryCatch {act} {catches} (fun {tv} => Except.ok {v.code}) "
                    f"(fun _ => Except.ok {hcode})) fun {mangle(x)} =>\n" + self.blk(rest, env2, k, ind, ctx))
        decl = self.spec.get("locals", {}).get(x)
        xv = Val(v.code, v.ty) if decl is None or v.ty == decl else Val(self.coerce_sm(v, decl, s), decl)
        if len(h.body) == 1 and isinstance(h.body[0], ast.Assign) and len(h.body[0].targets) == 1 \
                and isinstance(h.body[0].targets[0], ast.Name) and h.body[0].targets[0].id == x:
            # the handler only gives x another value: both paths meet again (no copy of what follows)
            n1 = len(self.pending)
            hv = self.expr(h.body[0].value, env)
            if len(self.pending) == n1:
                ty = decl if decl is not None else xv.ty
                hcode = self.coerce_sm(hv, ty, s)
                okc = xv.code if xv.ty == ty else self.coerce_sm(xv, ty, s)
                env2 = dict(env)
                env2[x] = Val(mangle(x), ty)
                return (pre0 + f"{pad}Except.bind (PySM.tryCatch {act} {catches} (fun {tv} => Except.ok {okc}) "
                        f"(fun _ => Except.ok {hcode})) fun {mangle(x)} =>\n" + self.blk(rest, env2, k, ind, ctx))
            del self.pending[n1:]
        env_ok = dict(env)
        env_ok[x] = Val(mangle(x), xv.ty)
        ok_code = f"{pad}    let {mangle(x)} := {xv.code};\n" + self.blk(rest, env_ok, k, ind + 2, ctx)
        err_code = self.blk(list(h.body) + rest, env, k, ind + 2, ctx)
        return (pre0 + f"{pad}PySM.tryCatch {act} {catches}\n{pad}  (fun {tv} =>\n{ok_code})\n"
                f"{pad}  (fun _ =>\n{err_code})")

    def s_dead_try(self, s, rest, env, k, ind, ctx):
        """`try: <locals := pure helpers(…)>; <passthrough>.setdefault(…)  except: pass` whose locals are read nowhere
        else: it can only change the declared pass-through options → no effect on the definition (named in the header)"""
        if s.finalbody or s.orelse or not s.handlers or \
                not all(len(h.body) == 1 and isinstance(h.body[0], ast.Pass) for h in s.handlers):
            self.bad(s, "try statement (only `try … except: pass` around option defaults is accepted)")
        assigned = set(self.assigned_sm(list(s.body)))
        inside = {id(n) for n in ast.walk(s)}
        reads = {n.id for n in ast.walk(self.node) if isinstance(n, ast.Name) and isinstance(n.ctx, ast.Load)
                 and id(n) not in inside}
        if assigned & reads:
            self.bad(s, f"try statement assigns {sorted(assigned & reads)}, which are read later")
        pt = self.spec.get("kwargs_passthrough", [])
        for st in s.body:
            ok = False
            if isinstance(st, ast.Assign) and isinstance(st.value, ast.Call) and dotted(st.value.func) in self.pure_helpers:
                ok = True
            if isinstance(st, ast.Expr) and isinstance(st.value, ast.Call) and isinstance(st.value.func, ast.Attribute) \
                    and st.value.func.attr == "setdefault" and isinstance(st.value.func.value, ast.Name) \
                    and st.value.func.value.id in pt:
                ok = True
            if not ok:
                self.bad(st, "statement inside try … except: pass other than a pure helper call / <options>.setdefault")
        self.note(f"line {s.lineno}-{s.end_lineno}: `try … except: pass` only sets defaults of the pass-through options "
                  f"`{', '.join(pt)}`: not part of the definition")
        return self.blk(rest, env, k, ind, ctx)

    def note(self, text):
        if text not in self.notes:
            self.notes.append(text)

    def ret_check(self, rt, node):
        if self.ret_ty is None:
            self.ret_ty = rt
        elif self.ret_ty != rt:
            self.bad(node, f"return types differ: {self.ret_ty} and {rt}")

    def opt_test(self, test, env):
        """`x is None` / `x is not None` on an Optional variable -> (key, sense) else None"""
        if isinstance(test, ast.Compare) and len(test.ops) == 1 and isinstance(test.ops[0], (ast.Is, ast.IsNot)) and \
                isinstance(test.comparators[0], ast.Constant) and test.comparators[0].value is None:
            key = self.key_of(test.left)
            if key in env and env[key].ty.kind == "opt":
                return key, isinstance(test.ops[0], ast.Is)
        return None

    def s_if(self, s, rest, env, k, ind, ctx):
        pad = "  " * ind
        ot = self.opt_test(s.test, env)
        if ot is not None:
            key, is_none = ot
            none_body, some_body = (s.body, s.orelse) if is_none else (s.orelse, s.body)
            env_n, env_s = dict(env), dict(env)
            env_n[key] = Val(None, NONE, static=None)
            env_s[key] = Val(self.lname(key), env[key].ty.item)
            a = self.blk(list(none_body) + rest, env_n, k, ind + 1, ctx)
            b = self.blk(list(some_body) + rest, env_s, k, ind + 1, ctx)
            return f"{pad}match {env[key].code} with\n{pad}| none =>\n{a}\n{pad}| some {self.lname(key)} =>\n{b}"
        save0 = (self.tmp, list(self.pending), dict(env))
        try:
            c = self.expr(s.test, env)
        except Untranslatable as ex:
            if "evaluation order" in ex.reason and isinstance(s.test, ast.BoolOp) and isinstance(s.test.op, ast.And):
                # `if A and B:` with an operation that can raise in B: the nested ifs (B evaluated only when A holds)
                self.tmp, self.pending = save0[0], save0[1]
                env.clear(), env.update(save0[2])
                vals = s.test.values
                inner_test = vals[1] if len(vals) == 2 else ast.BoolOp(op=ast.And(), values=vals[1:])
                ast.copy_location(inner_test, s.test)
                inner = ast.If(test=inner_test, body=s.body, orelse=s.orelse)
                outer = ast.If(test=vals[0], body=[inner], orelse=s.orelse)
                for n_ in (inner, outer):
                    ast.copy_location(n_, s)
                    n_.end_lineno = getattr(s, "end_lineno", s.lineno)
                return self.s_if(outer, rest, env, k, ind, ctx)
            raise
        pre = self.pre(pad)
        if c.is_static:
            live, dead = (s.body, s.orelse) if c.static else (s.orelse, s.body)
            self.note(f"line {s.lineno}: `{ast.unparse(s.test)}` is {bool(c.static)} under the specialisation" +
                      (f"; the other branch (line {dead[0].lineno}) is not part of the definition" if dead else ""))
            return pre + self.blk(list(live) + rest, env, k, ind, ctx)
        cc = self.to_bool(c, s)
        if self.exits(s.body) or self.exits(s.orelse):
            a = self.blk(list(s.body) + rest, dict(env), k, ind + 1, ctx)
            b = self.blk(list(s.orelse) + rest, dict(env), k, ind + 1, ctx)
            return pre + f"{pad}if {cc} then\n{a}\n{pad}else\n{b}"
        na, nb = self.assigned_sm(list(s.body)), self.assigned_sm(list(s.orelse))
        names = [nm for nm in self.assigned_sm(list(s.body) + list(s.orelse), None) if nm in env or (nm in na and nm in nb)]
        order = {kk: i for i, kk in enumerate(env)}
        names.sort(key=lambda nm: order.get(nm, len(order)))
        ends = []

        def dry(body):
            def kk(env_end):
                ends.append(dict(env_end))
                return ""
            self.blk(list(body), dict(env), kk, ind + 1, ctx)
        save = (self.tmp, list(self.notes), list(self.pending), list(self.fuels), set(self.aliased))
        dry(s.body), dry(s.orelse)
        self.tmp, self.notes, self.pending, self.fuels, self.aliased = save
        if not ends:        # neither branch reaches its end (both raise): what follows is dead
            a = self.blk(list(s.body), dict(env), k, ind + 1, ctx)
            b = self.blk(list(s.orelse), dict(env), k, ind + 1, ctx)
            return pre + f"{pad}if {cc} then\n{a}\n{pad}else\n{b}"
        tys = {}
        for nm in names:
            cands = [e_[nm].ty for e_ in ends if nm in e_]
            if len(cands) < len(ends):
                self.bad(s, f"{nm} is assigned in one branch only and undefined before")
            try:
                tys[nm] = self.join_ty(cands, nm, s)
            except Untranslatable:
                if nm in env:
                    raise
                # first assigned inside the branches with different types (e.g. `value`: an int on one path, a str on the
                # other): local to the branches; a later read is an unknown name and stops the translation
                tys[nm] = None
        names = [nm for nm in names if tys[nm] is not None]
        if not names:
            # an `if` whose branches only raise / assert: keep it for its effect
            a = self.blk(list(s.body), dict(env), lambda e_: "  " * (ind + 1) + "(Except.ok ())", ind + 1, ctx)
            b = self.blk(list(s.orelse), dict(env), lambda e_: "  " * (ind + 1) + "(Except.ok ())", ind + 1, ctx)
            return pre + f"{pad}Except.bind (if {cc} then\n{a}\n{pad}else\n{b}) fun _ =>\n" + self.blk(rest, env, k, ind, ctx)

        def emit(body):
            def kk(env_end):
                return "  " * (ind + 1) + f"(Except.ok {self.pack(names, tys, env_end, s)})"
            return self.blk(list(body), dict(env), kk, ind + 1, ctx)
        a, b = emit(s.body), emit(s.orelse)
        tmp = self.fresh("br")
        lets, env2 = self.unpack(names, tys, tmp, env, pad)
        # escape marks survive a merge (conservative)
        for nm in names:
            if any(getattr(e_[nm], "escaped", False) for e_ in ends):
                env2[nm].escaped = True
        return pre + f"{pad}Except.bind (if {cc} then\n{a}\n{pad}else\n{b}) fun {tmp} =>\n{lets}" + \
            self.blk(rest, env2, k, ind, ctx)

    def join_ty(self, cands, nm, node):
        t0 = cands[0]
        for t in cands[1:]:
            if t == t0:
                continue
            if t0.kind == "none" and t.kind != "none":
                t0 = t if t.kind == "opt" else OPT(t)
            elif t.kind == "none":
                t0 = t0 if t0.kind == "opt" else OPT(t0)
            elif t0.kind == "opt" and t0.item == t:
                pass
            elif t.kind == "opt" and t.item == t0:
                t0 = t
            elif {t0.kind, t.kind} == {"int", "nat"}:
                t0 = INT
            elif {t0.kind, t.kind} == {"int", "rec"} and (t0 if t0.kind == "rec" else t).item in self.spec.get("lit_as", {}):
                t0 = t0 if t0.kind == "rec" else t
            elif t0.kind == "list" and t.kind == "list" and (t0.item is None or t.item is None):
                t0 = t0 if t.item is None else t
            else:
                self.bad(node, f"{nm} has type {t0} on one path and {t} on another")
        return t0.with_elem(False)

    def s_loop(self, s, rest, env, k, ind, ctx):
        pad = "  " * ind
        if s.orelse:
            self.bad(s, "loop with an else clause")
        is_for = isinstance(s, ast.For)
        pre = ""
        if is_for and self.is_self_iter(s.iter) is not None:
            # `for … in self` / `enumerate(self)`: one pass over the object (an opaque parameter `iter_self`): the list of
            # the items it yields and the state record after the pass. The body runs after the pass here; it may read only
            # the fields the pass keeps (TARGETS.iter_self.keeps) and assign none.
            ispec = self.spec.get("iter_self")
            if ispec is None or not self.is_method:
                self.bad(s, "iteration over self, but TARGETS.iter_self is not declared")
            body_assigned = [k_ for k_ in self.assigned_sm(list(s.body)) if (k_ or "").startswith("self.")]
            if body_assigned:
                self.bad(s, f"the body of a loop over self assigns {body_assigned}")
            for n_ in [n_ for st_ in s.body for n_ in ast.walk(st_)]:
                k_ = self.key_of(n_) if isinstance(n_, ast.Attribute) else None
                if k_ and k_.startswith("self.") and k_[5:] in self.self_fields and k_[5:] not in ispec["keeps"]:
                    self.bad(n_, f"the body of a loop over self reads {k_}, which the pass may change")
            fs = ["self." + f for f in self.self_fields]
            ftys = {"self." + f: t for f, (lf, t) in self.self_fields.items()}
            pk = self.fresh("p")
            pre = self.pre(pad) + f"{pad}Except.bind (iter_self {self.pack(fs, ftys, env, s)}) fun {pk} =>\n"
            self.uses_iter_self = True
            env = dict(env)
            nfs = len(fs)
            for i_, f in enumerate(fs):
                if f[5:] in ispec["keeps"]:
                    continue
                proj = f"{pk}.2" if nfs == 1 else f"{pk}.2" + "".join([".2"] * i_) + (".1" if i_ < nfs - 1 else "")
                pre += f"{pad}let {self.lname(f)} := {proj};\n"
                env[f] = Val(self.lname(f), ftys[f])
            self.pass_touched = True
            items = Val(f"{pk}.1", LIST(ispec["item"]))
            it = items if self.is_self_iter(s.iter) == "plain" else \
                Val(f"(PySM.enumerate {pk}.1)", LIST(TUPLE(NAT, ispec["item"])))
        elif is_for and self.is_obj_iter(s.iter) is not None:
            # `for … in obj` / `enumerate(obj)` for an opaque object parameter declared in TARGETS.iter_objs: one pass, the
            # opaque parameter `iter_<obj>`: (items, the object after the pass); the body may not mention the object
            mode, oname = self.is_obj_iter(s.iter)
            ospec = self.spec["iter_objs"][oname]
            if oname not in env or env[oname].ty.kind != "rec":
                self.bad(s, f"iteration over {oname}, which is not an opaque object here")
            if any(isinstance(n_, ast.Name) and n_.id == oname for st_ in s.body for n_ in ast.walk(st_)):
                self.bad(s, f"the body of a loop over {oname} mentions {oname}")
            pk = self.fresh("p")
            pre = self.pre(pad) + f"{pad}Except.bind (iter_{oname} {env[oname].code}) fun {pk} =>\n" \
                                  f"{pad}let {mangle(oname)} := {pk}.2;\n"
            if (oname, env[oname].ty.item, ospec["item"]) not in self.used_obj_iters:
                self.used_obj_iters.append((oname, env[oname].ty.item, ospec["item"]))
            env = dict(env)
            env[oname] = Val(mangle(oname), env[oname].ty)
            it = Val(f"{pk}.1", LIST(ospec["item"])) if mode == "plain" else \
                Val(f"(PySM.enumerate {pk}.1)", LIST(TUPLE(NAT, ospec["item"])))
        elif is_for:
            it = self.expr(s.iter, env)
            pre = self.pre(pad)
            if it.ty.kind != "list" or it.ty.item is None:
                self.bad(s, f"for loop over {it.ty}")
        touched = self.assigned_sm(list(s.body), env)
        tnames = [n.id for n in ast.walk(s.target) if isinstance(n, ast.Name)] if is_for else []
        names = [nm for nm in touched if nm in env and nm not in tnames]
        tys = {}
        for nm in names:
            t = env[nm].ty
            decl = self.spec.get("locals", {}).get(nm)
            if decl is not None:
                t = decl
            if t.kind == "none" or (t.kind == "list" and t.item is None):
                self.bad(s, f"loop-carried variable {nm} needs a declared type (TARGETS.locals)")
            tys[nm] = t.with_elem(False)
        sv = self.fresh("s")
        inner = Ctx("loop", names, tys, self.inplace_keys(list(s.body)))
        lets, env_in = self.unpack(names, tys, sv, env, "  " * (ind + 2))
        tlets = ""
        if is_for:
            if isinstance(s.target, ast.Name):
                xv = mangle(s.target.id)
                env_in[s.target.id] = Val(xv, it.ty.item)
            else:
                xv = self.fresh("x")
                tlets = self.destructure(s.target, Val(xv, it.ty.item), env_in, "  " * (ind + 2), s)

        def k_end(env_end):
            return "  " * (ind + 2) + f"(Except.ok (PySM.Ctl.next {self.pack(names, tys, env_end, s, inner.inplace)}))"
        # a variable that reaches the end of the body with another type (int where a count was, …) stops the translation
        body = self.blk(list(s.body), env_in, k_end, ind + 2, inner)
        init = self.pack(names, tys, env, s)
        sig = self.sigma(names, tys)
        if is_for:
            loop = (f"(PySM.forLoop (σ := {sig}) (fun {sv} {xv} =>\n{lets}{tlets}{body})\n"
                    f"{pad}    {it.code} {init})")
        else:
            n0 = len(self.pending)
            lets_c, env_c = self.unpack(names, tys, sv, env, "")
            c = self.expr(s.test, env_c)
            self.no_effects(n0, s, "a `while` condition")
            if c.is_static:
                self.bad(s, "`while` with a constant condition")
            fuel = "fuel" if not self.fuels else f"fuel_{len(self.fuels) + 1}"
            self.fuels.append(fuel)
            cond = f"(fun {sv} => " + lets_c.replace("\n", " ") + self.to_bool(c, s) + ")"
            loop = (f"(PySM.whileLoop (σ := {sig}) {cond}\n{pad}    (fun {sv} =>\n{lets}{body})\n"
                    f"{pad}    {fuel} {init})")
        out = self.fresh("s")
        lets_o, env2 = self.unpack(names, tys, out, env, pad)
        return pre + f"{pad}Except.bind {loop} fun {out} =>\n{lets_o}" + self.blk(rest, env2, k, ind, ctx)

    @staticmethod
    def is_self_iter(node):
        if isinstance(node, ast.Name) and node.id == "self":
            return "plain"
        if isinstance(node, ast.Call) and dotted(node.func) == "enumerate" and len(node.args) == 1 and not node.keywords \
                and isinstance(node.args[0], ast.Name) and node.args[0].id == "self":
            return "enumerate"
        return None

    def is_obj_iter(self, node):
        objs = self.spec.get("iter_objs", {})
        if isinstance(node, ast.Name) and node.id in objs:
            return "plain", node.id
        if isinstance(node, ast.Call) and dotted(node.func) == "enumerate" and len(node.args) == 1 and not node.keywords \
                and isinstance(node.args[0], ast.Name) and node.args[0].id in objs:
            return "enumerate", node.args[0].id
        return None

    def destructure(self, target, v, env, pad, node):
        """`a, (b, c)` pattern of a for target bound to the tuple value `v`: lets, env updated in place"""
        if isinstance(target, ast.Name):
            env[target.id] = Val(mangle(target.id), v.ty)
            return f"{pad}let {mangle(target.id)} := {v.code};\n"
        if isinstance(target, ast.Tuple) and v.ty.kind == "tuple" and len(target.elts) == len(v.ty.item):
            n = len(target.elts)
            out = ""
            for i, x in enumerate(target.elts):
                proj = v.code + "".join([".2"] * i) + (".1" if i < n - 1 else "")
                out += self.destructure(x, Val(proj, v.ty.item[i]), env, pad, node)
            return out
        self.bad(node, f"for target does not match the element type {v.ty}")

    # ---------------------------------------------------------------- whole function
    def translate(self):
        spec, node = self.spec, self.node
        params = spec["params"]
        argnames = [a.arg for a in node.args.args]
        if node.args.vararg or node.args.kwonlyargs:
            self.bad(node, "*args / keyword-only parameters")
        if node.args.kwarg and node.args.kwarg.arg not in spec.get("kwargs_passthrough", []):
            self.bad(node, "**kwargs that is not declared a pass-through")
        self.argnames = argnames
        self.used_rec = False
        if spec.get("recursive"):
            self.fuels.append("fuel")
        is_method = bool(argnames) and argnames[0] in ("self",) and "self_fields" in spec
        if is_method:
            argnames = argnames[1:]
        elif argnames and argnames[0] == "cls" and spec.get("classmethod"):
            argnames = argnames[1:]
        missing = [a for a in argnames if a not in params]
        if missing:
            self.bad(node, f"parameters {missing} have no specialisation in TARGETS")
        extra = [p for p in params if p not in argnames]
        if extra:
            self.bad(node, f"TARGETS names parameters {extra} the function does not have")
        env, lean_params = {}, []
        self.ret_is_inout = False
        touched = self.assigned_sm(list(node.body))
        self.declared_streams = [st_ for st_ in self.STREAMS if st_ in touched and st_ not in self.no_streams]
        uses_rng = "rng'" in self.declared_streams
        self.rng_declared = uses_rng
        for st_ in self.declared_streams:
            env[st_] = Val(st_, self.STREAMS[st_])
        if self.is_gen:
            if self.yield_ty is None:
                self.bad(node, "a generator needs the type of its items (TARGETS.yields)")
            env["out'"] = Val(f"([] : {lty(LIST(self.yield_ty))})", LIST(self.yield_ty))
        self.self_fields = spec.get("self_fields", {})
        self.is_method = is_method
        if is_method:
            # the state record `self'`: the tuple of the declared fields, in the order of TARGETS.self_fields
            fs = list(self.self_fields.items())
            for i, (f, (lf, t)) in enumerate(fs):
                proj = "self'" if len(fs) == 1 else "self'" + "".join([".2"] * i) + (".1" if i < len(fs) - 1 else "")
                env["self." + f] = Val(proj, t)
        for a in argnames:
            t = params[a]
            if isinstance(t, dict):
                v = t["static"]
                env[a] = Val(None, NONE if v is None else (BOOL if isinstance(v, bool) else STR), static=v)
                if isinstance(v, bool):
                    env[a] = Val("true" if v else "false", BOOL, static=v)
                continue
            if t.kind == "none":
                env[a] = Val(None, NONE, static=None)
                continue
            if t.kind in ("unused", "file"):        # `file`: a path, read only through `open` / static calls
                env[a] = Val(f"<{a}>", t)
                continue
            env[a] = Val(mangle(a), t)
            self.param_vals[a] = env[a]
            lean_params.append((mangle(a), t))
        bad_inout = [p for p in spec.get("inout", []) if p not in self.param_vals]
        if bad_inout:
            self.bad(node, f"inout parameters {bad_inout} are not typed parameters")
        self.extras = list(spec.get("inout", []))
        self.notes.extend(getattr(node, "_opaque_notes", []))

        def k_end(env_end):
            if self.is_gen:
                return "  " + self.final(env_end["out'"].code, env_end, node)
            if self.self_assigned or spec.get("procedure"):
                self.ret_check(Ty("unit"), node)
                return "  " + self.final(None, env_end, node)
            self.bad(node, "control reaches the end of the function without return")
        # extras that are known only after the body (self, rng) are appended by `final` through self.extras: fix the list first
        self.self_assigned = is_method and (any(
            (k_ or "").startswith("self.") for k_ in self.assigned_sm(list(node.body))) or any(
            isinstance(n_, ast.For) and self.is_self_iter(n_.iter) is not None for n_ in ast.walk(node)))
        if self.self_assigned:
            self.extras.append("self''")
        for st_ in self.declared_streams:
            self.extras.append(st_)
        for on_ in spec.get("iter_objs", {}):
            # an object parameter the function iterates over is changed by the pass: its final state is part of the result
            if any(isinstance(n_, ast.For) and (self.is_obj_iter(n_.iter) or (None, None))[1] == on_ for n_ in ast.walk(node)):
                self.extras.append(on_)
        body_stmts = list(node.body)
        live_params = []
        if spec.get("body_from") == "for":
            pos = next((i_ for i_, s_ in enumerate(body_stmts) if isinstance(s_, ast.For)), None)
            if pos is None:
                self.bad(node, "TARGETS.body_from = 'for', but the function has no top-level for loop")
            kept = []
            for s_ in body_stmts[:pos]:
                if isinstance(s_, ast.If) and ast.unparse(s_.test) in spec.get("keep_before", []):
                    kept.append(s_)          # translated, in place, before the loop (e.g. the seeding of the generator)
                    continue
                if not (isinstance(s_, ast.Expr) and isinstance(s_.value, ast.Constant)):
                    if any(isinstance(n_, ast.Call) and (dotted(n_.func) or "").startswith(("numpy.random.", "np.random."))
                           for n_ in ast.walk(s_)):
                        self.bad(s_, "a statement left out before the loop uses numpy.random")
                    self.note(f"line {s_.lineno}: before the loop, not part of the definition: "
                              f"{ast.unparse(s_).splitlines()[0][:70]}")
            assigned_before = set(self.assigned_sm(body_stmts[:pos]))
            for nm, t in spec.get("live_in", {}).items():
                if nm not in assigned_before:
                    self.bad(node, f"live-in variable {nm} is not assigned before the loop")
                env[nm] = Val(mangle(nm), t)
                live_params.append((mangle(nm), t))
            body_stmts = kept + body_stmts[pos:]
        code = self.blk(body_stmts, env, k_end, 1, Ctx("fn"))
        lean_params = lean_params + live_params
        if self.pending:
            self.bad(node, "internal: unflushed effects")
        comps = []
        if self.is_gen:
            comps.append(lty(LIST(self.yield_ty)))
        elif self.ret_ty is not None and self.ret_ty.kind not in ("unit", "self") and not self.ret_is_inout:
            comps.append(lty(self.ret_ty))
        for kx in self.extras:
            if kx == "self''":
                comps.append(" × ".join(P._paren(lty(t)) for f, (lf, t) in self.self_fields.items()))
            else:
                comps.append(lty(env[kx].ty))
        rt = " × ".join(P._paren(c) for c in comps) if comps else "Unit"
        recs = []
        for o in [o_ for k_, o_ in spec.get("opaque", {}).items() if k_ in self.used_opaque]:
            for t in list(o["args"]) + [o["ret"]] + list(o.get("kwparams", {}).values()):
                for r in _recs(t):
                    if r not in recs:
                        recs.append(r)
        for t in [t_ for _, t_ in lean_params] + [t_ for _, (_, t_) in self.self_fields.items() if is_method]:
            for r in _recs(t):
                if r not in recs:
                    recs.append(r)
        for r in [r_ for (_, _, it_) in self.used_obj_iters for r_ in _recs(it_)] + \
                [r_ for (r0, a_, t_) in self.used_attrs for r_ in [r0] + _recs(t_)] + \
                (_recs(spec["iter_self"]["item"]) if self.uses_iter_self else []) + (_recs(spec["field_of"]) if self.uses_field_of else []) + (_recs(self.yield_ty) if self.yield_ty else []) + (_recs(spec["csv_rows"]) if self.uses_rows else []):
            if r not in recs:
                recs.append(r)
        extra_tys = [t_ for pat in self.used_opaque_exprs for t_ in list(spec["opaque_exprs"][pat]["args"]) + [spec["opaque_exprs"][pat]["ret"]]] + \
            ([spec["dyn_column"]["ret"]] if self.uses_dyn_column else []) + [REC(r_) for (_, r_) in self.used_str_injections] + \
            [t_ for (_, t_) in self.used_cells] + (list(self.STREAMS["file'"].item.item and [self.STREAMS["file'"]]) if "file'" in self.declared_streams else []) + \
            [spec["rec_methods"][r_][m_]["ret"] for (r_, m_) in self.used_rec_methods] + [REC(r_) for (r_, m_) in self.used_rec_methods]
        for t in extra_tys:
            for r in _recs(t):
                if r not in recs:
                    recs.append(r)
        seen, opq_params = set(), []
        for k_, o in spec.get("opaque", {}).items():
            if k_ in self.used_opaque and o["lean"] not in seen:
                seen.add(o["lean"])
                opq_params.append(f"({o['lean']} : {opaque_sig(o)})")
        if self.uses_seed:
            opq_params += [f"({fnm} : Int → {lty(self.STREAMS[st_])})"
                           for st_, fnm in (("rng'", "seed_rng"), ("pois'", "seed_pois")) if st_ in self.declared_streams]
        hidden = ([f"(empty' : {lty(spec['empty_as'])})"] if self.uses_empty else []) + [f"({f} : Nat)" for f in self.fuels] + \
                 [f"({st_} : {lty(self.STREAMS[st_])})" for st_ in self.declared_streams] + \
                 ([f"(rows' : {lty(spec['csv_rows'])})"] if self.uses_rows else [])
        if is_method:
            hidden.append("(self' : " + " × ".join(P._paren(lty(t)) for f, (lf, t) in self.self_fields.items()) + ")")
        for (r_, m_) in self.used_rec_methods:
            o = spec["rec_methods"][r_][m_]
            ins = [r_] + [P._paren(lty(t)) for t in o["args"]]
            if o.get("mutates"):
                opq_params.append(f"({r_}_{m_} : " + " → ".join(ins + [f"PySM.M ({P._paren(lty(o['ret']))} × {r_})"]) + ")")
                continue
            opq_params.append(f"({r_}_{m_} : " + " → ".join(ins + [f"PySM.M {P._paren(lty(o['ret']))}" if o.get("raises") else lty(o["ret"])]) + ")")
        for (r_, a_, t_) in self.used_setters:
            opq_params.append(f"({r_}_set_{a_} : {r_} → {lty(t_)} → {r_})")
        for (inj_, rt_) in self.used_injections:
            opq_params.append(f"({inj_} : Int → {rt_})")
        for (pn_, r_) in self.used_preds:
            opq_params.append(f"({pn_} : {r_} → Bool)")
        for pat in spec.get("opaque_exprs", {}):
            if pat in self.used_opaque_exprs:
                opq_params.append(f"({spec['opaque_exprs'][pat]['lean']} : {opaque_sig(spec['opaque_exprs'][pat])})")
        if self.uses_dyn_column:
            opq_params.append(f"({spec['dyn_column']['lean']} : {lty(self.self_fields['catalog'][1])} → String → "
                              f"PySM.M {P._paren(lty(spec['dyn_column']['ret']))})")
        for (inj_, rt_) in self.used_str_injections:
            opq_params.append(f"({inj_} : String → {rt_})")
        corder_ = list(spec.get("cell_of", {}).values())
        for (inj_, t_) in sorted(self.used_cells, key=lambda u: corder_.index(u[0])):
            opq_params.append(f"({inj_} : {lty(t_)} → Cell)")
        for (on_, ot_, it_) in self.used_obj_iters:
            opq_params.append(f"(iter_{on_} : {ot_} → PySM.M ((List {P._paren(lty(it_))}) × {ot_}))")
        if self.uses_iter_self:
            sty = " × ".join(P._paren(lty(t)) for f, (lf, t) in self.self_fields.items())
            opq_params.append(f"(iter_self : {P._paren(sty)} → PySM.M ((List {P._paren(lty(spec['iter_self']['item']))}) × {P._paren(sty)}))")
        if self.uses_field_of:
            opq_params.append(f"(field_of : String → Option ({lty(spec['field_of'])} → Rat))")
        aorder = [(r_, a_) for r_, d_ in spec.get("rec_attrs", {}).items() for a_ in d_]
        for (r_, a_, t_) in sorted(self.used_attrs, key=lambda u: aorder.index((u[0], u[1]))):
            opq_params.append(f"({r_}_{a_} : {r_} → {lty(t_)})")
        corder = list(spec.get("columns", {}))       # declared order: stable under reordering of the statements
        cols = [f"(col_{c} : {lty(rt_)} → {lty(ct)})"
                for (c, rt_, ct) in sorted(self.used_cols, key=lambda u: corder.index(u[0]))]
        if any(uses_real_sm(t_) for _, t_ in lean_params) or any(
                uses_real_sm(t_) for k_, o in spec.get("opaque", {}).items() if k_ in self.used_opaque
                for t_ in list(o["args"]) + [o["ret"]] + list(o.get("kwparams", {}).values())) or any(
                uses_real_sm(t_) for (_, _, t_) in self.used_attrs) or any(
                uses_real_sm(spec["rec_methods"][r_][m_]["ret"]) for (r_, m_) in self.used_rec_methods):
            self.uses_real = True
        sig = " ".join(([("{" + " ".join(recs) + " : Type}")] if recs else []) +
                       (["{α : Type} [RealOps α]"] if self.uses_real else []) + opq_params + cols + hidden +
                       [f"({a} : {lty(t)})" for a, t in lean_params])
        head = [f"/-- `{self.name}` — {self.relfile}:{node.lineno}-{node.end_lineno}",
                "    specialisation: " + ", ".join(
                    f"{a} : {params[a] if not isinstance(params[a], dict) else '= ' + repr(params[a]['static'])}"
                    for a in argnames)]
        res_doc = (["the list of yielded items"] if self.is_gen else
                   [] if (self.ret_ty is None or self.ret_ty.kind in ("unit", "self")) else
                   ["the returned value" + (" (= the array updated in place)" if self.ret_is_inout else "")])
        res_doc += [("the final state record self' = (" + ", ".join("self." + f for f in self.self_fields) + ")"
                     + (" (= the returned `self`)" if self.ret_ty is not None and self.ret_ty.kind == "self" else ""))
                    if kx == "self''" else f"final {kx}"
                    for kx in self.extras if not (self.ret_is_inout and kx in spec.get("inout", []))]
        if self.ret_is_inout:
            comps_doc = ["the returned value (= the `inout` array, updated in place)"] + \
                        [f"final {kx}" for kx in self.extras if kx not in spec.get("inout", [])]
            res_doc = comps_doc
        head.append("    result: " + ", ".join(res_doc))
        if self.fuels:
            head.append("    fuel: one parameter per `while` loop / for the recursion; `Exc.outOfFuel` when it runs out")
        for n in self.notes:
            head.append("    " + n)
        head.append("-/")
        opq_names = " ".join(o["lean"] for k_, o in spec.get("opaque", {}).items() if k_ in self.used_opaque and
                             o["lean"] in seen) if False else " ".join(dict.fromkeys(
                                 o["lean"] for k_, o in spec.get("opaque", {}).items() if k_ in self.used_opaque))
        code = code.replace(" {OPAQUE} ", " " + (opq_names + " " if opq_names else ""))
        if spec.get("recursive"):
            head.insert(-1, "    recursion: the function calls itself; `fuel` bounds the depth (`Exc.outOfFuel` at 0)")
            code = ("  match fuel with\n  | 0 => Except.error PySM.Exc.outOfFuel\n  | fuel + 1 =>\n" +
                    "\n".join("  " + l for l in code.split("\n")))
        text = "\n".join(head) + f"\ndef {spec['lean']} {sig} : PySM.M {P._paren(rt)} :=\n{code}\n"
        hs = getattr(node, "_opaque_hashes", None)
        if hs:
            text += (f"/-- digests of the nested helper definitions that are opaque parameters of `{spec['lean']}` -/\n"
                     f"def {spec['lean']}_helpers : List (String × String) := ["
                     + ", ".join(f'("{a}", "{b}")' for a, b in hs) + "]\n")
        return text


def opaque_sig(o):
    if "sig" in o:
        return o["sig"]
    ins = [P._paren(lty(t)) for t in list(o["args"]) + list(o.get("kwparams", {}).values())]
    ret = lty(o["ret"])
    return " → ".join(ins + [f"PySM.M {P._paren(ret)}" if o.get("raises") else ret])


def _norm_digest(fn):
    """sha256 of the AST of a nested helper with its parameters and assigned locals renamed v0, v1, … in order of appearance"""
    import copy
    fn = copy.deepcopy(fn)
    names = {}
    for a in fn.args.args:
        names.setdefault(a.arg, f"v{len(names)}")
    for n in ast.walk(fn):
        if isinstance(n, ast.Name) and isinstance(n.ctx, ast.Store):
            names.setdefault(n.id, f"v{len(names)}")
    for n in ast.walk(fn):
        if isinstance(n, ast.Name) and n.id in names:
            n.id = names[n.id]
        elif isinstance(n, ast.arg) and n.arg in names:
            n.arg = names[n.arg]
    return hashlib.sha256(ast.dump(fn).encode()).hexdigest()[:12]


def _recs(t):
    if t is None:
        return []
    if t.kind == "rec":
        return [t.item]
    if t.kind in ("list", "opt", "dict"):
        return _recs(t.item)
    if t.kind in ("tuple", "sum"):
        return [r for x in t.item for r in _recs(x)]
    return []


def _match_pattern(pat, e):
    """structural match of expression `e` against `pat`, whose single Name `_` is a hole: the sub-expression in the hole, or None"""
    found = []

    def go(p_, x):
        if isinstance(p_, ast.Name) and p_.id == "_":
            found.append(x)
            return True
        if type(p_) is not type(x):
            return False
        for f in p_._fields:
            a, b = getattr(p_, f, None), getattr(x, f, None)
            if isinstance(a, list):
                if not isinstance(b, list) or len(a) != len(b) or not all(
                        (go(u, w) if isinstance(u, ast.AST) else u == w) for u, w in zip(a, b)):
                    return False
            elif isinstance(a, ast.AST):
                if isinstance(a, (ast.Load, ast.Store)):
                    continue
                if not isinstance(b, ast.AST) or not go(a, b):
                    return False
            elif a != b:
                return False
        return True
    return found[0] if go(pat, e) and len(found) == 1 else None


def _strlit(s):
    return '"' + s.replace("\\", "\\\\").replace('"', '\\"') + '"'


def exc_of(name):
    return {"ValueError": "(PySM.Exc.py Py.Err.valueError)", "IndexError": "(PySM.Exc.py Py.Err.indexError)",
            "AssertionError": "(PySM.Exc.py Py.Err.assertionError)", "StopIteration": "PySM.Exc.stopIteration",
            "TypeError": "PySM.Exc.typeError", "AttributeError": "PySM.Exc.attributeError",
            "KeyError": "PySM.Exc.keyError", "OSError": "PySM.Exc.osError", "IOError": "PySM.Exc.osError",
            "EnvironmentError": "PySM.Exc.osError", "RuntimeError": "PySM.Exc.runtimeError"}.get(
        name, "(PySM.Exc.py Py.Err.other)")


ROW = REC("Row")

# temp_event of the catalog-forecast loader: (event_id, origin_time, lat, lon, depth, magnitude)
EV = TUPLE(STR, OPT(INT), OPT(F64), OPT(F64), OPT(F64), OPT(F64))

# opaque raising parsers of `filter`: float(<str>) and time_utils.strptime_to_utc_epoch(<str>) (both ValueError)
_FILTER_OPAQUE = {"float": dict(lean="float_of_str", args=[STR], ret=F64, raises=True),
                  "strptime_to_utc_epoch": dict(lean="strptime_to_utc_epoch", args=[STR], ret=INT, raises=True)}

# the simulation loop of _poisson_likelihood_test (C05 / C06)
_PLT_LIVE = dict(sampling_weights=LIST(F64), sim_fore=LIST(NAT), simulated_ll=LIST(EREAL), n_obs=NAT,
                 expected_forecast_count=REAL, log_bin_expectations=LIST(EREAL), observed_data_nonzero=LIST(NAT),
                 target_event_forecast=LIST(EREAL))
_PLT_CALLEES = {"_simulate_catalog": [
    dict(lean="simulate_catalog_rand", kw=[], hidden=["rng'"], types=[NAT, LIST(F64), LIST(NAT)], ret=LIST(NAT)),
    dict(lean="simulate_catalog", kw=["random_numbers"], hidden=[], types=[NAT, LIST(F64), LIST(NAT), LIST(F64)],
         ret=LIST(NAT))]}
_PLT_OPAQUE = {"poisson_joint_log_likelihood_ndarray": dict(lean="joint_ll", args=[LIST(EREAL), LIST(NAT), REAL], ret=EREAL)}

_BLT_LIVE = dict(forecast_data=REC("Masked"), sampling_weights=LIST(F64), sim_fore=LIST(NAT), simulated_ll=LIST(REAL),
                 n_active_cells=NAT)
_BLT_CALLEES = {"_simulate_catalog": [
    dict(lean="simulate_catalog_binary", kw=[], fuel=True, hidden=["rng'"], types=[NAT, LIST(F64), LIST(NAT)], ret=LIST(NAT)),
    dict(lean="simulate_catalog_binary_injected", kw=["random_numbers"], hidden=[],
         types=[NAT, LIST(F64), LIST(NAT), LIST(F64)], ret=LIST(NAT))]}
_BLT_OPAQUE = {"binary_joint_log_likelihood_ndarray": dict(lean="binary_ll", args=[LIST(REAL), LIST(NAT)], ret=REAL)}

# catalog_evaluations (C10): the opaque objects
_CE_ATTRS = {"Forecast": {"region": OPT(REC("Region")), "expected_rates": OPT(REC("GF")), "name": REC("FName"),
                          "min_magnitude": REC("MinMw")},
             "Obs": {"event_count": NAT, "name": REC("ObsName"), "__str__": REC("ObsRepr")},
             "Cat": {"event_count": NAT}}
_CE_METHODS = {"Forecast": {"get_expected_rates": dict(args=[], ret=REC("GF"), mutates=True, ignore_kw=["verbose"])},
               "GF": {"sum": dict(args=[], ret=REAL), "spatial_counts": dict(args=[], ret=LIST(REAL)),
                      "magnitude_counts": dict(args=[], ret=LIST(REAL))},
               "Obs": {"spatial_counts": dict(args=[], ret=LIST(NAT), raises=True),
                       "magnitude_counts": dict(args=[], ret=LIST(NAT), raises=True)},
               "Cat": {"spatial_counts": dict(args=[], ret=LIST(NAT), raises=True),
                       "magnitude_counts": dict(args=[], ret=LIST(NAT), raises=True)}}
_CE_OPAQUE = {"_compute_likelihood": dict(lean="compute_likelihood", args=[LIST(NAT), LIST(REAL), REAL, NAT],
                                          ret=TUPLE(EREAL, NREAL)),
              "get_quantiles": dict(lean="get_quantiles", args=[LIST(NREAL), NREAL], ret=TUPLE(REC("Qv"), REC("Qv")))}

# the catalog gridding methods (C03)
_GRID_SELF = {"catalog": ("catalog", LIST(ROW)), "region": ("region", REC("Region"))}
_GRID_COLS = {"longitude": F64, "latitude": F64, "magnitude": F64}
_GRID_ATTRS = {"Region": {"num_nodes": INT, "magnitudes": OPT(LIST(F64))}}
_GRID_OPAQUE = {"self.region.get_index_of": dict(lean="get_index_of", args=[LIST(F64), LIST(F64)], ret=LIST(NAT), raises=True),
                "bin1d_vec": dict(lean="bin1d_vec", args=[LIST(F64), LIST(F64)], ret=LIST(INT),
                                  fixed_kw={"tol": None, "right_continuous": True})}

# ----------------------------------------------------------------------------- targets
# as in py2lean.TARGETS; extra keys: inout (parameters updated in place), locals (declared types of locals first bound to
# None / []), yields (item type of a generator), local_defs_opaque / opaque (nested helpers and constructors as parameters).
TARGETS = [
    # C06: the Poisson simulation step with injected uniform numbers (the array holds counts: float64 values that are
    # non-negative integers below 2^53, kept as Nat)
    dict(file="csep/core/poisson_evaluations.py", func="_simulate_catalog", lean="simulate_catalog", prop="C06", also=[],
         label="poisson_evaluations._simulate_catalog[random_numbers given]",
         params=dict(num_events=NAT, sampling_weights=LIST(F64), sim_fore=LIST(NAT), random_numbers=LIST(F64)),
         inout=["sim_fore"]),
    # … and drawing from the global generator (`random_numbers=None`)
    dict(file="csep/core/poisson_evaluations.py", func="_simulate_catalog", lean="simulate_catalog_rand", prop="C06", also=[],
         label="poisson_evaluations._simulate_catalog[random_numbers=None]",
         params=dict(num_events=NAT, sampling_weights=LIST(F64), sim_fore=LIST(NAT), random_numbers=NONE),
         inout=["sim_fore"]),
    # C06: the binary version: rejection `while` loop on the global generator (`random_numbers=None`) …
    dict(file="csep/core/binomial_evaluations.py", func="_simulate_catalog", lean="simulate_catalog_binary", prop="C06",
         also=[], label="binomial_evaluations._simulate_catalog[random_numbers=None]", params=dict(sim_cells=NAT, sampling_weights=LIST(F64), sim_fore=LIST(NAT), random_numbers=NONE),
         inout=["sim_fore"]),
    # … and with injected numbers
    dict(file="csep/core/binomial_evaluations.py", func="_simulate_catalog", lean="simulate_catalog_binary_injected",
         prop="C06", also=[], label="binomial_evaluations._simulate_catalog[random_numbers given]", params=dict(sim_cells=NAT, sampling_weights=LIST(F64), sim_fore=LIST(NAT),
                                          random_numbers=LIST(F64)), inout=["sim_fore"]),
    # C05 / C06: the simulation loop of `_poisson_likelihood_test` (from the `for` loop on, plus the seeding `if` before
    # it): sampling weights, prepared log-rates, expected count, `n_obs`, the observed target arrays and the (empty) result
    # list are live-in parameters (their computation is tied by py2lean's `poisson_likelihood_stat` and by C06's weights);
    # `_simulate_catalog` is the generated definition above; `poisson_joint_log_likelihood_ndarray` an opaque parameter;
    # the global generator = the hidden streams `rng'` (uniforms) and `pois'` (Poisson draws), reseeded by
    # `numpy.random.seed`. Two specialisations: numbers from the global generator / injected `random_numbers`.
    dict(file="csep/core/poisson_evaluations.py", func="_poisson_likelihood_test", lean="poisson_test_loop", prop="C05",
         also=["C06"], module="C05L", label="_poisson_likelihood_test[simulation loop, random_numbers=None]",
         params=dict(forecast_data=UNUSED, observed_data=UNUSED, num_simulations=INT, random_numbers=NONE, seed=OPT(INT),
                     use_observed_counts=BOOL, verbose={"static": False}, normalize_likelihood=UNUSED),
         body_from="for", keep_before=["seed is not None"], live_in=_PLT_LIVE, callees=_PLT_CALLEES, opaque=_PLT_OPAQUE),
    dict(file="csep/core/poisson_evaluations.py", func="_poisson_likelihood_test", lean="poisson_test_loop_injected",
         prop="C05", also=["C06"], module="C05L", label="_poisson_likelihood_test[simulation loop, random_numbers given]",
         params=dict(forecast_data=UNUSED, observed_data=UNUSED, num_simulations=INT, random_numbers=LIST(LIST(F64)),
                     seed=OPT(INT), use_observed_counts=BOOL, verbose={"static": False}, normalize_likelihood=UNUSED),
         body_from="for", keep_before=["seed is not None"], live_in=_PLT_LIVE, callees=_PLT_CALLEES, opaque=_PLT_OPAQUE),
    # C16 / C06: the simulation loop of `_binary_likelihood_test` (same slicing as the Poisson one). Specialisation:
    # `use_observed_counts=True` (with False the code reads `num_cells_to_simulate` before assigning it: NameError);
    # `forecast_data` is the masked array built before the loop, an opaque object whose `.data` is read;
    # `binary_joint_log_likelihood_ndarray` is an opaque parameter (tied by py2lean).
    dict(file="csep/core/binomial_evaluations.py", func="_binary_likelihood_test", lean="binary_test_loop", prop="C16",
         also=["C06"], module="C16L", label="_binary_likelihood_test[simulation loop, random_numbers=None]",
         params=dict(forecast_data=UNUSED, observed_data=LIST(NAT), num_simulations=INT, random_numbers=NONE, seed=OPT(INT),
                     use_observed_counts={"static": True}, verbose={"static": False}, normalize_likelihood=UNUSED),
         body_from="for", keep_before=["seed is not None"], live_in=_BLT_LIVE, callees=_BLT_CALLEES, opaque=_BLT_OPAQUE,
         rec_attrs={"Masked": {"data": LIST(REAL)}}),
    dict(file="csep/core/binomial_evaluations.py", func="_binary_likelihood_test", lean="binary_test_loop_injected",
         prop="C16", also=["C06"], module="C16L", label="_binary_likelihood_test[simulation loop, random_numbers given]",
         params=dict(forecast_data=UNUSED, observed_data=LIST(NAT), num_simulations=INT, random_numbers=LIST(LIST(F64)),
                     seed=OPT(INT), use_observed_counts={"static": True}, verbose={"static": False},
                     normalize_likelihood=UNUSED),
         body_from="for", keep_before=["seed is not None"], live_in=_BLT_LIVE, callees=_BLT_CALLEES, opaque=_BLT_OPAQUE,
         rec_attrs={"Masked": {"data": LIST(REAL)}}),
    # C13: `get_expected_rates`. Specialisation: the forecast is bound to a region; `for i, cat in enumerate(self)` is ONE
    # pass over the forecast given by the opaque parameter `iter_self` (the catalogs it yields and the state record after
    # it; the loop body runs on them after the pass and may read only `self.region`); `cat.region = …` and
    # `cat.spatial_magnitude_counts()` are an opaque setter / raising method of the yielded object (counts as a flat list);
    # `numpy.empty([])` is the arbitrary value `empty'` (with NO catalog the code divides uninitialised memory: the tie
    # theorem is for ≥ 1 catalog); `GriddedForecast(…)` an opaque constructor; the fields of the object that the method
    # does not name travel in the opaque field `rest`.
    dict(file="csep/core/forecasts.py", func="CatalogForecast.get_expected_rates", lean="get_expected_rates", prop="C13",
         also=[], module="C13R", params=dict(verbose={"static": False}), empty_as=LIST(NAT),
         self_fields={"region": ("region", REC("Region")), "expected_rates": ("expected_rates", OPT(REC("GF"))),
                      "n_cat": ("n_cat", OPT(INT)), "start_time": ("start_time", REC("T")), "end_time": ("end_time", REC("T")),
                      "name": ("name", REC("Name")), "__rest__": ("rest", REC("Rest"))},
         iter_self=dict(item=REC("Cat"), keeps=["region"]),
         rec_attrs={"Region": {"magnitudes": OPT(LIST(F64))}},
         rec_setters={"Cat": {"region": REC("Region")}},
         rec_methods={"Cat": {"spatial_magnitude_counts": dict(args=[], ret=LIST(NAT), raises=True)}},
         opaque={"GriddedForecast": dict(lean="mkGF", args=[REC("T"), REC("T")], ret=REC("GF"),
                                         kwparams={"data": LIST(F64), "region": REC("Region"),
                                                   "magnitudes": OPT(LIST(F64)), "name": REC("Name")})}),
    # C10: `catalog_evaluations.number_test` (verbose=False): `for i, catalog in enumerate(forecast)` is one pass over the
    # forecast (opaque `iter_forecast`); `get_quantiles` (tied by py2lean) and the result constructor are opaque parameters;
    # attributes of the forecast / observed catalog are opaque projections.
    dict(file="csep/core/catalog_evaluations.py", func="number_test", lean="catalog_number_test", prop="C10", also=[],
         module="C10L", label="catalog_evaluations.number_test[pass + loop, verbose=False]", params=dict(forecast=REC("Forecast"), observed_catalog=REC("Obs"), verbose={"static": False}),
         locals=dict(event_counts=LIST(NAT)), iter_objs={"forecast": dict(item=REC("Cat"))},
         rec_attrs={"Cat": {"event_count": NAT},
                    "Obs": {"event_count": NAT, "name": REC("ObsName"), "__str__": REC("ObsRepr")},
                    "Forecast": {"name": REC("FName"), "min_magnitude": REC("MinMw")}},
         opaque={"get_quantiles": dict(lean="get_quantiles", args=[LIST(NAT), NAT], ret=TUPLE(REC("Qv"), REC("Qv"))),
                 "CatalogNumberTestResult": dict(
                     lean="mkResult", args=[], ret=REC("Result"),
                     kwparams={"test_distribution": LIST(NAT), "name": STR, "observed_statistic": NAT,
                               "quantile": TUPLE(REC("Qv"), REC("Qv")), "status": STR, "obs_catalog_repr": REC("ObsRepr"),
                               "sim_name": REC("FName"), "min_mw": REC("MinMw"), "obs_name": REC("ObsName")})}),
    # C10: `spatial_test` / `pseudolikelihood_test` / `magnitude_test` (verbose=False). The forecast is an opaque object:
    # `forecast.get_expected_rates(…)` a method that changes it (in SourceSM/C10L.lean instantiated with the generated
    # `get_expected_rates`), `enumerate(forecast)` one pass; the gridded-forecast methods, the catalogs' counting methods,
    # `_compute_likelihood` (returns (lh, lh_norm): -inf / nan possible), `get_quantiles`, the result constructor are opaque.
    dict(file="csep/core/catalog_evaluations.py", func="spatial_test", lean="catalog_spatial_test", prop="C10", also=[],
         module="C10L", label="catalog_evaluations.spatial_test[verbose=False]",
         params=dict(forecast=REC("Forecast"), observed_catalog=REC("Obs"), verbose={"static": False}),
         locals=dict(test_distribution=LIST(NREAL)), iter_objs={"forecast": dict(item=REC("Cat"))},
         lit_as={"Qv": "Qv_of_int"}, rec_attrs=_CE_ATTRS, rec_methods=_CE_METHODS,
         opaque=dict(_CE_OPAQUE, CatalogSpatialTestResult=dict(
             lean="mkResult", args=[], ret=REC("Result"),
             kwparams={"test_distribution": LIST(NREAL), "name": STR, "observed_statistic": NREAL,
                       "quantile": TUPLE(REC("Qv"), REC("Qv")), "status": STR, "min_mw": REC("MinMw"),
                       "obs_catalog_repr": REC("ObsRepr"), "sim_name": REC("FName"), "obs_name": REC("ObsName")}))),
    # the first component of `_compute_likelihood` is what `pseudolikelihood_test` uses: declared nan-able as well (more
    # general than the hand model, where it never is nan); `return None` next to `return result`: Optional result
    dict(file="csep/core/catalog_evaluations.py", func="pseudolikelihood_test", lean="catalog_pseudolikelihood_test",
         prop="C10", also=[], module="C10L", label="catalog_evaluations.pseudolikelihood_test[verbose=False]",
         params=dict(forecast=REC("Forecast"), observed_catalog=REC("Obs"), verbose={"static": False}),
         locals=dict(test_distribution=LIST(NREAL)), returns=OPT(REC("Result")),
         iter_objs={"forecast": dict(item=REC("Cat"))},
         lit_as={"Qv": "Qv_of_int"}, rec_attrs=_CE_ATTRS, rec_methods=_CE_METHODS,
         opaque=dict(_CE_OPAQUE,
                     _compute_likelihood=dict(lean="compute_likelihood", args=[LIST(NAT), LIST(REAL), REAL, NAT],
                                              ret=TUPLE(NREAL, NREAL)),
                     CatalogPseudolikelihoodTestResult=dict(
             lean="mkResult", args=[], ret=REC("Result"),
             kwparams={"test_distribution": LIST(NREAL), "name": STR, "observed_statistic": NREAL,
                       "quantile": TUPLE(REC("Qv"), REC("Qv")), "status": STR, "min_mw": REC("MinMw"),
                       "obs_catalog_repr": REC("ObsRepr"), "sim_name": REC("FName"), "obs_name": REC("ObsName")}))),
    # `magnitude_test`: `continue` for catalogs without events; `n_obs / n_events` of two numpy integers is the real-layer
    # quotient (int_div); `cumulative_square_diff` opaque; the result's `observed_statistic` / `quantile` members are Optional
    dict(file="csep/core/catalog_evaluations.py", func="magnitude_test", lean="catalog_magnitude_test",
         prop="C10", also=[], module="C10L", label="catalog_evaluations.magnitude_test[verbose=False]",
         params=dict(forecast=REC("Forecast"), observed_catalog=REC("Obs"), verbose={"static": False}),
         locals=dict(test_distribution=LIST(REAL)), iter_objs={"forecast": dict(item=REC("Cat"))}, int_div="real",
         rec_attrs=dict(_CE_ATTRS, Region={"magnitudes": OPT(REC("Mags"))}), rec_methods=_CE_METHODS,
         opaque=dict(get_quantiles=dict(lean="get_quantiles", args=[LIST(REAL), REAL], ret=TUPLE(REC("Qv"), REC("Qv"))),
                     cumulative_square_diff=dict(lean="cumulative_square_diff", args=[LIST(REAL), LIST(REAL)], ret=REAL),
                     CatalogMagnitudeTestResult=dict(
             lean="mkResult", args=[], ret=REC("Result"),
             kwparams={"test_distribution": LIST(REAL), "name": STR, "observed_statistic": OPT(REAL),
                       "quantile": TUPLE(OPT(REC("Qv")), OPT(REC("Qv"))), "status": STR, "min_mw": REC("MinMw"),
                       "obs_catalog_repr": REC("ObsRepr"), "obs_name": REC("ObsName"), "sim_name": REC("FName")}))),
    # C19: the record loop of `readers.ndk` (from its `for` on): groups of five lines, an incomplete last group and the groups
    # `_read_lines` / `_parse_datetime_to_zmap` reject with ValueError / IOError resp. ValueError are skipped, any other
    # exception ends the load; the event id is the index of the GROUP. `_read_lines`, `lines_iter` (nested; digests pinned),
    # `_parse_datetime_to_zmap`, `datetime.datetime`, `datetime_to_utc_epoch` are opaque; `record[...]` opaque projections.
    dict(file="csep/utils/readers.py", func="ndk", lean="ndk_loop", prop="C19", also=[], module="C19N",
         label="readers.ndk[record loop]", params=dict(filename=Ty("file")), body_from="for",
         live_in=dict(out=LIST(TUPLE(NAT, INT, F64, F64, F64, F64))), ignore_locals=["msg"],
         local_defs_opaque=["_read_lines", "lines_iter"],
         rec_attrs={"Rec": {"date": REC("DateTok"), "time": REC("TimeTok"), "hypo_lat": F64, "hypo_lng": F64,
                            "hypo_depth_in_km": F64, "Mw": F64},
                    "DtDict": {"year": INT, "month": INT, "day": INT, "hour": INT, "minute": INT, "second": INT}},
         opaque={"_read_lines": dict(lean="read_lines", args=[LIST(OPT(REC("Line")))], ret=REC("Rec"), raises=True, star=True),
                 "lines_iter": dict(lean="lines_iter", args=[], ret=LIST(REC("Line")), generator=True),
                 "_parse_datetime_to_zmap": dict(lean="parse_datetime_to_zmap", args=[REC("DateTok"), REC("TimeTok")],
                                                 ret=REC("DtDict"), raises=True),
                 "datetime.datetime": dict(lean="mk_datetime", args=[INT, INT, INT, INT, INT, INT], ret=REC("Dt"), raises=True),
                 "datetime_to_utc_epoch": dict(lean="datetime_to_utc_epoch", args=[REC("Dt")], ret=INT)}),
    # C14: `write_ascii`. The file is the hidden stream `file'` (its records); the catalog array = list of opaque rows with
    # typed columns; ids are opaque values (bytes or str): `decode` raises AttributeError on a str; the time text is ONE opaque
    # function of the epoch (pattern); the cells of a record are opaque injections of the values by type.
    dict(file="csep/core/catalogs.py", func="AbstractBaseCatalog.write_ascii", lean="write_ascii", prop="C14", also=[],
         module="C14W", label="catalogs.write_ascii", procedure=True,
         params=dict(filename=Ty("file"), write_header=BOOL, write_empty=BOOL, append=BOOL, id_col=STR),
         self_fields={"catalog": ("catalog", LIST(ROW)), "catalog_id": ("catalog_id", OPT(INT))},
         columns={"longitude": F64, "latitude": F64, "magnitude": F64, "origin_time": INT, "depth": F64},
         locals=dict(event_ids=LIST(REC("IdVal"))), str_as={"IdVal": "id_of_str"},
         dyn_column=dict(lean="id_column", ret=LIST(REC("IdVal"))),
         rec_methods={"IdVal": {"decode": dict(args=[STR], ret=REC("IdVal"), raises=True)}},
         opaque_exprs={"str(epoch_time_to_utc_datetime(_).replace(tzinfo=None)).replace(' ', 'T')":
                       dict(lean="time_string", args=[INT], ret=STR, raises=True)},
         cell_of={"str": "cell_str", "f64": "cell_f64", "opt[int]": "cell_optint", "rec[IdVal]": "cell_id"}),
    # C14: `to_dict`. `self.__dict__` is a dict of opaque attribute values (`callable`, `hasattr(…, 'to_dict')` opaque
    # predicates, `v.to_dict()` an opaque raising method); the result dict holds attribute values and, under 'catalog', the
    # rows of `self.catalog.tolist()` (opaque items; `decode` raises on what is not bytes: caught, item kept).
    dict(file="csep/core/catalogs.py", func="AbstractBaseCatalog.to_dict", lean="catalog_to_dict", prop="C14", also=[],
         module="C14W", label="catalogs.to_dict", params={},
         self_fields={"__dict__": ("dict'", DICT(REC("Attr"))), "catalog": ("catalog", REC("Arr"))},
         locals=dict(out=DICT(SUM(REC("Attr"), LIST(LIST(REC("Item"))))), new_line=LIST(REC("Item"))),
         rec_preds={"Attr": {"callable": "Attr_callable", "hasattr:to_dict": "Attr_has_to_dict"}},
         rec_methods={"Attr": {"to_dict": dict(args=[], ret=REC("Attr"), raises=True)},
                      "Arr": {"tolist": dict(args=[], ret=LIST(LIST(REC("Item"))))},
                      "Item": {"decode": dict(args=[STR], ret=REC("Item"), raises=True)}}),
    # C12: the decoder state machine of the catalog-forecast loader (a generator): `prev_id` / `events` / placeholder rows,
    # one catalog per id. Specialisation: `filename` is a regular file; the rows `csv.reader` hands to the loop are the
    # parameter `rows'` (tokenisation and the field parsing of the nested helper `read_catalog_line` are separate layers:
    # the helpers are opaque parameters whose AST digests are pinned); `cls(data=…, catalog_id=…, **kwargs)` is an opaque
    # constructor; temp_event = (event_id, origin_time, lat, lon, depth, magnitude) with '' / None fields as `none`.
    dict(file="csep/core/catalogs.py", func="CSEPCatalog.load_ascii_catalogs", lean="load_ascii_catalogs", prop="C12", also=[],
         classmethod=True, params=dict(filename=Ty("file")), kwargs_passthrough=["kwargs"],
         static_calls={"os.path.isfile": True}, csv_rows=LIST(REC("Line")), yields=REC("Cat"),
         locals=dict(prev_id=OPT(INT), events=LIST(EV)),
         local_defs_opaque=["parse_filename", "read_float", "is_header_line", "read_catalog_line"],
         opaque={"parse_filename": dict(lean="parse_filename", pure_helper=True, args=[], ret=NONE),
                 "is_header_line": dict(lean="is_header_line", args=[REC("Line")], ret=BOOL),
                 "read_catalog_line": dict(lean="read_catalog_line", args=[REC("Line")], ret=TUPLE(EV, INT), raises=True),
                 "cls": dict(lean="cls", args=[], kwparams={"data": LIST(EV), "catalog_id": OPT(INT)}, kwargs=["**"],
                             ret=REC("Cat"))}),
    # C17: the recursive four-way split of the quadtree grids. `mercantile` is opaque (`quadkey_to_tile`, `bounds` = the
    # namedtuple (west, south, east, north)); quadkeys are Python strings; `qk` / `num` are the lists the callers pass and the
    # recursion appends to in place; the recursion depth is bounded by an explicit fuel.
    dict(file="csep/core/regions.py", func="_create_tile", lean="create_tile", prop="C17", also=[], recursive=True,
         procedure=True, params=dict(quadk=STR, threshold=INT, zoom=INT, lon=LIST(F64), lat=LIST(F64), qk=LIST(STR),
                                     num=LIST(INT)), inout=["qk", "num"],
         tuple_attrs=dict(west=0, south=1, east=2, north=3),
         opaque={"mercantile.quadkey_to_tile": dict(lean="quadkey_to_tile", args=[STR], ret=REC("Tile")),
                 "mercantile.bounds": dict(lean="bounds", args=[REC("Tile")], ret=TUPLE(F64, F64, F64, F64))}),
    dict(file="csep/core/regions.py", func="_create_tile_fix_len", lean="create_tile_fix_len", prop="C17", also=[],
         recursive=True, procedure=True, params=dict(quadk=STR, zoom=INT, qk=LIST(STR)), inout=["qk"]),
    # C01: the build loop of `CartesianGrid2D._build_bitmask_vec` (from its `for` loop on): the n-d array `a`, the bin
    # indices `idx`, `idy` and the edge arrays `xs`, `ys` computed before the loop are parameters (cleaner_range and
    # bin1d_vec are tied by py2lean); state record read only: the polygon list (its length) and `poly_mask`.
    dict(file="csep/core/regions.py", func="CartesianGrid2D._build_bitmask_vec", lean="build_bitmask_loop", prop="C01",
         also=[], params={}, body_from="for",
         live_in=dict(a=NDARR(F64), idx=LIST(INT), idy=LIST(INT), xs=LIST(F64), ys=LIST(F64)),
         self_fields={"polygons": ("polygons", LIST(REC("Poly"))), "poly_mask": ("poly_mask", OPT(LIST(INT)))}),
    # C03: the gridding methods of the catalog. Specialisation: the catalog is bound to a region (an opaque object: its
    # `num_nodes`, `magnitudes` are opaque projections, `region.get_index_of` an opaque raising function); `bin1d_vec` is an
    # opaque parameter (tied by py2lean); `mag_bins` is given, `tol=None`, `retbins=False`; count arrays are `Nat`s.
    dict(file="csep/core/catalogs.py", func="AbstractBaseCatalog.spatial_counts", lean="spatial_counts", prop="C03", also=[],
         params={}, self_fields=_GRID_SELF, columns=_GRID_COLS, rec_attrs=_GRID_ATTRS, opaque=_GRID_OPAQUE),
    dict(file="csep/core/catalogs.py", func="AbstractBaseCatalog.magnitude_counts", lean="magnitude_counts", prop="C03", also=[],
         params=dict(mag_bins=LIST(F64), tol=NONE, retbins={"static": False}),
         self_fields=_GRID_SELF, columns=_GRID_COLS, rec_attrs=_GRID_ATTRS, opaque=_GRID_OPAQUE),
    dict(file="csep/core/catalogs.py", func="AbstractBaseCatalog.spatial_magnitude_counts", lean="spatial_magnitude_counts",
         prop="C03", also=[], params=dict(mag_bins=LIST(F64), tol=NONE),
         self_fields=_GRID_SELF, columns=_GRID_COLS, rec_attrs=_GRID_ATTRS, opaque=_GRID_OPAQUE),
    # C04: `filter` for a list / tuple of statement strings, in place (returns self) …
    dict(file="csep/core/catalogs.py", func="AbstractBaseCatalog.filter", lean="filter_inplace", prop="C04", also=[],
         label="AbstractBaseCatalog.filter[statements: list of str, in_place=True]",
         params=dict(statements=LIST(STR), in_place={"static": True}), field_of=ROW, module="C04F",
         self_fields={"filters": ("filters", LIST(STR)), "catalog": ("catalog", LIST(ROW))},
         opaque=_FILTER_OPAQUE),
    # … with `statements=None` (the statements stored in `self.filters`) …
    dict(file="csep/core/catalogs.py", func="AbstractBaseCatalog.filter", lean="filter_stored", prop="C04", also=[],
         label="AbstractBaseCatalog.filter[statements=None, in_place=True]",
         params=dict(statements=NONE, in_place={"static": True}), field_of=ROW, module="C04F",
         self_fields={"filters": ("filters", LIST(STR)), "catalog": ("catalog", LIST(ROW))},
         opaque=_FILTER_OPAQUE),
    # … and returning a new instance (`in_place=False`; the constructor is an opaque parameter)
    dict(file="csep/core/catalogs.py", func="AbstractBaseCatalog.filter", lean="filter_new", prop="C04", also=[],
         label="AbstractBaseCatalog.filter[statements: list of str, in_place=False]",
         params=dict(statements=LIST(STR), in_place={"static": False}), field_of=ROW, module="C04F",
         self_fields={"filters": ("filters", LIST(STR)), "catalog": ("catalog", LIST(ROW)),
                      "catalog_id": ("catalog_id", REC("CatId")), "format": ("format", REC("Fmt")),
                      "name": ("name", REC("Name")), "region": ("region", REC("Reg"))},
         opaque=dict(_FILTER_OPAQUE, cls=dict(
             lean="cls", args=[], ret=REC("Inst"),
             kwparams={"data": LIST(ROW), "catalog_id": REC("CatId"), "format": REC("Fmt"), "name": REC("Name"),
                       "region": REC("Reg"), "filters": LIST(STR)}))),
    # C04: `apply_mct` (method; state record = the structured array `self.catalog`, rows of an opaque type `Row` with the
    # declared columns as opaque projections). Transcendental pieces are opaque parameters, as in the hand model: float
    # power `10 ** x`, the nested `compute_mct` (log10; digest pinned), `days_to_millis` / `millis_to_days` of time_utils.
    # Specialisation: event_epoch is a Python int (what `datetime_to_utc_epoch` returns), magnitudes are finite floats.
    dict(file="csep/core/catalogs.py", func="AbstractBaseCatalog.apply_mct", lean="apply_mct", prop="C04", also=[],
         params=dict(m_main=F64, event_epoch=INT, mc=F64),
         self_fields={"catalog": ("catalog", LIST(ROW))}, columns={"origin_time": INT, "magnitude": F64},
         local_defs_opaque=["compute_mct"],
         opaque={"**": dict(lean="pow", args=[F64, F64], ret=F64),
                 "days_to_millis": dict(lean="days_to_millis", args=[F64], ret=F64),
                 "millis_to_days": dict(lean="millis_to_days", args=[INT], ret=F64),
                 "compute_mct": dict(lean="compute_mct", args=[F64, F64], ret=F64)}),
]


class TranslatorSM(P.Translator):
    def __init__(self, repo, targets=None):
        super().__init__(repo, TARGETS if targets is None else targets)

    def prepare(self, spec, node):
        """as py2lean.Translator.prepare (nested helpers declared opaque are removed from the body and their AST digest is
        pinned by `<f>_helpers_pinned`), with the digest taken after renaming the helper's own parameters and locals to
        positional names: renaming a local of a helper does not change it"""
        lo = spec.get("local_defs_opaque", [])
        if not lo:
            return node
        body, notes, hashes = [], [], []
        for s_ in node.body:
            if isinstance(s_, ast.FunctionDef) and s_.name in lo:
                h = _norm_digest(s_)
                notes.append(f"line {s_.lineno}: nested `{s_.name}` is an opaque parameter (normalised ast sha256 {h})")
                hashes.append((s_.name, h))
                continue
            body.append(s_)
        new = ast.FunctionDef(name=node.name, args=node.args, body=body, decorator_list=[], returns=None,
                              lineno=node.lineno, end_lineno=node.end_lineno, col_offset=0)
        new._opaque_notes, new._opaque_hashes = notes, hashes
        return new

    def callee(self, rel, fn):      # calls between SM targets are not translated (yet): every call must be in a table
        return None

    def run(self):
        for spec in self.targets:
            name = spec["lean"]
            try:
                node = self.find(spec["file"], spec["func"])
                if node is None:
                    raise Untranslatable(spec["func"], 0, f"function not found in {spec['file']}")
                node = self.prepare(spec, node)
                fn = FnSM(self, spec, node, spec["file"])
                text = fn.translate()
                unused = set(fn.declared_streams) - fn.used_streams
                if unused:
                    fn = FnSM(self, spec, node, spec["file"], no_streams=unused)
                    text = fn.translate()
                self.results[name] = dict(status="ok", text=text, spec=spec, line=node.lineno)
            except Untranslatable as e:
                self.results[name] = dict(status="untranslatable", reason=f"line {e.lineno}: {e.reason}", spec=spec)
            except (OSError, SyntaxError) as e:
                self.results[name] = dict(status="untranslatable", reason=f"cannot read source: {e}", spec=spec)
            except RecursionError as e:
                self.results[name] = dict(status="untranslatable", reason="source too deeply nested", spec=spec)
        return self.results


HEADER = """/-
  GENERATED by harness/py2lean_sm.py from the Python source of the pyCSEP tree under test — do not edit.
  One definition per target function (imperative / stateful code), composed of the operations of PyPreludeSM.lean and
  PyPrelude.lean in the order the source applies them. Theorems `SrcSM.<f>_eq_model`
  (lean/PycsepVerif/SourceSM/Cxx.lean) prove each equal to the hand model.
-/
import PycsepVerif.PyPreludeSM
set_option linter.unusedVariables false
namespace SrcSM
"""
GEN_REL = os.path.join("PycsepVerif", "GeneratedSrcSM.lean")
split_blocks, defs_digest = P.split_blocks, P.defs_digest


def render(results, old_blocks):
    out, status = [HEADER], {}
    for name, r in results.items():
        if r["status"] == "ok":
            block = r["text"]
            status[name] = dict(status="ok")
        else:
            prev = old_blocks.get(name)
            if prev is None:
                status[name] = dict(status="untranslatable", reason=r["reason"], stale=False)
                continue
            block = "\n".join(l for l in prev.splitlines() if not l.startswith("-- STALE")) + "\n"
            block = "-- STALE (kept from the last translatable source; NOT tied to the current source)\n" + block
            status[name] = dict(status="untranslatable", reason=r["reason"], stale=True)
        out.append(P.BEGIN.format(name) + "\n" + block + P.END.format(name) + "\n")
    out.append("end SrcSM\n")
    return "\n".join(out), status


def regenerate(repo, lean_dir, targets=None, write=True):
    """returns (changed, status: name -> dict, new_text, old_text) — same contract as py2lean.regenerate"""
    tr = TranslatorSM(repo, targets)
    res = tr.run()
    path = os.path.join(lean_dir, GEN_REL)
    old = open(path).read() if os.path.exists(path) else None
    new, status = render(res, split_blocks(old))
    for name, r in res.items():
        status[name]["prop"] = r["spec"]["prop"]
        status[name]["also"] = r["spec"].get("also", [])
        status[name]["func"] = r["spec"]["func"]
        status[name]["file"] = r["spec"]["file"]
    changed = new != old
    if changed and write:
        with open(path, "w") as f:
            f.write(new)
    return changed, status, new, old


if __name__ == "__main__":
    import sys
    repo = next((a for a in sys.argv[1:] if not a.startswith("--")), os.environ.get("VERIF_REPO", "/repo"))
    here = os.path.dirname(os.path.dirname(os.path.abspath(__file__)))
    ch, st, new, _ = regenerate(repo, os.path.join(here, "lean"), write="--dry" not in sys.argv)
    print("changed" if ch else "unchanged")
    for k_, v_ in st.items():
        print(k_, v_["status"], v_.get("reason", ""))
    if "--show" in sys.argv:
        print(new)
