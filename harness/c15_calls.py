"""C15, round 4 — call sites of the time conversions inside the anchored files, and decimal years on datetime's full range.

Model: lean/PycsepVerif/Model/TimeCalls.lean (driver ops of Drive/C15b.lean); theorems: Properties/C15_Calls.lean.
  scale   GriddedForecast.scale_to_test_date (forecasts.py:257): early returns, three decimal_year calls, two float
          subtractions, one float division — the factor is read from `data` of a forecast whose only rate is 1.0
          (1.0 * f == f exactly); bit-exact against `scaleToTestDate`; oracle: exact rational fraction of the period
          (+1 day, as documented) within the proved decimal-year error, non-decreasing in the test instant (scale_mono).
  stmt    catalog.filter('datetime <op> <date> <time>') as str / list / tuple, in_place or not (catalogs.py:518):
          kept origin times == {t : t <op> floor-millisecond(dt)}; malformed statements must raise; vs `filterDatetime`.
  nod     the three time members of CSEPCatalog.from_dict (catalogs.py:172, _none_or_datetime): str(dt) of naive /
          aware datetimes, a datetime object, None.
  fname   start time in the name of a catalog-forecast file (`__init__`.py:518, format %Y-%m-%dT%H-%M-%S-%f) and the
          same explicit-format call with other literal separators (`strptimeG`, `general_format_agrees`).
  dyfar   decimal years on 0001..9999 (bit exact; in [year, year+1]; non-decreasing at microsecond steps, strictly
          increasing at >= 1 ms; inverse within 1 ms unless the double is 10000.0 — CPython then raises).
"""
import datetime as _dt
import os
import tempfile
from fractions import Fraction

from .core import frac
from . import c15 as B

_case, _guarded, us_of, dt_of, UTC, esc = B._case, B._guarded, B.us_of, B.dt_of, B.UTC, B.esc
US_MIN = -62135596800000000      # 0001-01-01
US_MAX = 253402300800000000      # exclusive
DAY = 86400000000
FNAME_CODES = [45, 45, 84, 45, 45, 45]
SEP_CHARS = "-/:.T,;|#@=~ZtQ"    # literal characters of an explicit format (no blank, no '_', no '%', no digit)


# ------------------------------------------------------------------------------------------------ exact decimal year
def _is_leap(y):
    return y % 4 == 0 and (y % 100 != 0 or y % 400 == 0)


def exact_decimal_year(us):
    dt = dt_of(us, True)
    y = dt.year
    ys = us_of(_dt.datetime(y, 1, 1, tzinfo=UTC))
    return y + Fraction(us - ys, (366 if _is_leap(y) else 365) * DAY)


# ------------------------------------------------------------------------------------------------ scale_to_test_date
_REGION = []


def _unit_forecast(a, b):
    import numpy
    from csep.core.forecasts import GriddedForecast
    from csep.core.regions import CartesianGrid2D
    if not _REGION:
        _REGION.append(CartesianGrid2D.from_origins(numpy.array([[0.0, 0.0]]), dh=0.1, magnitudes=numpy.array([4.0])))
    region = _REGION[0]
    return GriddedForecast(start_time=a, end_time=b, data=numpy.array([[1.0]]), region=region,
                           magnitudes=region.magnitudes, name="u")


@_guarded
def check_scale(ctx, s, e, tests, mode, tag):
    """tests: ascending test instants (microseconds) for ONE forecast object with period [s, e]"""
    run = ctx.run
    a, b = B._mk_dt(s, mode), B._mk_dt(e, mode)
    gf = _unit_forecast(a, b)
    if e - s < 1000:
        # a forecast period shorter than one millisecond: the two decimal years may be the same double (ZeroDivisionError today);
        # what happens then is outside the property - run for crashes of the harness only, recorded
        gf.scale(1)
        for t in tests:
            try:
                gf.scale_to_test_date(B._mk_dt(t, mode))
                run.count("scale:sub-millisecond-period:returns(not judged)")
            except Exception as ex:
                run.count(f"scale:sub-millisecond-period:{type(ex).__name__}(not judged)")
        return
    exp, trip = [], []
    prev = None
    ds = exact_decimal_year(s)
    dur = exact_decimal_year(e) - ds
    for t in tests:
        case = _case(kind="scale", us=[s, e, t], mode=mode, tag=tag)
        inside = s < t < e
        run.case(case, ("scale", s, e, t) if inside else None)
        gf.scale(1)
        try:
            res = gf.scale_to_test_date(B._mk_dt(t, mode))
            got = float(res.data[0, 0])
            exp.append("self" if (not inside and got == 1.0) else frac(got))
        except ZeroDivisionError:
            got = None
            exp.append("ZeroDivisionError")
        except Exception as ex:
            run.oracle_failure(case, f"scale_to_test_date raised {type(ex).__name__}: {ex}")
            prev = None
            continue
        trip += [s, e, t]
        if got is None:
            if dur >= Fraction(1, 10 ** 10):
                run.oracle_failure(case, "scale_to_test_date: ZeroDivisionError for a period of more than 3 ms")
            run.count("scale:zero-duration")
            prev = None
            continue
        if not inside:
            if got != 1.0:
                run.oracle_failure(case, f"scale_to_test_date at/outside the period's ends scales by {got!r}, not 1")
            run.count("scale:outside")
            continue
        run.count("scale:inside")
        if t + DAY < US_MAX and dur >= Fraction(1, 10 ** 9):
            q = (exact_decimal_year(t + DAY) - ds) / dur
            tol = Fraction(21, 10 ** 13) * (1 + q) / (dur - Fraction(21, 10 ** 13)) + Fraction(1, 10 ** 15) * q
            if abs(Fraction(got) - q) > tol:
                run.oracle_failure(case, f"scale_to_test_date scales by {got!r}; the exact decimal-year fraction of the "
                                         f"period (test date + 1 day) is {float(q)!r}")
        if not got > 0.0:
            if e - s >= 1000:
                run.oracle_failure(case, f"scale_to_test_date: factor {got!r} is not positive inside the period")
        if prev is not None and prev[0] <= t and prev[1] > got:
            run.oracle_failure(_case(kind="scale", us=[s, e, prev[0], t], mode=mode, tag=tag),
                               f"scale_to_test_date not monotone in the test date: {prev[0]} -> {prev[1]!r}, {t} -> {got!r}")
        prev = (t, got)
    if trip:
        info = _case(kind="scale", op="c15_scale", mode=mode, tag=tag, us=[s, e], inputs=tests, key="t")
        if dur >= Fraction(1, 10 ** 9):
            # the model reproduces the rounding of the three decimal_year calls; a factor within the error those roundings can
            # cause (and within the oracle's band around the exact fraction, checked above) is not a difference
            info["tol"] = (Fraction(84, 10 ** 13) / (dur - Fraction(42, 10 ** 13)), Fraction(84, 10 ** 13) / (dur - Fraction(42, 10 ** 13)))
        ctx.ask("c15_scale " + ",".join(map(str, trip)), exp, info)


def gen_scale(rng, lo, hi):
    s = rng.randrange(lo, hi - 3 * DAY)
    kind = rng.randrange(6)
    if kind == 0:
        e = s + rng.choice([1, 2, 3, 999, 1000, 1001, 31, 64])              # shorter than / at the float resolution
    elif kind == 1:
        e = s + rng.randrange(1000, 3 * DAY)
    else:
        e = min(hi - 2 * DAY, s + rng.randrange(DAY, 400 * 5 * DAY))
    e = max(e, s + 1)
    tests = {s, e, s - 1, e + 1, s + 1, e - 1, s + (e - s) // 2}
    for _ in range(6):
        tests.add(rng.randrange(s - 1000, e + 1000))
    t0 = rng.randrange(s, e + 1)
    tests.update(range(t0, t0 + 4))                                        # consecutive microseconds
    # year ends inside the period (the +1 day crosses them)
    y = dt_of(s, True).year
    ye = us_of(_dt.datetime(min(y + 1, 9998), 1, 1, tzinfo=UTC))
    tests.update([ye - DAY - 1, ye - DAY, ye - DAY + 1, ye - 1, ye])
    tests = sorted(t for t in tests if lo <= t and t + DAY < hi)
    return s, e, tests


# ------------------------------------------------------------------------------------------------ datetime statements
_OPS = {">": lambda x, v: x > v, "<": lambda x, v: x < v, ">=": lambda x, v: x >= v, "<=": lambda x, v: x <= v,
        "==": lambda x, v: x == v}


@_guarded
def check_stmt(ctx, us, zone, op, times, form, in_place, tag, text=None):
    """filter('datetime <op> <str(dt)>') on a catalog with the origin times `times` (epoch ms)"""
    from csep.core.catalogs import CSEPCatalog
    run = ctx.run
    s = text if text is not None else str(dt_of(us, bool(zone)))
    stmt = f"datetime {op} {s}"
    case = _case(kind="stmt", us=us, zone=zone, op=op, times=times, form=form, in_place=in_place, tag=tag, text=text)
    run.case(case, ("stmt", us, op, form) if text is None else None)
    rows = [(str(i), m, 0.0, 0.0, 0.0, 1.0) for i, m in enumerate(times)]
    cat = CSEPCatalog(data=rows)
    arg = stmt if form == "str" else ([stmt] if form == "list" else (stmt,))
    try:
        out = cat.filter(arg, in_place=in_place)
        kept = [int(x) for x in out.get_epoch_times()]
        exp = [str(x) for x in kept]
    except Exception as ex:
        kept, exp = None, "err"
        exn = type(ex).__name__
    if text is None and op in _OPS:
        if kept is None:
            run.oracle_failure(case, f"filter({stmt!r}) raised {exn}")
        else:
            thr = us // 1000
            want = [t for t in times if _OPS[op](t, thr)]
            if kept != want:
                run.oracle_failure(case, f"filter({stmt!r}) keeps origin times {kept[:8]}…; the events with origin_time {op} "
                                         f"{thr} (= datetime_to_utc_epoch of that datetime) are {want[:8]}…")
            if in_place and out is not cat:
                run.oracle_failure(case, "filter(in_place=True) did not return the catalog itself")
            if not in_place and [int(x) for x in cat.get_epoch_times()] != list(times):
                run.oracle_failure(case, "filter(in_place=False) changed the catalog it was called on")
        run.count(f"stmt:{form}:{'aware' if zone else 'naive'}")
    else:
        # a malformed statement is outside the property: refusing it (today) or reading it in a more forgiving way are both
        # fine; recorded, compared with the model only when both refuse
        run.count("stmt:malformed:" + ("raises" if kept is None else "accepted(not judged)"))
        if kept is not None:
            return
    ctx.ask("c15_stmt " + esc(stmt) + " " + (",".join(map(str, times)) or "-"), exp, dict(case, op="c15_stmt"))


def gen_stmt(rng, lo_ms, hi_ms):
    k = rng.randrange(5)
    ms = rng.randrange(lo_ms, hi_ms)
    us = [ms * 1000, ms * 1000 + rng.randrange(1000), ms // 1000 * 1000000, ms * 1000 + 999, ms * 1000 + 1][k]
    thr = us // 1000
    times = sorted({thr - 2, thr - 1, thr, thr + 1, thr + 2, thr + rng.randrange(-10 ** 6, 10 ** 6),
                    thr + rng.randrange(-10 ** 10, 10 ** 10)})
    if rng.random() < 0.3:
        rng.shuffle(times)
    if rng.random() < 0.1:
        times = []
    return us, rng.randrange(2), rng.choice(list(_OPS)), times, rng.choice(["str", "list", "tuple"]), bool(rng.randrange(2))


def malformed_statements(us):
    d = str(dt_of(us, False))
    date, time = d.split(" ")
    return [f">= {date}", f">=  {d}", f">= {date}T{time}", f"=> {d}", f">= {d} ", f">= {date} {time} x",
            f">= {date[:-1]}x {time}", f">= {date} {time}+00", f">= {date.replace('-', '/')} {time}", f">= {date} 24:00:00"]


# ------------------------------------------------------------------------------------------------ time members of from_dict
@_guarded
def check_nod(ctx, us, zone, member, tag):
    from csep.core.catalogs import CSEPCatalog
    run = ctx.run
    case = _case(kind="nod", us=us, zone=zone, member=member, tag=tag)
    run.case(case, ("nod", us, zone, member))
    cat = CSEPCatalog(data=[("a", 0, 0.0, 0.0, 0.0, 1.0), ("b", 5000, 0.0, 0.0, 0.0, 1.0)])
    d = cat.to_dict()
    aware = dt_of(us, True)
    s = str(dt_of(us, bool(zone)))
    others = [m for m in ("start_time", "end_time", "date_accessed") if m != member]
    d[member] = s
    d[others[0]] = None
    d[others[1]] = aware
    try:
        c2 = CSEPCatalog.from_dict(d)
        got = getattr(c2, member)
    except Exception as ex:
        run.oracle_failure(case, f"CSEPCatalog.from_dict with {member}={s!r} raised {type(ex).__name__}: {ex}")
        ctx.ask("c15_nod " + esc(s), "err", dict(case, op="c15_nod"))
        return
    if not isinstance(got, _dt.datetime) or got.tzinfo is None or got != aware:
        run.oracle_failure(case, f"CSEPCatalog.from_dict: {member}={s!r} came back as {got!r}, not the UTC datetime")
    if getattr(c2, others[0]) is not None or getattr(c2, others[1]) != aware:
        run.oracle_failure(case, f"CSEPCatalog.from_dict: None / datetime members came back as "
                                 f"{getattr(c2, others[0])!r} / {getattr(c2, others[1])!r}")
    run.count(f"nod:{member}")
    ctx.ask("c15_nod " + esc(s), str(us_of(got)) if isinstance(got, _dt.datetime) else "err", dict(case, op="c15_nod"))


# ------------------------------------------------------------------------------------------------ file names / separators
def _fmt_string(codes):
    c = [chr(x) for x in codes[:5]]
    f = f"%Y{c[0]}%m{c[1]}%d{c[2]}%H{c[3]}%M{c[4]}%S"
    return f + (chr(codes[5]) + "%f" if codes[5] >= 0 else "")


def _fmt_text(codes, dt):
    c = [chr(x) for x in codes[:5]]
    t = f"{dt.year:04d}{c[0]}{dt.month:02d}{c[1]}{dt.day:02d}{c[2]}{dt.hour:02d}{c[3]}{dt.minute:02d}{c[4]}{dt.second:02d}"
    return t + (chr(codes[5]) + f"{dt.microsecond:06d}" if codes[5] >= 0 else "")


@_guarded
def check_fname(ctx, us, codes, tag):
    """codes == FNAME_CODES: through csep.load_catalog_forecast(<file name>); always: the explicit-format calls"""
    import csep
    from csep.utils import time_utils as tu
    run = ctx.run
    if codes[5] < 0:
        us -= us % 1000000
    case = _case(kind="fname", us=us, codes=codes, tag=tag)
    run.case(case, ("fname", us, tuple(codes)))
    aware = dt_of(us, True)
    text = _fmt_text(codes, aware)
    fmt = _fmt_string(codes)
    cs = ",".join(map(str, codes))
    if aware.year >= 1000 and aware.strftime(fmt) != text:
        raise RuntimeError("harness: strftime disagrees with the hand-written text")
    ctx.ask(f"c15_fmtg {cs} {us}", text, dict(case, op="c15_fmtg"))
    try:
        d = tu.strptime_to_utc_datetime(text, format=fmt)
        ep = tu.strptime_to_utc_epoch(text, format=fmt)
    except Exception as ex:
        run.oracle_failure(case, f"strptime_to_utc_datetime({text!r}, format={fmt!r}) raised {type(ex).__name__}: {ex}")
        ctx.ask(f"c15_parseg {cs} {text}", "none", dict(case, op="c15_parseg"))
        return
    if d != aware or d.tzinfo is None or ep != us // 1000:
        run.oracle_failure(case, f"explicit format {fmt!r}: {text!r} parsed to {d!r} / {ep}, the datetime is {aware!r}")
    ctx.ask(f"c15_parseg {cs} {text}", str(us_of(d)), dict(case, op="c15_parseg"))
    run.count("fname:explicit-format")
    # a string of ANOTHER separator set must be rejected
    other = list(codes)
    other[3] = ord("!")
    try:
        tu.strptime_to_utc_datetime(_fmt_text(other, aware), format=fmt)
        run.count("fname:other-separator-accepted(not judged)")      # a more forgiving parser is not against the property
    except Exception:
        ctx.ask(f"c15_parseg {cs} {_fmt_text(other, aware)}", "none", dict(case, op="c15_parseg"))
    if list(codes) == FNAME_CODES:
        with tempfile.TemporaryDirectory(prefix="c15fn") as tmp:
            fn = os.path.join(tmp, f"model-x_{text}.csv")
            open(fn, "w").close()
            f = csep.load_catalog_forecast(fn)
            if f.start_time != aware or f.start_time is None or f.start_time.tzinfo is None or f.name != "model-x":
                run.oracle_failure(case, f"load_catalog_forecast({os.path.basename(fn)!r}): name/start_time = "
                                         f"{f.name!r} / {f.start_time!r}, the file name says {aware!r}")
            elif f.start_epoch != us // 1000:
                run.oracle_failure(case, f"load_catalog_forecast: start_epoch {f.start_epoch} != {us // 1000}")
        run.count("fname:load_catalog_forecast")


# ------------------------------------------------------------------------------------------------ decimal years, far range
@_guarded
def check_decimal_years_far(ctx, us_list, tag):
    """ascending instants anywhere in 0001..9999"""
    from csep.utils import time_utils as tu
    run = ctx.run
    keep, dys, inv_in, inv_out, inv_us = [], [], [], [], []
    prev = None
    for u in us_list:
        case = _case(kind="dyfar", us=u, tag=tag)
        run.case(case, ("dyfar", u))
        dt = dt_of(u, True)
        try:
            y = float(tu.decimal_year(dt))
        except Exception as e:
            run.oracle_failure(case, f"decimal_year raised {type(e).__name__}: {e}")
            prev = None
            continue
        keep.append(u); dys.append(frac(y))
        if not (dt.year <= y <= dt.year + 1):
            run.count("outside-quantifier:far-range-decimal-year-not-in-year")
        if abs(Fraction(y) - exact_decimal_year(u)) > Fraction(1, 10 ** 12):
            run.count("outside-quantifier:far-range-decimal-year-error-above-1e-12")
        if prev is not None:
            pu, py = prev
            if (u - pu >= 1000 and not py < y) or (u > pu and py > y):
                run.count("outside-quantifier:far-range-decimal-year-not-monotone")
        prev = (u, y)
        if 1.0 <= y < 9999.0:
            try:
                back = tu.decimal_year_to_utc_datetime(y)
                ub = us_of(back)
                if abs(ub - u) > 1000:
                    run.count("outside-quantifier:far-range-decimal-year-inverse-beyond-1ms")
                inv_in.append(frac(y)); inv_out.append(str(ub)); inv_us.append(u)
            except Exception:
                run.count("outside-quantifier:far-range-decimal-year-inverse-raised")
    run.count(f"dyfar:{tag}", len(us_list))
    for pu, pd in zip(B._chunks(keep, 1500), B._chunks(dys, 1500)):
        ctx.ask("c15_decyear " + ",".join(map(str, pu)), pd, _case(kind="dyfar", op="c15_decyear", tag=tag, inputs=pu))
    for pi, po, pu in zip(B._chunks(inv_in, 1500), B._chunks(inv_out, 1500), B._chunks(inv_us, 1500)):
        ctx.ask("c15_decyear_inv " + ",".join(pi), po, _case(kind="dyfar", op="c15_decyear_inv", tag=tag, inputs=pu))


# ------------------------------------------------------------------------------------------------ driver of the section
def run_calls(ctx, rng, quick, k=1.0):
    lo, hi = B.MS_LO * 1000, B.MS_HI * 1000
    n = max(1, int((60 if quick else 1200) * k))
    modes = ["naive", "utc", "zoneinfo"]
    for i in range(n):
        far = (i % 6 == 5)
        s, e, tests = gen_scale(rng, US_MIN + DAY if far else lo, US_MAX - DAY if far else hi)
        check_scale(ctx, s, e, tests, modes[i % 3], "far" if far else "scale")
    n = max(1, int((250 if quick else 5000) * k))
    for i in range(n):
        far = (i % 8 == 7)
        us, zone, op, times, form, ip = gen_stmt(rng, (US_MIN // 1000 + 1) if far else B.MS_LO, (US_MAX // 1000 - 1) if far else B.MS_HI)
        check_stmt(ctx, us, zone, op, times, form, ip, "stmt")
    for _ in range(max(1, int((4 if quick else 40) * k))):
        us = rng.randrange(lo, hi)
        for m in malformed_statements(us):
            op, text = m.split(" ", 1)
            check_stmt(ctx, us, 0, op, [us // 1000 - 1, us // 1000 + 1], "str", False, "malformed", text=text)
    n = max(1, int((40 if quick else 800) * k))
    for i in range(n):
        us = [rng.randrange(lo, hi), rng.randrange(B.MS_LO, B.MS_HI) * 1000, rng.randrange(lo // 10 ** 6, hi // 10 ** 6) * 10 ** 6,
              rng.randrange(US_MIN, US_MAX)][i % 4]
        check_nod(ctx, us, rng.randrange(2), rng.choice(["start_time", "end_time", "date_accessed"]), "nod")
    n = max(1, int((60 if quick else 1200) * k))
    for i in range(n):
        us = rng.randrange(lo, hi) if i % 3 else rng.randrange(US_MIN, US_MAX)
        if i % 2 == 0:
            codes = list(FNAME_CODES)
        else:
            codes = [ord(rng.choice(SEP_CHARS)) for _ in range(5)] + [rng.choice([-1, ord(rng.choice(SEP_CHARS))])]
        check_fname(ctx, us, codes, "fname")
    # decimal years on the full range: year ends (1 ms lattice and every microsecond), uniform
    years = [1, 2, 4, 99, 100, 400, 999, 1000, 1582, 1600, 1899, 2201, 2400, 4095, 4096, 8191, 8192, 9996, 9997, 9998] + \
            [rng.randrange(1, 9998) for _ in range(max(1, int((4 if quick else 60) * k)))]
    for y in years:
        c = us_of(_dt.datetime(y + 1, 1, 1, tzinfo=UTC))
        check_decimal_years_far(ctx, [c + 1000 * d for d in range(-150, 151)], "lattice-year-end")
        check_decimal_years_far(ctx, list(range(c - 60, c + 60)), "us-year-end")
    check_decimal_years_far(ctx, list(range(US_MAX - 400, US_MAX)), "last-us-of-9999")
    check_decimal_years_far(ctx, list(range(US_MIN, US_MIN + 200)), "first-us-of-0001")
    check_decimal_years_far(ctx, sorted(set(rng.randrange(US_MIN, US_MAX) for _ in range(max(10, int((4000 if quick else 80000) * k))))),
                            "uniform")
    # round 6: strptime at character level with ANY field widths (general backtracking matcher, op c15_strp)
    for _ in range(max(1, int((1500 if quick else 30000) * k))):
        check_strp(ctx, rng.randrange(2 ** 31), "strp")
    # round 6: keyword / positional call shapes, other numeric types, datetime subclasses, numeric extremes, caller-owned objects
    for i in range(max(1, int((60 if quick else 1500) * k))):
        us = rng.randrange(lo, hi) if i % 4 else rng.choice([0, -1, 1, 999, -1000, 1000 * B.MS_LO, 1000 * B.MS_HI - 1])
        check_shapes(ctx, us, rng.randrange(2 ** 31), "shapes")
    check_extreme_epochs(ctx, "extremes")
    # round 7: copies / pickles before use, state after rejected calls, user subclasses, global numeric state, two roles, 0/1/2 events
    for _ in range(max(1, int((60 if quick else 1500) * k))):
        check_round7(ctx, rng.randrange(2 ** 31), "round7")
    for _ in range(max(1, int((3 if quick else 30) * k))):
        check_caller_objects(ctx, rng.randrange(2 ** 31), "caller")
    # every microsecond across second / minute / hour / day / month carries in the property's range
    for _ in range(max(1, int((6 if quick else 100) * k))):
        base = rng.randrange(B.MS_LO // 1000, B.MS_HI // 1000) * 10 ** 6
        base -= base % rng.choice([10 ** 6, 60 * 10 ** 6, 3600 * 10 ** 6, DAY])
        B.check_decimal_years(ctx, list(range(base - 40, base + 40)), "us-carry")


def replay(ctx, case):
    kind = case.get("kind")
    if kind == "round7":
        check_round7(ctx, int(case["seed"]), "replay")
    elif kind == "strp":
        check_strp(ctx, int(case["seed"]), "replay")
    elif kind == "shapes15":
        check_shapes(ctx, int(case["us"]), int(case["seed"]), "replay")
    elif kind == "extreme15":
        check_extreme_epochs(ctx, "replay")
    elif kind == "caller15":
        check_caller_objects(ctx, int(case["seed"]), "replay")
    elif kind == "scale":
        u = case["us"]
        check_scale(ctx, int(u[0]), int(u[1]), [int(x) for x in (u[2:] or [case.get("t")])], case.get("mode", "utc"), "replay")
    elif kind == "stmt":
        check_stmt(ctx, int(case["us"]), case["zone"], case["op"], [int(x) for x in case["times"]], case["form"],
                   case["in_place"], "replay", text=case.get("text"))
    elif kind == "nod":
        check_nod(ctx, int(case["us"]), case["zone"], case["member"], "replay")
    elif kind == "fname":
        check_fname(ctx, int(case["us"]), [int(x) for x in case["codes"]], "replay")
    elif kind == "dyfar":
        check_decimal_years_far(ctx, [int(case["us"])] if not isinstance(case["us"], list) else [int(x) for x in case["us"]], "replay")
    else:
        return False
    return True


# ------------------------------------------------------------------------------------------------ round 6: call shapes, extremes
class _MyDatetime(_dt.datetime):
    """a user subclass of datetime"""


@_guarded
def check_shapes(ctx, us, seed, tag):
    """the conversions called with KEYWORD arguments / other argument types / datetime subclasses: same exact answers"""
    import random
    import warnings
    import numpy
    from csep.utils import time_utils as tu
    run = ctx.run
    rng = random.Random(seed)
    case = _case(kind="shapes15", us=us, seed=seed, tag=tag)
    run.case(case, ("shapes15", us, seed % 7))
    ms = us // 1000
    aware, naive = dt_of(us, True), dt_of(us, False)
    whole = dt_of(ms * 1000, True)

    def want(label, got, exp):
        if got != exp or (isinstance(exp, _dt.datetime) and (getattr(got, "tzinfo", None) is None)):
            run.oracle_failure(dict(case, call=label), f"{label} = {got!r}, expected {exp!r}")

    def call(label, fn, exp):
        try:
            want(label, fn(), exp)
        except Exception as ex:
            run.oracle_failure(dict(case, call=label), f"{label} raised {type(ex).__name__}: {ex}")
        run.count("shapes15:call")

    with warnings.catch_warnings():
        warnings.simplefilter("default")        # a warning alone is never a violation (a rewrite may use a call that warns)
        s = str(rng.choice([aware, naive]))
        t = str(naive).replace(" ", "T")
        tf = "%Y-%m-%dT%H:%M:%S.%f" if "." in t else "%Y-%m-%dT%H:%M:%S"
        call("epoch_time_to_utc_datetime(epoch_time_milli=ms)", lambda: tu.epoch_time_to_utc_datetime(epoch_time_milli=ms), whole)
        call("datetime_to_utc_epoch(dt=aware)", lambda: tu.datetime_to_utc_epoch(dt=aware), ms)
        call("datetime_to_utc_epoch(dt=naive)", lambda: tu.datetime_to_utc_epoch(dt=naive), ms)
        call("strptime_to_utc_epoch(time_string=s)", lambda: tu.strptime_to_utc_epoch(time_string=s), ms)
        call("strptime_to_utc_datetime(time_string=s)", lambda: tu.strptime_to_utc_datetime(time_string=s), aware)
        call("strptime_to_utc_epoch(format=f, time_string=t)", lambda: tu.strptime_to_utc_epoch(format=tf, time_string=t), ms)
        call("strptime_to_utc_epoch(t, f) positional", lambda: tu.strptime_to_utc_epoch(t, tf), ms)
        call("strptime_to_utc_datetime(t, format=f)", lambda: tu.strptime_to_utc_datetime(t, format=tf), aware)
        call("strptime_to_utc_datetime(t, f) positional", lambda: tu.strptime_to_utc_datetime(t, tf), aware)
        call("create_utc_datetime(dt=naive)", lambda: tu.create_utc_datetime(dt=naive), aware)
        call("millis_to_days(millis=86400000*k)", lambda: tu.millis_to_days(millis=86400000 * (ms % 1000)), float(ms % 1000))
        call("days_to_millis(days=k)", lambda: tu.days_to_millis(days=ms % 1000), 86400000 * (ms % 1000))
        call("timedelta_from_years(time_in_years=k)", lambda: tu.timedelta_from_years(time_in_years=ms % 50),
             _dt.timedelta(seconds=31557600 * (ms % 50)))
        try:
            y = tu.decimal_year(test_date=aware)
            y2 = tu.decimal_year(aware)
            if y != y2 or not (aware.year <= y <= aware.year + 1):
                run.oracle_failure(dict(case, call="decimal_year(test_date=)"), f"decimal_year(test_date=dt) = {y!r}, positional {y2!r}")
            if y < 9999:
                b1 = tu.decimal_year_to_utc_datetime(decimal_date=y)
                e1 = tu.decimal_year_to_utc_epoch(decimal_date=y)
                if abs(us_of(b1) - us) > 1000 or abs(e1 - ms) > 1 or b1.tzinfo is None:
                    run.oracle_failure(dict(case, call="decimal_year_to_utc_datetime(decimal_date=)"),
                                       f"inverse of {y!r} by keyword: {b1!r} / {e1}, the instant is {aware!r}")
        except Exception as ex:
            run.oracle_failure(dict(case, call="decimal_year keywords"), f"decimal-year call by keyword raised {type(ex).__name__}: {ex}")
        # other numeric types for the epoch
        forms = [("float", float(ms)), ("numpy.float64", numpy.float64(ms)), ("numpy.int64", numpy.int64(ms))]
        if -2 ** 31 <= ms < 2 ** 31:
            forms.append(("numpy.int32", numpy.int32(ms)))
        if ms >= 0:
            forms.append(("numpy.uint64", numpy.uint64(ms)))
        for name, v in forms:
            call(f"epoch_time_to_utc_datetime({name})", lambda v=v: tu.epoch_time_to_utc_datetime(v), whole)
        # datetime subclasses
        subs = [("user subclass", _MyDatetime(aware.year, aware.month, aware.day, aware.hour, aware.minute, aware.second,
                                              aware.microsecond, tzinfo=UTC)),
                ("user subclass naive", _MyDatetime(naive.year, naive.month, naive.day, naive.hour, naive.minute, naive.second,
                                                    naive.microsecond)),
                ("HistoricTime", tu.HistoricTime(naive.year, naive.month, naive.day, naive.hour, naive.minute, naive.second,
                                                 naive.microsecond))]
        if 1700 < aware.year < 2250:
            import pandas
            subs += [("pandas.Timestamp UTC", pandas.Timestamp(aware)), ("pandas.Timestamp naive", pandas.Timestamp(naive))]
        for name, d in subs:
            call(f"datetime_to_utc_epoch({name})", lambda d=d: tu.datetime_to_utc_epoch(d), ms)
            try:
                if tu.decimal_year(d) != tu.decimal_year(aware):
                    run.oracle_failure(dict(case, call=f"decimal_year({name})"), f"decimal_year of a {name} differs from the plain datetime's")
            except Exception as ex:
                run.oracle_failure(dict(case, call=f"decimal_year({name})"), f"decimal_year({name}) raised {type(ex).__name__}: {ex}")


@_guarded
def check_extreme_epochs(ctx, tag):
    """numeric extremes of the epoch argument: signed zeros, subnormals, booleans, small integer types.
    (numpy.float32 / float16 arguments make datetime.fromtimestamp / timedelta raise TypeError in unchanged pyCSEP: a float32
    cannot hold epoch milliseconds or a decimal year to the millisecond anyway - outside the quantifier, not generated)"""
    import numpy
    from csep.utils import time_utils as tu
    run = ctx.run
    epoch = dt_of(0, True)
    vals = [("-0.0", -0.0, 0), ("0.0", 0.0, 0), ("5e-324", 5e-324, 0), ("-5e-324", -5e-324, 0), ("numpy.float64(-0.0)", numpy.float64(-0.0), 0),
            ("True", True, 1000), ("False", False, 0), ("numpy.int8(-1)", numpy.int8(-1), -1000), ("numpy.int16(999)", numpy.int16(999), 999000),
            ("numpy.uint8(255)", numpy.uint8(255), 255000), ("0.5", 0.5, 500), ("-0.5", -0.5, -500), ("1e-3", 1e-3, 1), ("-1e-3", -1e-3, -1)]
    for name, v, want_us in vals:
        case = _case(kind="extreme15", value=name, tag=tag)
        run.case(case, ("extreme15", name))
        try:
            d = tu.epoch_time_to_utc_datetime(v)
        except Exception as ex:
            run.oracle_failure(case, f"epoch_time_to_utc_datetime({name}) raised {type(ex).__name__}: {ex}")
            continue
        if d is None or d.tzinfo is None or us_of(d) != want_us:
            run.oracle_failure(case, f"epoch_time_to_utc_datetime({name}) = {d!r}; the instant is {want_us} us after the epoch ({epoch.isoformat()})")
        run.count("extreme15:epoch")
    for name, y, want in [("2000 (int)", 2000, dt_of(946684800000000, True)), ("numpy.int64(1999)", numpy.int64(1999), dt_of(915148800000000, True)),
                          ("numpy.float64(2000.0)", numpy.float64(2000.0), dt_of(946684800000000, True)),
                          ("2001.5", 2001.5, dt_of(978307200000000 + 1825 * 8640000000, True))]:
        case = _case(kind="extreme15", value=name, tag=tag)
        run.case(case, ("extreme15", name))
        try:
            d = tu.decimal_year_to_utc_datetime(y)
            e = tu.decimal_year_to_utc_epoch(y)
        except Exception as ex:
            if isinstance(y, float):
                run.oracle_failure(case, f"decimal_year_to_utc_datetime({name}) raised {type(ex).__name__}: {ex}")
            else:
                # a decimal year is a float (what decimal_year returns; "all decimal years" of the property); whether an INTEGER-typed
                # argument is accepted is incidental (timedelta refuses numpy integers after a rewrite with divmod): recorded.
                # When it IS accepted the answer must be right (below).
                run.count(f"extreme15:integer-typed-decimal-year-refused:{type(ex).__name__}(not judged)")
            continue
        if d.tzinfo is None or abs(us_of(d) - us_of(want)) > 1000 or abs(e - us_of(want) // 1000) > 1:
            run.oracle_failure(case, f"decimal_year_to_utc_datetime({name}) = {d!r} / {e}; the instant is {want.isoformat()}")
        run.count("extreme15:decimal-year")


@_guarded
def check_caller_objects(ctx, seed, tag):
    """objects the caller hands over are left alone; block-boundary sizes; relative file names"""
    import random
    import numpy
    import csep
    from csep.core.catalogs import CSEPCatalog
    run = ctx.run
    rng = random.Random(seed)
    case = _case(kind="caller15", seed=seed, tag=tag)
    run.case(case, ("caller15", seed % 5))
    n = rng.choice([65535, 65536, 65537, 3])
    base = rng.randrange(B.MS_LO, B.MS_HI - 10 ** 9)
    arr = numpy.zeros(n, dtype=CSEPCatalog.dtype)
    arr["origin_time"] = base + numpy.arange(n, dtype=numpy.int64) * 997
    arr["magnitude"] = 1.0
    keep = arr["origin_time"].copy()
    cat = CSEPCatalog(data=arr)
    dts = cat.get_datetimes()
    if len(dts) != n:
        run.oracle_failure(case, f"get_datetimes of {n} events returned {len(dts)} datetimes")
    else:
        for k in sorted({0, 1, n // 2, n - 2, n - 1, min(n - 1, 65535), min(n - 1, 65536)}):
            if us_of(dts[k]) != 1000 * int(keep[k]) or dts[k].tzinfo is None:
                run.oracle_failure(dict(case, event=k), f"get_datetimes()[{k}] of {n} events = {dts[k]!r}, origin time {int(keep[k])} ms")
                break
    if not numpy.array_equal(arr["origin_time"], keep) or not numpy.array_equal(cat.get_epoch_times(), keep):
        run.oracle_failure(case, "get_datetimes / the catalog constructor changed the origin times the caller gave")
    # what get_datetimes handed out is the caller's: editing it must not show in the next call
    if len(dts) == n and n:
        dts[0] = None
        dts.reverse()
        again = cat.get_datetimes()
        if len(again) != n or us_of(again[0]) != 1000 * int(keep[0]) or us_of(again[-1]) != 1000 * int(keep[-1]):
            run.oracle_failure(dict(case, what="returned-list-edited"), "after the caller edited the list get_datetimes() returned, the next call differs")
    # the caller changes the event times IN PLACE (its own array / what get_epoch_times returned): every derived value follows
    for how in ("caller's array", "get_epoch_times() result"):
        shift = rng.randrange(1, 10 ** 6) * rng.choice([1, -1])
        try:
            if how == "caller's array":
                arr["origin_time"] += shift
            else:
                t = cat.get_epoch_times()
                t += shift
            now = [int(x) for x in cat.get_epoch_times()]
            d2 = cat.get_datetimes()
            bad = [k for k in sorted({0, n // 2, n - 1}) if us_of(d2[k]) != 1000 * now[k]]
            if len(d2) != len(now) or bad:
                k = bad[0] if bad else 0
                run.oracle_failure(dict(case, what="in-place-shift", how=how),
                                   f"after the {how} was shifted in place by {shift} ms: get_epoch_times()[{k}] = {now[k]} but "
                                   f"get_datetimes()[{k}] = {d2[k]!r}")
            df = cat.to_dataframe(with_datetime=True)
            if us_of(df["datetime"].iloc[0].to_pydatetime()) != 1000 * now[0]:
                run.oracle_failure(dict(case, what="in-place-shift", how=how), "to_dataframe(with_datetime=True) does not follow the shifted origin times")
        except Exception as ex:
            run.oracle_failure(dict(case, what="in-place-shift", how=how), f"in-place shift ({how}): {type(ex).__name__}: {ex}")
        run.count("caller15:in-place-shift")
    keep = numpy.array([int(x) for x in cat.get_epoch_times()], dtype=numpy.int64)
    thr = int(keep[n // 2])
    stmts = [f"datetime >= {dt_of(1000 * thr, False)}", f"datetime < {dt_of(1000 * int(keep[-1]) + 1000, True)}"]
    snap = list(stmts)
    out = cat.filter(stmts, in_place=False)
    if stmts != snap:
        run.oracle_failure(case, "filter changed the list of statements it was given")
    if [int(x) for x in out.get_epoch_times()] != [int(x) for x in keep if x >= thr]:
        run.oracle_failure(case, f"filter(statements=[two datetime statements]) on {n} events keeps {out.get_number_of_events()} events")
    k2 = cat.filter(statements=stmts[0], in_place=False)
    k3 = cat.filter(stmts[0], False)
    if [int(x) for x in k2.get_epoch_times()] != [int(x) for x in k3.get_epoch_times()] or k2.get_number_of_events() != n - n // 2:
        run.oracle_failure(case, "filter(statements=, in_place=) by keyword differs from the positional call")
    # a relative file name under another working directory
    us = rng.randrange(B.MS_LO, B.MS_HI) * 1000 + rng.randrange(1000)
    text = _fmt_text(FNAME_CODES, dt_of(us, True))
    old = os.getcwd()
    with tempfile.TemporaryDirectory(prefix="c15cwd") as tmp:
        try:
            os.chdir(tmp)
            os.makedirs("sub", exist_ok=True)
            rel = os.path.join("sub", f"m-1_{text}.csv")
            open(rel, "w").close()
            f = csep.load_catalog_forecast(rel)
            f2 = csep.load_catalog_forecast(fname=os.path.join(tmp, rel))
        finally:
            os.chdir(old)
        for g in (f, f2):
            if g.start_time != dt_of(us, True) or g.name != "m-1":
                run.oracle_failure(dict(case, us=us), f"load_catalog_forecast({rel!r}) under another working directory: "
                                                      f"{g.name!r} / {g.start_time!r}")
    run.count(f"caller15:{n}-events")


# ------------------------------------------------------------------------------------------------ strptime with ANY field widths
LIB_FORMATS = ["%Y-%m-%d %H:%M:%S.%f", "%Y-%m-%dT%H:%M:%S.%f", "%Y-%m-%dT%H:%M:%S", "%Y-%m-%dT%H-%M-%S-%f", "%Y/%m/%d %H:%M:%S.%f",
               "%Y-%m-%d %H:%M:%S", "%Y-%m-%d %H:%M:%S%z", "%Y-%m-%d %H:%M:%S.%f%z"]


def _hex(s):
    return s.encode("utf-8").hex() or "-"


def gen_strp_case(rng):
    """a format of the library (or a variation) and a string: canonical, un-padded fields, other blank runs, zone suffixes,
    out-of-range fields, truncations, garbage"""
    fmt = rng.choice(LIB_FORMATS)
    if rng.random() < 0.1:
        fmt = rng.choice(["%Y-%m-%d", "%H:%M", "%Y%m%d%H%M%S", "%d/%m/%Y %H:%M", "%Y-%m-%d  %H:%M:%S", "%Y-%m-%d %H:%M:%S %z", "%Y %%", "%Y-%m-%d %Q",
                          "%Y-%Y", "%m%d", "%H%M%S%f", "%f", "%z", "%Y-%m-%dt%H:%M:%S", "%"])
    us = rng.choice([rng.randrange(US_MIN, US_MAX), rng.randrange(B.MS_LO, B.MS_HI) * 1000, rng.randrange(B.MS_LO * 1000, B.MS_HI * 1000)])
    dt = dt_of(us, False)
    pad = rng.random() < 0.5
    w = (lambda v, n: f"{v:0{n}d}") if pad else (lambda v, n: (f"{v:0{n}d}" if rng.random() < 0.5 else str(v)))
    fields = dict(Y=f"{dt.year:04d}", m=w(dt.month, 2), d=w(dt.day, 2), H=w(dt.hour, 2), M=w(dt.minute, 2), S=w(dt.second, 2),
                  f=f"{dt.microsecond:06d}"[:rng.choice([6, 6, 6, 3, 1, 2, 4, 5])] + rng.choice(["", "", "", "7"]),
                  z=rng.choice(["+00:00", "+0000", "+05:30", "-08", "Z", "z", "+0530", "-00:00", "+00:00:00", "+01:02:03.5", "+1:00", "", "UTC"]))
    k = rng.random()
    if k < 0.12:
        key = rng.choice("mdHMS")
        fields[key] = rng.choice({"m": ["0", "00", "13", "1", "9"], "d": ["0", "00", "30", "31", "32", " 5", "29"], "H": ["24", "0", "9", "23"],
                                  "M": ["60", "0", "7", "59"], "S": ["60", "61", "62", "0", "5"]}[key])
        if key == "d" and fields["d"] in ("30", "31", "29"):
            fields["m"] = rng.choice(["02", "2", "04", "12"])
    out, i = [], 0
    while i < len(fmt):
        c = fmt[i]
        if c == "%" and i + 1 < len(fmt):
            out.append(fields.get(fmt[i + 1], "%" if fmt[i + 1] == "%" else "?"))
            i += 2
        elif c == " ":
            out.append(rng.choice([" ", " ", " ", "  ", "\t", " \n ", ""]))
            i += 1
        else:
            out.append(c if rng.random() < 0.97 else rng.choice([c.lower(), c.upper(), "x"]))
            i += 1
    s = "".join(out)
    k = rng.random()
    if k < 0.04:
        s = s[:rng.randrange(0, len(s) + 1)]
    elif k < 0.08:
        s = s + rng.choice([" ", "x", "0", ".5", "+00:00"])
    elif k < 0.1:
        s = rng.choice([" ", ""]) + s
    return fmt, s


@_guarded
def check_strp(ctx, seed, tag):
    import random
    from csep.utils import time_utils as tu
    run = ctx.run
    rng = random.Random(seed)
    fmt, s = gen_strp_case(rng)
    case = _case(kind="strp", seed=seed, format=fmt, string=s, tag=tag)
    run.case(case, ("strp", fmt, len(s), s[:12]))
    try:
        d = tu.strptime_to_utc_datetime(s, format=fmt)
        got_dt = str(us_of(d))
    except Exception:
        d, got_dt = None, "none"
    try:
        got_ep = str(tu.strptime_to_utc_epoch(s, format=fmt))
    except Exception:
        got_ep = "none"
    if d is not None:
        if d.tzinfo is None or got_ep != str(us_of(d) // 1000):
            run.oracle_failure(case, f"strptime_to_utc_datetime({s!r}, {fmt!r}) = {d!r} but strptime_to_utc_epoch = {got_ep}")
    run.count("strp:" + ("parsed" if d is not None else "refused"))
    if any(ord(c) > 127 for c in s + fmt):
        return
    ctx.ask(f"c15_strp dt {_hex(fmt)} {_hex(s)}", got_dt, dict(case, op="c15_strp dt"))
    ctx.ask(f"c15_strp epoch {_hex(fmt)} {_hex(s)}", got_ep, dict(case, op="c15_strp epoch"))


# ------------------------------------------------------------------------------------------------ round 7: classes (h) … (n)
def _user_catalog_classes():
    """user catalogs overriding the documented accessor get_epoch_times() CONSISTENTLY: the accessor is the source of truth"""
    from csep.core.catalogs import CSEPCatalog

    class SecondsCatalog(CSEPCatalog):
        """the origin_time column holds whole SECONDS; the accessor returns milliseconds"""
        def get_epoch_times(self):
            return self.catalog["origin_time"] * 1000

    class OffsetCatalog(CSEPCatalog):
        """stored times carry a clock offset of 37 s"""
        def get_epoch_times(self):
            return self.catalog["origin_time"] - 37000

    class ViewCatalog(CSEPCatalog):
        """the accessor returns a shifted COPY as int64 ndarray of another byte order than the column (an ndarray, like the base class)"""
        def get_epoch_times(self):
            return (self.catalog["origin_time"].astype(">i8") + 1)

    return [("seconds", SecondsCatalog, lambda t: t * 1000, 1000), ("offset", OffsetCatalog, lambda t: t - 37000, 1),
            ("big-endian+1", ViewCatalog, lambda t: t + 1, 1)]
    # (an accessor returning a python LIST is not generated: the base class returns an ndarray and callers may rely on that)


@_guarded
def check_round7(ctx, seed, tag):
    """(h) copies / pickles before use, (i) state after a caught exception, (j) user subclasses, (k) global numeric state,
    (l) one object in two roles, (m) degenerate counts — on the time-derived values of catalogs and forecasts and on the conversions"""
    import copy
    import decimal
    import pickle
    import random
    import numpy
    from csep.core.catalogs import CSEPCatalog
    from csep.core.forecasts import CatalogForecast
    from csep.utils import time_utils as tu
    run = ctx.run
    rng = random.Random(seed)
    case = _case(kind="round7", seed=seed, tag=tag)
    run.case(case, ("round7", seed % 11))

    def fail(what, msg):
        run.oracle_failure(dict(case, what=what), msg)

    n = rng.choice([0, 1, 2, 2, 3, 7, 40])                                   # (m) degenerate counts included
    # ---- (j) user subclass overriding get_epoch_times
    name, cls, acc, unit = rng.choice(_user_catalog_classes())
    stored = sorted(rng.randrange(B.MS_LO // unit + 40, B.MS_HI // unit - 40) for _ in range(n))
    if rng.random() < 0.3:
        rng.shuffle(stored)
    cat = cls(data=[(str(i), t, 0.0, 0.0, 0.0, 1.0) for i, t in enumerate(stored)])
    want = [acc(t) for t in stored]

    def judge_catalog(c, how):
        try:
            got_t = [int(x) for x in c.get_epoch_times()]
            dts = c.get_datetimes()
        except Exception as ex:
            fail(how, f"{how}: {type(ex).__name__}: {ex}")
            return
        if got_t != want:
            fail(how, f"{how}: get_epoch_times() = {got_t[:4]}, the accessor's values are {want[:4]}")
        if len(dts) != len(want) or any(d is None or d.tzinfo is None or us_of(d) != 1000 * w for d, w in zip(dts, want)):
            fail(how, f"{how} ({name} catalog, {n} events): get_datetimes() = {[str(d) for d in dts[:3]]} does not follow "
                      f"get_epoch_times() = {want[:3]}")
        if want:
            if c.start_time is None or us_of(c.start_time) != 1000 * min(want) or us_of(c.end_time) != 1000 * max(want):
                fail(how, f"{how}: start_time / end_time {c.start_time} / {c.end_time} do not follow the accessor ({min(want)}, {max(want)})")
        elif c.start_time is not None or c.end_time is not None:
            fail(how, f"{how}: an empty catalog has start_time {c.start_time!r}")
        run.count(f"round7:catalog:{how.split(':')[0]}")
    judge_catalog(cat, "user-subclass")
    # ---- (h) copies before use
    for how, f in (("copy.copy", copy.copy), ("copy.deepcopy", copy.deepcopy), ("pickle", lambda x: pickle.loads(pickle.dumps(x)))):
        try:
            c2 = f(cat)
        except Exception as ex:
            run.count(f"round7:copy-form-unavailable:{how}:{type(ex).__name__}")
            continue
        judge_catalog(c2, f"{how}: of a user catalog")
    plain = CSEPCatalog(data=[(str(i), w, 0.0, 0.0, 0.0, 1.0) for i, w in enumerate(want)])
    judge_catalog(rng.choice([copy.copy, copy.deepcopy, lambda x: pickle.loads(pickle.dumps(x))])(plain), "copy: of a library catalog")
    us = rng.randrange(B.MS_LO, B.MS_HI) * 1000 + rng.randrange(1000)
    for how, f in (("copy.copy", copy.copy), ("copy.deepcopy", copy.deepcopy), ("pickle", lambda x: pickle.loads(pickle.dumps(x)))):
        d = f(B._mk_dt(us, rng.choice(["naive", "utc", "zoneinfo"])))
        if tu.datetime_to_utc_epoch(d) != us // 1000 or tu.decimal_year(d) != tu.decimal_year(dt_of(us, True)):
            fail(how, f"a {how} of a datetime converts differently")
    # ---- (l) one object in two roles: one catalog member of two forecasts, one datetime as start of both
    a, b_ = dt_of(us - us % 1000, True), dt_of(us - us % 1000 + 86400000000 * rng.randrange(1, 400), True)
    try:
        f1 = CatalogForecast(catalogs=[plain], start_time=a, end_time=b_, name="one")
        f2 = CatalogForecast(catalogs=[plain, plain], start_time=a, end_time=a, name="two")
        if f1.start_epoch != us // 1000 or f2.start_epoch != us // 1000 or f2.end_epoch != us // 1000 \
                or f1.end_epoch != us_of(b_) // 1000:
            fail("two-roles", "one datetime / catalog shared by two forecasts: start_epoch / end_epoch differ from the datetimes' milliseconds")
    except Exception as ex:
        fail("two-roles", f"forecasts sharing a catalog / a datetime: {type(ex).__name__}: {ex}")
    # ---- (i) state after a caught exception: a rejected call, then the legal ones
    rejected = 0
    for bad in (lambda: tu.datetime_to_utc_epoch(B._mk_dt(us, "offset:5")), lambda: tu.strptime_to_utc_epoch("2010-13-45 99:00:00"),
                lambda: tu.strptime_to_utc_datetime("not a time", format="%Y-%m-%dT%H:%M:%S"), lambda: tu.decimal_year("x"),
                lambda: tu.epoch_time_to_utc_datetime("12"), lambda: plain.filter("datetime >= nonsense"),
                lambda: plain.filter(["datetime >= " + str(dt_of(us, False)), "datetime ~ oops"], in_place=True)):
        try:
            bad()
        except Exception:
            rejected += 1
    run.count("round7:rejected-calls", rejected)
    judge_catalog(plain, "after-rejected-calls")
    s = str(dt_of(us, rng.random() < 0.5))
    try:
        if tu.strptime_to_utc_epoch(s) != us // 1000 or us_of(tu.strptime_to_utc_datetime(s)) != us \
                or tu.datetime_to_utc_epoch(dt_of(us, True)) != us // 1000 or us_of(tu.epoch_time_to_utc_datetime(us // 1000)) != us - us % 1000:
            fail("after-rejected-calls", "a conversion gives another answer after an earlier call was rejected")
        if want:
            thr = sorted(want)[len(want) // 2]
            kept = plain.filter(f"datetime >= {dt_of(1000 * thr, False)}", in_place=False)
            if sorted(int(x) for x in kept.get_epoch_times()) != sorted(w for w in want if w >= thr):
                fail("after-rejected-calls", "a datetime statement selects other events after malformed statements were rejected")
    except Exception as ex:
        fail("after-rejected-calls", f"legal call after rejected ones: {type(ex).__name__}: {ex}")
    # ---- (k) global numeric state
    with numpy.errstate(all="raise"), decimal.localcontext() as dctx:
        dctx.prec = rng.randrange(2, 7)
        try:
            y = tu.decimal_year(dt_of(us, True))
            ok = (tu.datetime_to_utc_epoch(dt_of(us, False)) == us // 1000 and us_of(tu.epoch_time_to_utc_datetime(us // 1000)) == us - us % 1000
                  and tu.strptime_to_utc_epoch(s) == us // 1000 and abs(us_of(tu.decimal_year_to_utc_datetime(y)) - us) < 1000
                  and y == tu.decimal_year(dt_of(us, True)))
            if not ok:
                fail("numeric-state", "a conversion depends on numpy's error state / the decimal context")
        except Exception as ex:
            fail("numeric-state", f"under numpy.errstate(all='raise') and decimal prec {dctx.prec}: {type(ex).__name__}: {ex}")
        judge_catalog(plain, "numeric-state")
