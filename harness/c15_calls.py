"""C15, round 4 — call sites of the time conversions inside the anchored files, and decimal years on datetime's full range.

Model: lean/PycsepVerif/Model/TimeCalls.lean (driver ops of Drive/C15b.lean); theorems: Properties/C15_Calls.lean.
  scale   GriddedForecast.scale_to_test_date (forecasts.py:257): early returns, three decimal_year calls, two float
          subtractions, one float division — the factor is read from `data` of a forecast whose only rate is 1.0
          (1.0 * f == f exactly); bit-exact against `scaleToTestDate`; oracle: exact rational fraction of the period
          (+1 day, as documented) within the proved decimal-year error, non-decreasing in the test instant (scale_mono).
  stmt    catalog.filter('datetime <op> <date> <time>') as str / list / tuple, in_place or not (catalogs.py:518):
          kept origin times == {t : t <op> floor-millisecond(dt)}; malformed statements must raise; vs `filterDatetime`.
  nod     the three time members of CSEPCatalog.from_dict (catalogs.py:172, _none_or_datetime): str(dt) of naive /
          aware datetimes, a datetime object, None.
  fname   start time in the name of a catalog-forecast file (`__init__`.py:518, format %Y-%m-%dT%H-%M-%S-%f) and the
          same explicit-format call with other literal separators (`strptimeG`, `general_format_agrees`).
  dyfar   decimal years on 0001..9999 (bit exact; in [year, year+1]; non-decreasing at microsecond steps, strictly
          increasing at >= 1 ms; inverse within 1 ms unless the double is 10000.0 — CPython then raises).
"""
import datetime as _dt
import os
import tempfile
from fractions import Fraction

from .core import frac
from . import c15 as B

_case, _guarded, us_of, dt_of, UTC, esc = B._case, B._guarded, B.us_of, B.dt_of, B.UTC, B.esc
US_MIN = -62135596800000000      # 0001-01-01
US_MAX = 253402300800000000      # exclusive
DAY = 86400000000
FNAME_CODES = [45, 45, 84, 45, 45, 45]
SEP_CHARS = "-/:.T,;|#@=~ZtQ"    # literal characters of an explicit format (no blank, no '_', no '%', no digit)


# ------------------------------------------------------------------------------------------------ exact decimal year
def _is_leap(y):
    return y % 4 == 0 and (y % 100 != 0 or y % 400 == 0)


def exact_decimal_year(us):
    dt = dt_of(us, True)
    y = dt.year
    ys = us_of(_dt.datetime(y, 1, 1, tzinfo=UTC))
    return y + Fraction(us - ys, (366 if _is_leap(y) else 365) * DAY)


# ------------------------------------------------------------------------------------------------ scale_to_test_date
_REGION = []


def _unit_forecast(a, b):
    import numpy
    from csep.core.forecasts import GriddedForecast
    from csep.core.regions import CartesianGrid2D
    if not _REGION:
        _REGION.append(CartesianGrid2D.from_origins(numpy.array([[0.0, 0.0]]), dh=0.1, magnitudes=numpy.array([4.0])))
    region = _REGION[0]
    return GriddedForecast(start_time=a, end_time=b, data=numpy.array([[1.0]]), region=region,
                           magnitudes=region.magnitudes, name="u")


@_guarded
def check_scale(ctx, s, e, tests, mode, tag):
    """tests: ascending test instants (microseconds) for ONE forecast object with period [s, e]"""
    run = ctx.run
    a, b = B._mk_dt(s, mode), B._mk_dt(e, mode)
    gf = _unit_forecast(a, b)
    if e - s < 1000:
        # a forecast period shorter than one millisecond: the two decimal years may be the same double (ZeroDivisionError today);
        # what happens then is outside the property - run for crashes of the harness only, recorded
        gf.scale(1)
        for t in tests:
            try:
                gf.scale_to_test_date(B._mk_dt(t, mode))
                run.count("scale:sub-millisecond-period:returns(not judged)")
            except Exception as ex:
                run.count(f"scale:sub-millisecond-period:{type(ex).__name__}(not judged)")
        return
    exp, trip = [], []
    prev = None
    ds = exact_decimal_year(s)
    dur = exact_decimal_year(e) - ds
    for t in tests:
        case = _case(kind="scale", us=[s, e, t], mode=mode, tag=tag)
        inside = s < t < e
        run.case(case, ("scale", s, e, t) if inside else None)
        gf.scale(1)
        try:
            res = gf.scale_to_test_date(B._mk_dt(t, mode))
            got = float(res.data[0, 0])
            exp.append("self" if (not inside and got == 1.0) else frac(got))
        except ZeroDivisionError:
            got = None
            exp.append("ZeroDivisionError")
        except Exception as ex:
            run.oracle_failure(case, f"scale_to_test_date raised {type(ex).__name__}: {ex}")
            prev = None
            continue
        trip += [s, e, t]
        if got is None:
            if dur >= Fraction(1, 10 ** 10):
                run.oracle_failure(case, "scale_to_test_date: ZeroDivisionError for a period of more than 3 ms")
            run.count("scale:zero-duration")
            prev = None
            continue
        if not inside:
            if got != 1.0:
                run.oracle_failure(case, f"scale_to_test_date at/outside the period's ends scales by {got!r}, not 1")
            run.count("scale:outside")
            continue
        run.count("scale:inside")
        if t + DAY < US_MAX and dur >= Fraction(1, 10 ** 9):
            q = (exact_decimal_year(t + DAY) - ds) / dur
            tol = Fraction(21, 10 ** 13) * (1 + q) / (dur - Fraction(21, 10 ** 13)) + Fraction(1, 10 ** 15) * q
            if abs(Fraction(got) - q) > tol:
                run.oracle_failure(case, f"scale_to_test_date scales by {got!r}; the exact decimal-year fraction of the "
                                         f"period (test date + 1 day) is {float(q)!r}")
        if not got > 0.0:
            if e - s >= 1000:
                run.oracle_failure(case, f"scale_to_test_date: factor {got!r} is not positive inside the period")
        if prev is not None and prev[0] <= t and prev[1] > got:
            run.oracle_failure(_case(kind="scale", us=[s, e, prev[0], t], mode=mode, tag=tag),
                               f"scale_to_test_date not monotone in the test date: {prev[0]} -> {prev[1]!r}, {t} -> {got!r}")
        prev = (t, got)
    if trip:
        info = _case(kind="scale", op="c15_scale", mode=mode, tag=tag, us=[s, e], inputs=tests, key="t")
        if dur >= Fraction(1, 10 ** 9):
            # the model reproduces the rounding of the three decimal_year calls; a factor within the error those roundings can
            # cause (and within the oracle's band around the exact fraction, checked above) is not a difference
            info["tol"] = (Fraction(84, 10 ** 13) / (dur - Fraction(42, 10 ** 13)), Fraction(84, 10 ** 13) / (dur - Fraction(42, 10 ** 13)))
        ctx.ask("c15_scale " + ",".join(map(str, trip)), exp, info)


def gen_scale(rng, lo, hi):
    s = rng.randrange(lo, hi - 3 * DAY)
    kind = rng.randrange(6)
    if kind == 0:
        e = s + rng.choice([1, 2, 3, 999, 1000, 1001, 31, 64])              # shorter than / at the float resolution
    elif kind == 1:
        e = s + rng.randrange(1000, 3 * DAY)
    else:
        e = min(hi - 2 * DAY, s + rng.randrange(DAY, 400 * 5 * DAY))
    e = max(e, s + 1)
    tests = {s, e, s - 1, e + 1, s + 1, e - 1, s + (e - s) // 2}
    for _ in range(6):
        tests.add(rng.randrange(s - 1000, e + 1000))
    t0 = rng.randrange(s, e + 1)
    tests.update(range(t0, t0 + 4))                                        # consecutive microseconds
    # year ends inside the period (the +1 day crosses them)
    y = dt_of(s, True).year
    ye = us_of(_dt.datetime(min(y + 1, 9998), 1, 1, tzinfo=UTC))
    tests.update([ye - DAY - 1, ye - DAY, ye - DAY + 1, ye - 1, ye])
    tests = sorted(t for t in tests if lo <= t and t + DAY < hi)
    return s, e, tests


# ------------------------------------------------------------------------------------------------ datetime statements
_OPS = {">": lambda x, v: x > v, "<": lambda x, v: x < v, ">=": lambda x, v: x >= v, "<=": lambda x, v: x <= v,
        "==": lambda x, v: x == v}


@_guarded
def check_stmt(ctx, us, zone, op, times, form, in_place, tag, text=None):
    """filter('datetime <op> <str(dt)>') on a catalog with the origin times `times` (epoch ms)"""
    from csep.core.catalogs import CSEPCatalog
    run = ctx.run
    s = text if text is not None else str(dt_of(us, bool(zone)))
    stmt = f"datetime {op} {s}"
    case = _case(kind="stmt", us=us, zone=zone, op=op, times=times, form=form, in_place=in_place, tag=tag, text=text)
    run.case(case, ("stmt", us, op, form) if text is None else None)
    rows = [(str(i), m, 0.0, 0.0, 0.0, 1.0) for i, m in enumerate(times)]
    cat = CSEPCatalog(data=rows)
    arg = stmt if form == "str" else ([stmt] if form == "list" else (stmt,))
    try:
        out = cat.filter(arg, in_place=in_place)
        kept = [int(x) for x in out.get_epoch_times()]
        exp = [str(x) for x in kept]
    except Exception as ex:
        kept, exp = None, "err"
        exn = type(ex).__name__
    if text is None and op in _OPS:
        if kept is None:
            run.oracle_failure(case, f"filter({stmt!r}) raised {exn}")
        else:
            thr = us // 1000
            want = [t for t in times if _OPS[op](t, thr)]
            if kept != want:
                run.oracle_failure(case, f"filter({stmt!r}) keeps origin times {kept[:8]}…; the events with origin_time {op} "
                                         f"{thr} (= datetime_to_utc_epoch of that datetime) are {want[:8]}…")
            if in_place and out is not cat:
                run.oracle_failure(case, "filter(in_place=True) did not return the catalog itself")
            if not in_place and [int(x) for x in cat.get_epoch_times()] != list(times):
                run.oracle_failure(case, "filter(in_place=False) changed the catalog it was called on")
        run.count(f"stmt:{form}:{'aware' if zone else 'naive'}")
    else:
        # a malformed statement is outside the property: refusing it (today) or reading it in a more forgiving way are both
        # fine; recorded, compared with the model only when both refuse
        run.count("stmt:malformed:" + ("raises" if kept is None else "accepted(not judged)"))
        if kept is not None:
            return
    ctx.ask("c15_stmt " + esc(stmt) + " " + (",".join(map(str, times)) or "-"), exp, dict(case, op="c15_stmt"))


def gen_stmt(rng, lo_ms, hi_ms):
    k = rng.randrange(5)
    ms = rng.randrange(lo_ms, hi_ms)
    us = [ms * 1000, ms * 1000 + rng.randrange(1000), ms // 1000 * 1000000, ms * 1000 + 999, ms * 1000 + 1][k]
    thr = us // 1000
    times = sorted({thr - 2, thr - 1, thr, thr + 1, thr + 2, thr + rng.randrange(-10 ** 6, 10 ** 6),
                    thr + rng.randrange(-10 ** 10, 10 ** 10)})
    if rng.random() < 0.3:
        rng.shuffle(times)
    if rng.random() < 0.1:
        times = []
    return us, rng.randrange(2), rng.choice(list(_OPS)), times, rng.choice(["str", "list", "tuple"]), bool(rng.randrange(2))


def malformed_statements(us):
    d = str(dt_of(us, False))
    date, time = d.split(" ")
    return [f">= {date}", f">=  {d}", f">= {date}T{time}", f"=> {d}", f">= {d} ", f">= {date} {time} x",
            f">= {date[:-1]}x {time}", f">= {date} {time}+00", f">= {date.replace('-', '/')} {time}", f">= {date} 24:00:00"]


# ------------------------------------------------------------------------------------------------ time members of from_dict
@_guarded
def check_nod(ctx, us, zone, member, tag):
    from csep.core.catalogs import CSEPCatalog
    run = ctx.run
    case = _case(kind="nod", us=us, zone=zone, member=member, tag=tag)
    run.case(case, ("nod", us, zone, member))
    cat = CSEPCatalog(data=[("a", 0, 0.0, 0.0, 0.0, 1.0), ("b", 5000, 0.0, 0.0, 0.0, 1.0)])
    d = cat.to_dict()
    aware = dt_of(us, True)
    s = str(dt_of(us, bool(zone)))
    others = [m for m in ("start_time", "end_time", "date_accessed") if m != member]
    d[member] = s
    d[others[0]] = None
    d[others[1]] = aware
    try:
        c2 = CSEPCatalog.from_dict(d)
        got = getattr(c2, member)
    except Exception as ex:
        run.oracle_failure(case, f"CSEPCatalog.from_dict with {member}={s!r} raised {type(ex).__name__}: {ex}")
        ctx.ask("c15_nod " + esc(s), "err", dict(case, op="c15_nod"))
        return
    if not isinstance(got, _dt.datetime) or got.tzinfo is None or got != aware:
        run.oracle_failure(case, f"CSEPCatalog.from_dict: {member}={s!r} came back as {got!r}, not the UTC datetime")
    if getattr(c2, others[0]) is not None or getattr(c2, others[1]) != aware:
        run.oracle_failure(case, f"CSEPCatalog.from_dict: None / datetime members came back as "
                                 f"{getattr(c2, others[0])!r} / {getattr(c2, others[1])!r}")
    run.count(f"nod:{member}")
    ctx.ask("c15_nod " + esc(s), str(us_of(got)) if isinstance(got, _dt.datetime) else "err", dict(case, op="c15_nod"))


# ------------------------------------------------------------------------------------------------ file names / separators
def _fmt_string(codes):
    c = [chr(x) for x in codes[:5]]
    f = f"%Y{c[0]}%m{c[1]}%d{c[2]}%H{c[3]}%M{c[4]}%S"
    return f + (chr(codes[5]) + "%f" if codes[5] >= 0 else "")


def _fmt_text(codes, dt):
    c = [chr(x) for x in codes[:5]]
    t = f"{dt.year:04d}{c[0]}{dt.month:02d}{c[1]}{dt.day:02d}{c[2]}{dt.hour:02d}{c[3]}{dt.minute:02d}{c[4]}{dt.second:02d}"
    return t + (chr(codes[5]) + f"{dt.microsecond:06d}" if codes[5] >= 0 else "")


@_guarded
def check_fname(ctx, us, codes, tag):
    """codes == FNAME_CODES: through csep.load_catalog_forecast(<file name>); always: the explicit-format calls"""
    import csep
    from csep.utils import time_utils as tu
    run = ctx.run
    if codes[5] < 0:
        us -= us % 1000000
    case = _case(kind="fname", us=us, codes=codes, tag=tag)
    run.case(case, ("fname", us, tuple(codes)))
    aware = dt_of(us, True)
    text = _fmt_text(codes, aware)
    fmt = _fmt_string(codes)
    cs = ",".join(map(str, codes))
    if aware.year >= 1000 and aware.strftime(fmt) != text:
        raise RuntimeError("harness: strftime disagrees with the hand-written text")
    ctx.ask(f"c15_fmtg {cs} {us}", text, dict(case, op="c15_fmtg"))
    try:
        d = tu.strptime_to_utc_datetime(text, format=fmt)
        ep = tu.strptime_to_utc_epoch(text, format=fmt)
    except Exception as ex:
        run.oracle_failure(case, f"strptime_to_utc_datetime({text!r}, format={fmt!r}) raised {type(ex).__name__}: {ex}")
        ctx.ask(f"c15_parseg {cs} {text}", "none", dict(case, op="c15_parseg"))
        return
    if d != aware or d.tzinfo is None or ep != us // 1000:
        run.oracle_failure(case, f"explicit format {fmt!r}: {text!r} parsed to {d!r} / {ep}, the datetime is {aware!r}")
    ctx.ask(f"c15_parseg {cs} {text}", str(us_of(d)), dict(case, op="c15_parseg"))
    run.count("fname:explicit-format")
    # a string of ANOTHER separator set must be rejected
    other = list(codes)
    other[3] = ord("!")
    try:
        tu.strptime_to_utc_datetime(_fmt_text(other, aware), format=fmt)
        run.count("fname:other-separator-accepted(not judged)")      # a more forgiving parser is not against the property
    except Exception:
        ctx.ask(f"c15_parseg {cs} {_fmt_text(other, aware)}", "none", dict(case, op="c15_parseg"))
    if list(codes) == FNAME_CODES:
        with tempfile.TemporaryDirectory(prefix="c15fn") as tmp:
            fn = os.path.join(tmp, f"model-x_{text}.csv")
            open(fn, "w").close()
            f = csep.load_catalog_forecast(fn)
            if f.start_time != aware or f.start_time is None or f.start_time.tzinfo is None or f.name != "model-x":
                run.oracle_failure(case, f"load_catalog_forecast({os.path.basename(fn)!r}): name/start_time = "
                                         f"{f.name!r} / {f.start_time!r}, the file name says {aware!r}")
            elif f.start_epoch != us // 1000:
                run.oracle_failure(case, f"load_catalog_forecast: start_epoch {f.start_epoch} != {us // 1000}")
        run.count("fname:load_catalog_forecast")


# ------------------------------------------------------------------------------------------------ decimal years, far range
@_guarded
def check_decimal_years_far(ctx, us_list, tag):
    """ascending instants anywhere in 0001..9999"""
    from csep.utils import time_utils as tu
    run = ctx.run
    keep, dys, inv_in, inv_out, inv_us = [], [], [], [], []
    prev = None
    for u in us_list:
        case = _case(kind="dyfar", us=u, tag=tag)
        run.case(case, ("dyfar", u))
        dt = dt_of(u, True)
        try:
            y = float(tu.decimal_year(dt))
        except Exception as e:
            run.oracle_failure(case, f"decimal_year raised {type(e).__name__}: {e}")
            prev = None
            continue
        keep.append(u); dys.append(frac(y))
        if not (dt.year <= y <= dt.year + 1):
            run.count("outside-quantifier:far-range-decimal-year-not-in-year")
        if abs(Fraction(y) - exact_decimal_year(u)) > Fraction(1, 10 ** 12):
            run.count("outside-quantifier:far-range-decimal-year-error-above-1e-12")
        if prev is not None:
            pu, py = prev
            if (u - pu >= 1000 and not py < y) or (u > pu and py > y):
                run.count("outside-quantifier:far-range-decimal-year-not-monotone")
        prev = (u, y)
        if 1.0 <= y < 9999.0:
            try:
                back = tu.decimal_year_to_utc_datetime(y)
                ub = us_of(back)
                if abs(ub - u) > 1000:
                    run.count("outside-quantifier:far-range-decimal-year-inverse-beyond-1ms")
                inv_in.append(frac(y)); inv_out.append(str(ub)); inv_us.append(u)
            except Exception:
                run.count("outside-quantifier:far-range-decimal-year-inverse-raised")
    run.count(f"dyfar:{tag}", len(us_list))
    for pu, pd in zip(B._chunks(keep, 1500), B._chunks(dys, 1500)):
        ctx.ask("c15_decyear " + ",".join(map(str, pu)), pd, _case(kind="dyfar", op="c15_decyear", tag=tag, inputs=pu))
    for pi, po, pu in zip(B._chunks(inv_in, 1500), B._chunks(inv_out, 1500), B._chunks(inv_us, 1500)):
        ctx.ask("c15_decyear_inv " + ",".join(pi), po, _case(kind="dyfar", op="c15_decyear_inv", tag=tag, inputs=pu))


# ------------------------------------------------------------------------------------------------ driver of the section
def run_calls(ctx, rng, quick, k=1.0):
    lo, hi = B.MS_LO * 1000, B.MS_HI * 1000
    n = max(1, int((60 if quick else 1200) * k))
    modes = ["naive", "utc", "zoneinfo"]
    for i in range(n):
        far = (i % 6 == 5)
        s, e, tests = gen_scale(rng, US_MIN + DAY if far else lo, US_MAX - DAY if far else hi)
        check_scale(ctx, s, e, tests, modes[i % 3], "far" if far else "scale")
    n = max(1, int((250 if quick else 5000) * k))
    for i in range(n):
        far = (i % 8 == 7)
        us, zone, op, times, form, ip = gen_stmt(rng, (US_MIN // 1000 + 1) if far else B.MS_LO, (US_MAX // 1000 - 1) if far else B.MS_HI)
        check_stmt(ctx, us, zone, op, times, form, ip, "stmt")
    for _ in range(max(1, int((4 if quick else 40) * k))):
        us = rng.randrange(lo, hi)
        for m in malformed_statements(us):
            op, text = m.split(" ", 1)
            check_stmt(ctx, us, 0, op, [us // 1000 - 1, us // 1000 + 1], "str", False, "malformed", text=text)
    n = max(1, int((40 if quick else 800) * k))
    for i in range(n):
        us = [rng.randrange(lo, hi), rng.randrange(B.MS_LO, B.MS_HI) * 1000, rng.randrange(lo // 10 ** 6, hi // 10 ** 6) * 10 ** 6,
              rng.randrange(US_MIN, US_MAX)][i % 4]
        check_nod(ctx, us, rng.randrange(2), rng.choice(["start_time", "end_time", "date_accessed"]), "nod")
    n = max(1, int((60 if quick else 1200) * k))
    for i in range(n):
        us = rng.randrange(lo, hi) if i % 3 else rng.randrange(US_MIN, US_MAX)
        if i % 2 == 0:
            codes = list(FNAME_CODES)
        else:
            codes = [ord(rng.choice(SEP_CHARS)) for _ in range(5)] + [rng.choice([-1, ord(rng.choice(SEP_CHARS))])]
        check_fname(ctx, us, codes, "fname")
    # decimal years on the full range: year ends (1 ms lattice and every microsecond), uniform
    years = [1, 2, 4, 99, 100, 400, 999, 1000, 1582, 1600, 1899, 2201, 2400, 4095, 4096, 8191, 8192, 9996, 9997, 9998] + \
            [rng.randrange(1, 9998) for _ in range(max(1, int((4 if quick else 60) * k)))]
    for y in years:
        c = us_of(_dt.datetime(y + 1, 1, 1, tzinfo=UTC))
        check_decimal_years_far(ctx, [c + 1000 * d for d in range(-150, 151)], "lattice-year-end")
        check_decimal_years_far(ctx, list(range(c - 60, c + 60)), "us-year-end")
    check_decimal_years_far(ctx, list(range(US_MAX - 400, US_MAX)), "last-us-of-9999")
    check_decimal_years_far(ctx, list(range(US_MIN, US_MIN + 200)), "first-us-of-0001")
    check_decimal_years_far(ctx, sorted(set(rng.randrange(US_MIN, US_MAX) for _ in range(max(10, int((4000 if quick else 80000) * k))))),
                            "uniform")
    # every microsecond across second / minute / hour / day / month carries in the property's range
    for _ in range(max(1, int((6 if quick else 100) * k))):
        base = rng.randrange(B.MS_LO // 1000, B.MS_HI // 1000) * 10 ** 6
        base -= base % rng.choice([10 ** 6, 60 * 10 ** 6, 3600 * 10 ** 6, DAY])
        B.check_decimal_years(ctx, list(range(base - 40, base + 40)), "us-carry")


def replay(ctx, case):
    kind = case.get("kind")
    if kind == "scale":
        u = case["us"]
        check_scale(ctx, int(u[0]), int(u[1]), [int(x) for x in (u[2:] or [case.get("t")])], case.get("mode", "utc"), "replay")
    elif kind == "stmt":
        check_stmt(ctx, int(case["us"]), case["zone"], case["op"], [int(x) for x in case["times"]], case["form"],
                   case["in_place"], "replay", text=case.get("text"))
    elif kind == "nod":
        check_nod(ctx, int(case["us"]), case["zone"], case["member"], "replay")
    elif kind == "fname":
        check_fname(ctx, int(case["us"]), [int(x) for x in case["codes"]], "replay")
    elif kind == "dyfar":
        check_decimal_years_far(ctx, [int(case["us"])] if not isinstance(case["us"], list) else [int(x) for x in case["us"]], "replay")
    else:
        return False
    return True
