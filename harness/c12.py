"""C12 — catalog-forecast CSV files decode to exactly the catalogs they encode.

Correspondence of CSEPCatalog.load_ascii_catalogs / csep.load_catalog_forecast / csep.load_stochastic_event_sets with
Model/AsciiCatalogs.lean (`decode`), plus the direct oracle "the loaded catalogs are the encoded list itself"."""
import contextlib
import csv
import datetime
import hashlib
import io
import itertools
import os
import shutil
import tempfile
import time

from .core import Driver, frac
from . import c11_text
from .c11_text import hexs

LEVEL_TEXT = ("Proof: the line-by-line decoder of catalog-forecast CSV files (state = previous catalog id, pending events) "
              "returns, for every well-formed file of n >= 1 catalogs - any number of events per catalog, every "
              "placeholder/omitted choice for empty catalogs, any gap length, header or not - exactly the catalogs 0..n-1 "
              "with their own events in file order (induction with a generalised accumulator invariant, kernel-checked); a "
              "row whose id is below its predecessor's is rejected, and rows-only files load iff ids never decrease. Tied to "
              "the code by exhaustive correspondence over all encodings with n <= 5 catalogs of 0..2 events and by random "
              "forecasts with hundreds of catalogs through all three public loaders. Text layer: the loader is also modelled "
              "from the CHARACTERS of the file (csv state machine, float(), int(), the two strptime formats, header test) and "
              "proved to be the row-level decoder on what the records read as, so the decode theorem holds for the text; "
              "every file is given to that model as bytes. Round 4: the generator consumed lazily (stream: what a consumer "
              "has received when the generator ends or raises) agrees with the decoder on every file that loads, and for a "
              "well-formed file of n catalogs followed by a row with a smaller id delivers exactly the catalogs 0..n-2 and then "
              "the ValueError (stream_encode_then_decreasing, any n / events / gaps); csv records that span physical lines "
              "(quoted fields with line breaks; csvML) are modelled and proved to extend the line-by-line reader, so the decode "
              "theorem holds for such texts; the option handling of the two public loaders is modelled.")
LEVEL_NOTE = ("Round 6: the keyword plumbing of load_catalog_forecast is modelled (CfKw, delivered, forecastPass) and proved inert "
              "without apply_filters / with nothing configured; UCERF3 binary event sets are not modelled (not in the property's "
              "statement; the dispatch to them is an outcome of sesDispatch). csv tokenisation (incl. quoted fields that contain line breaks), float(), int() and strptime parsing of the fields "
              "are MODELLED (Model/CatalogText.lean, Model/CatalogStream.lean, Model/DecimalText.lean) for ASCII text and compared "
              "with Python on every file and on separate token / record / text / time-string streams; non-ASCII digits, inf / nan "
              "words and the sign of a zero are outside the model. The CSEPCatalog constructor (tuples -> structured array with "
              "an 'S256' id column) is not modelled; non-ASCII ids (D45) and ids longer than 256 bytes (D46) are known findings, "
              "generated on ~3 % of the files and matched by their exact outcome. The harness also checks the parsed values against the generating events exactly.")
DESIGN_REF = "DESIGN.md §4 C12"
TECHNIQUE = "exact-layer state-machine model + induction over the encoded catalogs; exhaustive-small and random correspondence"

THEOREMS = ["AsciiCatalogs.decode_encode", "AsciiCatalogs.decode_encode_length", "AsciiCatalogs.number_getElem",
            "AsciiCatalogs.decode_rejects_decreasing", "AsciiCatalogs.decode_rows_ok_iff_sorted",
            "AsciiCatalogs.step_row_prev", "AsciiCatalogs.step_decreasing", "AsciiCatalogs.header_only_first",
            # the text layer (Properties/C12_Text.lean): csv records, float(), int(), strptime, header test -> the decoder
            "AsciiCatalogs.stepFields_eq_step", "AsciiCatalogs.loopFields_eq_loop", "AsciiCatalogs.decodeText_eq_decode",
            "AsciiCatalogs.decodeText_encode", "AsciiCatalogs.decodeText_rejects_decreasing", "AsciiCatalogs.readRow_ok",
            "AsciiCatalogs.readRow_bad_id", "AsciiCatalogs.header_reads_as_header", "AsciiCatalogs.explicit_meta_wins",
            "AsciiCatalogs.meta_from_filename", "AsciiCatalogs.exRow_readsAs",
            "AsciiCatalogs.csvAux_inField_plain", "AsciiCatalogs.csvAux_startField_plain", "AsciiCatalogs.csvAux_join",
            "AsciiCatalogs.csvFields_join",
            # round 4 (Properties/C12_Stream.lean): the generator consumed lazily, records that span lines, option handling
            "AsciiCatalogs.loop_eq_yields", "AsciiCatalogs.stream_ok_iff", "AsciiCatalogs.stream_error_iff",
            "AsciiCatalogs.yields_append", "AsciiCatalogs.stream_before_error", "AsciiCatalogs.stream_encode_then_decreasing",
            "AsciiCatalogs.yieldsFields_eq_yields", "AsciiCatalogs.streamFields_eq_stream",
            "AsciiCatalogs.loopFields_eq_yieldsFields", "AsciiCatalogs.streamTextML_ok_iff", "AsciiCatalogs.csvAux_eq_scan",
            "AsciiCatalogs.splitLinesT_fst", "AsciiCatalogs.csvML_of_lines", "AsciiCatalogs.csvRecordsML_eq",
            "AsciiCatalogs.decodeTextML_eq_decodeText", "AsciiCatalogs.decodeTextML_encode",
            "AsciiCatalogs.decodeTextML_encode_records", "AsciiCatalogs.ses_reaches_decoder_iff",
            "AsciiCatalogs.cf_builds_forecast_iff", "AsciiCatalogs.takeFrac_digits", "AsciiCatalogs.takeFrac_scales",
            "AsciiCatalogs.delivered_unfiltered", "AsciiCatalogs.delivered_nothing_configured", "AsciiCatalogs.second_pass_same",
            "AsciiCatalogs.forecastPass_encode"]
# (the two id classes on which the unchanged code does not return the written event id — non-ASCII ids, ids longer than 256
# bytes — are known findings D45 / D46: generated on ~3 % of the files and reported as KNOWN-FINDING, see SIG_D45 / SIG_D46)
EXCLUDED_INPUT_CLASSES = []
TRUSTED = ["Lean 4.33 kernel", "axioms: propext, Classical.choice, Quot.sound at most",
           "csv.reader tokenisation, float(), int() and datetime.strptime are modelled (decodeText) and compared with Python on "
           "every run; the CSEPCatalog constructor (list of tuples -> structured array) is not modelled; the harness compares "
           "the loaded field values with the generating events exactly (the expected value of a numeric field is float(text); "
           "that every non-repr spelling reads as the intended double is checked at generation)",
           "csv.writer as the definition of how a field containing the delimiter, a quote or blanks is written (quoted, "
           "quotes doubled); TZ + time.tzset() as the way to give the process a local time zone",
           "the generator protocol is modelled (yields / stream: what a lazy consumer has received before the end or the "
           "exception); CatalogForecast.__next__ (C13) is observed through the walks",
           "harness/c12.py generators, file writer and comparison; driver parsing (Proto.lean, Drive/C12.lean)"]
RULE = ("exhaustive: every forecast of n <= 5 catalogs with 0..2 events each x every placeholder/omitted choice for each "
        "empty non-final catalog x header on/off (2046 files, fresh random events per file; n <= 6, 8190 files, in the "
        "thorough tier); random: 1-40 and 100-600 catalogs, gaps "
        "up to 50 omitted catalogs, 0..40 events per catalog, times with 0/1/2/3/6 fractional digits and unpadded clock "
        "fields; event ids plain, empty, or with ',' '\"' ';' quotes and blanks (written as quoted CSV fields by "
        "csv.writer; quoting minimal / all fields / id only; LF or CRLF); numeric fields as repr, incl. exponent notation "
        "(|lon|,|lat|,depth,magnitude < 1e-4) and the other spellings float() reads ('5.', '.5', '+5.0', '1E-05', leading "
        "zeros, trailing zeros, '%.17e'); every file is loaded with the process's local time zone cycling through UTC, "
        "Asia/Tokyo, America/Los_Angeles, Europe/London and POSIX TZ strings incl. a half-hour zone (TZ + time.tzset, "
        "restored afterwards): times in files are UTC by definition; a quarter of the catalogs with >= 2 events repeat an "
        "event in all six fields (adjacent / distant / all copies; also the last event of one catalog = the first of the "
        "next); malformed stream: one row id lowered below its predecessor (or a header line after the first row). Each "
        "file is loaded through load_ascii_catalogs, load_catalog_forecast (iterated) and load_stochastic_event_sets; the "
        "forecast object is walked in one of five ways (plain loop; a first look with next() x1 / x2 or a for-loop left early, "
        "then the rest, then the whole forecast again; twice) and must give the encoded catalogs each time with n_cat = their "
        "number; 3/4 of the files carry one of 13 file-name shapes (name_<time>.csv and near misses) that must not change the "
        "catalogs; 5 % of origin times sit at / next to the epoch (epoch ms 0, -1, 1) and 3 % of events have every field "
        "zero; every file is also given to the text-level model as bytes (c12_text); 400 csv lines and 400 time strings "
        "against csv.reader / strptime, ~1600 decimal tokens against float() / int(). Round 4: files that must be rejected are "
        "consumed LAZILY through all three loaders: the catalogs received before the exception must be the leading catalogs of "
        "the file and a prefix of what the model's lazy consumer receives (c12_stream; an eager validation is as good); event "
        "ids with line breaks (LF, CRLF, CR, consecutive, next to quotes and commas: records that span physical lines); 200 "
        "random multi-line texts against csv.reader (c12_csvml); 120 option combinations of load_stochastic_event_sets (type x "
        "format) and load_catalog_forecast (existence x loader kind x format x type) against sesDispatch / cfDispatch. Round 5: "
        "origin times with fractions of EVERY length 1..6 (padded and unpadded clock fields); ~3 % of the well-formed files carry "
        "1..3 event ids of a known-finding class (non-ASCII: D45, longer than 256 bytes: D46) and are matched by their exact "
        "outcome (UnicodeEncodeError / everything right but the ids cut at 256 bytes), anything else is a violation; 1 % of all "
        "ids are ASCII ids of 129 / 200 / 255 / 256 bytes that must arrive unchanged. Round 6: a gap of > 65 536 omitted catalogs and "
        "a file of > 65 536 rows in every run; 40 % of the files are loaded through another call form (positional / keyword, "
        "inert keywords store / filters / filter_spatial / apply_mct / region / n_cat / name with apply_filters off or nothing "
        "configured, pathlib.Path, a bare file name relative to the cwd); walk 'ops' (a quarter of the files): "
        "get_expected_rates / spatial_counts / magnitude_counts / get_event_counts / magnitudes / next on the forecast object "
        "(region containing none or nearly all events, store on / off, each may raise) BEFORE the catalogs are read twice; the "
        "arrays of catalogs already delivered are overwritten in place and the file is loaded again / the store=False forecast "
        "re-read; ids that look like numbers beyond 2^53; one file in eight with numeric / user warnings as errors. Round 7: walk 'copy' "
        "(a fifth of the files): the forecast is replaced by copy.copy / deepcopy / a pickle round trip of itself before, in the "
        "middle of (1..4 catalogs read) or after a pass and only the copy is read on (deepcopy / pickle only once the catalogs are "
        "a list: the unchanged tree cannot copy a generator; probed) (class h); every seventh delivered catalog is compared "
        "through its own deepcopy / pickle; call form 'user subclass' (variant % 11 == 10): catalogs of a user subclass of "
        "CSEPCatalog defining __len__ or __bool__ (an empty catalog is falsy) as catalog_loader / directly (class j); the 'ops' "
        "walk may have no region (get_expected_rates refused) (class i); the strict share runs under numpy.errstate(divide / "
        "invalid = raise) and a decimal context of 2..6 digits (class k). A case "
        "is non-trivial when the file has >= 2 catalogs and at least one empty catalog or is a rejection case; distinct by "
        "the sha1 of the file text")

EPOCH = datetime.datetime(1970, 1, 1)
_T_LO = int((datetime.datetime(1900, 1, 1) - EPOCH).total_seconds()) * 1000000
_T_HI = int((datetime.datetime(2200, 1, 1) - EPOCH).total_seconds()) * 1000000


# ----------------------------------------------------------------------------- generation
# ---- the process's local time zone must not matter (times in the files are UTC by definition)
ZONES = [None, "Asia/Tokyo", "America/Los_Angeles", None, "Europe/London", "JST-9", "PST8PDT,M3.2.0,M11.1.0",
         "NST3:30NDT,M3.2.0,M11.1.0", "Pacific/Kiritimati", "America/St_Johns", "Australia/Lord_Howe"]
_ZONE_OK = {}


@contextlib.contextmanager
def local_zone(zone):
    """run the body with the process's local time zone set to `zone` (None = leave as is); always restored"""
    if zone is None:
        yield
        return
    old = os.environ.get("TZ")
    try:
        os.environ["TZ"] = zone
        time.tzset()
        if zone not in _ZONE_OK:   # a zone name unknown to the C library silently means UTC
            _ZONE_OK[zone] = any(time.localtime(t).tm_gmtoff != 0 for t in (0, 15552000, 1600000000, 1610000000))
        yield
    finally:
        if old is None:
            os.environ.pop("TZ", None)
        else:
            os.environ["TZ"] = old
        time.tzset()


def _coord(rng, lo, hi):
    k = rng.random()
    if k < 0.12:
        # within 1e-4 of zero (Greenwich meridian / equator, shallow depths, tiny magnitudes): repr is in exponent notation
        x = rng.uniform(1.0, 9.999) * 10.0 ** -rng.randint(5, 12) if rng.random() < 0.7 else \
            float(rng.choice(["1e-05", "4e-05", "2.5e-05", "9.9e-05", "1e-07", "5e-324", "1.5e-10", "0.0001", "0.00011", "1e-310",
                              "2.2250738585072014e-308"]))
        if lo < 0 and rng.random() < 0.5:
            x = -x
        return x
    if k < 0.24:
        return float(rng.choice([lo, hi, 0.0, -0.0, lo + 0.1, hi - 0.1]))
    if k < 0.5:
        return round(rng.uniform(lo, hi), rng.choice([1, 2, 3, 4]))
    return rng.uniform(lo, hi)


def _time(rng):
    """(time string, epoch ms). The instant is built with integer arithmetic; the expected value is its floor to ms."""
    if rng.random() < 0.05:
        # instants at and next to the epoch: the origin time in epoch milliseconds is 0 / -1 / 1 (a value that is "false"
        # in Python must still be an origin time, not a blank)
        return rng.choice([("1970-01-01T00:00:00", 0), ("1970-01-01T00:00:00.000", 0), ("1970-01-01T00:00:00.000999", 0),
                           ("1970-1-1T0:0:0", 0), ("1970-01-01T00:00:00.0", 0), ("1969-12-31T23:59:59.999", -1),
                           ("1969-12-31T23:59:59.999999", -1), ("1970-01-01T00:00:00.001", 1), ("1970-01-01T00:00:01", 1000)])
    us = rng.randrange(_T_LO, _T_HI)
    style = rng.choice(["f6", "f6ms", "f3", "f1", "f2", "f4", "f5", "none", "unpadded", "unpadded-frac"])
    if style == "f6ms":
        us -= us % 1000
    elif style == "f3":
        us -= us % 1000
    elif style == "f2":
        us -= us % 10000
    elif style == "f1":
        us -= us % 100000
    elif style == "f4":
        us -= us % 100          # four digits: tenths of a millisecond (the epoch value is the floor to ms)
    elif style == "f5":
        us -= us % 10
    elif style in ("none", "unpadded"):
        us -= us % 1000000
    nfrac = None
    if style == "unpadded-frac":
        nfrac = rng.randint(1, 6)   # unpadded clock fields AND a fraction of 1..6 digits
        us -= us % 10 ** (6 - nfrac)
    dt = EPOCH + datetime.timedelta(microseconds=us)
    base = f"{dt.year:04d}-{dt.month:02d}-{dt.day:02d}T{dt.hour:02d}:{dt.minute:02d}:{dt.second:02d}"
    fr = f"{dt.microsecond:06d}"
    if style in ("f6", "f6ms"):
        s = base + "." + fr
    elif style == "f3":
        s = base + "." + fr[:3]
    elif style == "f2":
        s = base + "." + fr[:2]
    elif style == "f1":
        s = base + "." + fr[:1]
    elif style == "f4":
        s = base + "." + fr[:4]
    elif style == "f5":
        s = base + "." + fr[:5]
    elif style == "unpadded-frac":
        s = f"{dt.year:04d}-{dt.month}-{dt.day}T{dt.hour}:{dt.minute}:{dt.second}." + fr[:nfrac]
    elif style == "none":
        s = base
    else:
        s = f"{dt.year:04d}-{dt.month}-{dt.day}T{dt.hour}:{dt.minute}:{dt.second}"
        if rng.random() < 0.5:
            s += ".0"
    return s, us // 1000


_IDCH = "abcdefghijklmnopqrstuvwxyzABCDEFGHIJKLMNOPQRSTUVWXYZ0123456789_"
_IDCH_Q = ',,"" ;\'abcXYZ019._-#|~:/'
SPECIAL_IDS = ["ci38457511,us7000abcd", 'the "big" one', ",", '"', '""', " ", "a b", " a", "a ", "a,b,c", '"a"', '"a,b"',
               'a""b', ",,", '",', ',"', "a;b", "lon", "lon,lat", "1,5", "1.5", "1e5", "-1", "None", "x~y", "a|b", "#x",
               "us7000abcd,ci38457511,nc73649170", "it's", "0,0,0,0,0,0,0", ',,,,,3,',
               # ids that contain a line break: csv writes them as quoted fields that span physical lines
               # ids that look like numbers no float / int64 can hold: an id is a string
               "9007199254740993", "18446744073709551616", "-9223372036854775809", "1e400", "-0", "-0.0", "0.0", "nan", "inf",
               "00012", "1_000", "0x1F", "5e-324",
               "a\nb", "line1\r\nline2", "\n", "x\n", "\ny", '"\n"', "a\rb", "two\n\nbreaks", ",\n,", "1,2\n3,4,5,6,7,8,9"]


# known findings D45 / D46 (known_findings.json): the id column of CSEPCatalog is 'S256'
SIG_D45 = "event-id:non-ascii:UnicodeEncodeError"
SIG_D46 = "event-id:longer-than-256-bytes:truncated"
NONASCII_IDS = ["\u00e9", "\u65e5\u672c", "us7000abcd\u20132", "\u03a9mega", "na\u00efve", "ci\u00a0123", "\u00df", "x" + "\u00e9" * 10,
                "\U0001f642", "evento-n\u00ba-7", "\u00e9" * 200]
LONG_ID_LENGTHS = [257, 258, 300, 1000]
LEGAL_LONG_ID_LENGTHS = [129, 200, 255, 256]      # at most 256 bytes: must arrive unchanged


def _ascii_id(rng, n):
    return "".join(rng.choice(_IDCH) for _ in range(n))


def _apply_idclass(rng, spec):
    """a file of one of the two known-finding classes: 1..3 of its events get a non-ASCII id / an id longer than 256 bytes"""
    evs = [e for c in spec["cats"] for e in c]
    kind = spec.get("idclass")
    if not kind or not evs:
        spec["idclass"] = None
        return spec
    for e in rng.sample(evs, min(len(evs), rng.randint(1, 3))):
        e[6] = rng.choice(NONASCII_IDS) if kind == "nonascii" else _ascii_id(rng, rng.choice(LONG_ID_LENGTHS))
    return spec


def _trunc256(eid):
    return eid.encode("utf-8")[:256].decode("utf-8", "ignore")


def _spell(rng, x):
    """a text that float() reads as exactly the double x: repr or one of the other legal spellings"""
    r = repr(x)
    k = rng.random()
    if k < 0.62 or x != x or x in (float("inf"), float("-inf")):
        return r
    plain = "e" not in r and "E" not in r
    neg = r.startswith("-")
    body = r[1:] if neg else r
    sign = "-" if neg else ""
    opts = ["%.17e" % x, ("%.17e" % x).upper(), "%.16e" % x if float("%.16e" % x) == x else "%.17e" % x]
    if "e" in r:
        opts += [r.upper(), r.replace("e-0", "e-").replace("e+", "e"), r.replace("e", "E")]
        m, e = r.split("e")
        opts += [m + "e" + ("%+04d" % int(e))]                      # 4e-005
    if not neg:
        opts.append("+" + r)
    if plain:
        opts += [sign + "00" + body, sign + "0" + body, r + "0", r + "000"]
        if body.endswith(".0"):
            opts += [r[:-1], r[:-2], r[:-2] + "e0", r[:-2] + "E+00"]  # 5.  5  5e0
        if body.startswith("0.") and len(body) > 2:
            opts += [sign + body[1:], ("+" if not neg else "-") + body[1:]]   # .5  +.5
    t = rng.choice(opts)
    if float(t) != x or (x == 0 and str(float(t))[0] != str(x)[0]):
        raise RuntimeError(f"spelling {t!r} does not read as {x!r}")
    return t


def _event_id(rng, k):
    r = rng.random()
    if r < 0.12:
        return ""
    if r < 0.13:
        return _ascii_id(rng, rng.choice(LEGAL_LONG_ID_LENGTHS))      # long, but within the 256 bytes of the id column
    if r < 0.5:
        return str(k)
    if r < 0.75:
        return "".join(rng.choice(_IDCH) for _ in range(rng.randint(1, 12)))
    if r < 0.88:
        return rng.choice(SPECIAL_IDS)
    return "".join(rng.choice(_IDCH_Q) for _ in range(rng.randint(1, 16)))


def _event(rng, k):
    """[lon_repr, lat_repr, mag_repr, time_string, epoch_ms, depth_repr, event_id]"""
    ts, ms = _time(rng)
    eid = _event_id(rng, k)
    if rng.random() < 0.03:
        # every field zero: lon 0, lat 0, magnitude 0, depth 0, origin time = the epoch, sometimes no event id either
        z = lambda: rng.choice(["0.0", "0", "0.0", "-0.0", "0e0", "0.00"])
        return [z(), z(), z(), rng.choice(["1970-01-01T00:00:00", "1970-01-01T00:00:00.0"]), 0, z(), rng.choice(["", eid, "0"])]
    return [_spell(rng, _coord(rng, -180, 180)), _spell(rng, _coord(rng, -90, 90)), _spell(rng, _coord(rng, 0, 9.5)), ts, ms,
            _spell(rng, _coord(rng, 0, 700)), eid]


HEADER = "lon,lat,mag,time_string,depth,catalog_id,event_id"


def _mid(eid):
    """driver / canonical form of an event id: '' stays '' (the decoder tests it), anything else 'x' + hex of its bytes"""
    return "x" + eid.encode("utf-8").hex() if eid else ""


def _csv_line(fields, quoting):
    """one record as csv.writer writes it. quoting: minimal (only where needed) | all | id (id field always quoted).
    A field that contains a line break is always quoted (csv.writer of Python >= 3.13 does so whatever the line
    terminator is; 3.12 only for characters of its own lineterminator): the record then spans several physical lines."""
    if any("\n" in f or "\r" in f for f in fields):
        def q(k, f):
            need = quoting == "all" or (quoting == "id" and k == len(fields) - 1) or any(ch in f for ch in ',"\r\n')
            return '"' + f.replace('"', '""') + '"' if need else f
        return ",".join(q(k, f) for k, f in enumerate(fields))
    buf = io.StringIO()
    if quoting == "id":
        csv.writer(buf, lineterminator="").writerow(fields[:-1])
        return buf.getvalue() + ',"' + fields[-1].replace('"', '""') + '"'
    csv.writer(buf, lineterminator="", quoting=csv.QUOTE_ALL if quoting == "all" else csv.QUOTE_MINIMAL).writerow(fields)
    return buf.getvalue()


def build_rows(spec):
    """spec -> (records: list of 7 fields, model line tokens, expected catalogs or None when rejection is expected)"""
    cats, choices, header = spec["cats"], spec["choices"], spec["header"]
    rows, model = [], []
    n = len(cats)
    for i, c in enumerate(cats):
        last = i == n - 1
        if not c:
            present = True if last else (choices[i] if i < len(choices) else True)
            if present:
                rows.append(["", "", "", "", "", str(i), ""])
                model.append(f"~~~~~{i}~")
        else:
            for e in c:
                rows.append([e[0], e[1], e[2], e[3], e[5], str(i), e[6]])
                model.append(f"{frac(float(e[0]))}~{frac(float(e[1]))}~{frac(float(e[2]))}~{e[4]}~{frac(float(e[5]))}~{i}~{_mid(e[6])}")
    mut = spec.get("mutation")
    expected = [[i, [[e[6], e[4], e[1], e[0], e[5], e[2]] for e in c]] for i, c in enumerate(cats)]
    hdr = HEADER.split(",")
    if mut:
        kind, k, val = mut
        if kind == "set_id":
            rows[k][5] = str(val)
            g = model[k].split("~")
            g[5] = str(val)
            model[k] = "~".join(g)
        elif kind == "header_at":
            rows.insert(k, list(hdr))
            model.insert(k, "H")
        expected = None
    if header:
        rows.insert(0, hdr if spec.get("header_case", 0) == 0 else ["Lon"] + hdr[1:])
        model.insert(0, "H")
    return rows, model, expected


def build(spec):
    """spec -> (file text lines, model line tokens, expected catalogs or None when rejection is expected)"""
    rows, model, expected = build_rows(spec)
    q = spec.get("quoting", "minimal")
    return [_csv_line(r, q) for r in rows], model, expected


def _canon_expected(expected):
    return "ok:" + ";".join(
        f"{i}|" + ",".join("~".join([_mid(e[0]), str(e[1]), frac(float(e[2])), frac(float(e[3])), frac(float(e[4])),
                                      frac(float(e[5]))]) for e in evs)
        for i, evs in expected)


def _canon_loaded(catalogs):
    out = []
    for k_, c in enumerate(catalogs):
        if k_ % 7 == 3 and len(catalogs) < 200:      # a delivered catalog survives copy.deepcopy / a pickle round trip unchanged
            import copy
            import pickle
            c = copy.deepcopy(c) if k_ % 2 else pickle.loads(pickle.dumps(c))
        evs = []
        if c.event_count:
            a = c.catalog
            for row in a:
                eid = row["id"]
                eid = eid.decode("utf-8", "ignore") if isinstance(eid, bytes) else str(eid)   # (an id cut inside a character: D46)
                evs.append("~".join([_mid(eid), str(int(row["origin_time"])), frac(row["latitude"]), frac(row["longitude"]),
                                     frac(row["depth"]), frac(row["magnitude"])]))
        cid = c.catalog_id
        out.append(f"{'none' if cid is None else int(cid)}|" + ",".join(evs))
    return "ok:" + ";".join(out)


LOADERS = ("load_ascii_catalogs", "load_catalog_forecast", "load_stochastic_event_sets")
# ways of walking over the object csep.load_catalog_forecast returns (chosen per file from its content hash): one plain
# loop; or a first look at k catalogs (next() / a for-loop left early), then the rest, then the whole forecast once more
WALKS = ("plain", "plain", "next1", "break1", "next2", "twice", "ops", "ops", "copy", "copy")
# "copy" (round 7, class h): the forecast object is replaced by copy.copy / copy.deepcopy / a pickle round trip of itself before,
# in the middle of, or after a pass, and only the copy is used from then on: it must deliver what the original would have — the
# rest of the pass, then the file's catalogs on every later pass.  While its catalogs still come from the generator the unchanged
# tree supports copy.copy only (deepcopy / pickle: TypeError "cannot pickle 'generator' object"): those forms are used after a
# complete pass only (probed once per run and counted).
# "ops": other public operations of the forecast object (get_expected_rates — also when it raises —, spatial_counts,
# magnitude_counts, get_event_counts, magnitudes) are called in a random order BEFORE the catalogs are read; whatever they do or
# raise, the catalogs the forecast then delivers are the file's: exactly their own events, in file order, fields unchanged


class WalkError(Exception):
    pass


class _Materialised:
    """a forecast read completely while the current directory was the file's (relative file name): replays its catalogs"""

    def __init__(self, fore):
        self.cats = [c for c in fore]
        self.n_cat = len(self.cats)
        self._k = 0

    def __iter__(self):
        return self

    def __next__(self):
        if self._k >= len(self.cats):
            self._k = 0
            raise StopIteration
        self._k += 1
        return self.cats[self._k - 1]


# the same call written in other ways (positional / keyword arguments, keywords that must not change the catalogs because
# `apply_filters` is off or nothing is configured, explicit defaults); chosen per file from its content hash
N_VARIANTS = 12
_REGION = []


def _global_region():
    """10-degree cells over the whole globe, magnitude bins 0..10: (almost) every generated event lies inside"""
    if len(_REGION) < 2:
        import numpy
        from csep.core.regions import CartesianGrid2D
        _some_region()
        org = numpy.array([[float(x), float(y)] for x in range(-180, 180, 10) for y in range(-90, 90, 10)])
        _REGION.append(CartesianGrid2D.from_origins(org, dh=10.0, magnitudes=numpy.arange(0.0, 10.5, 1.0)))
    return _REGION[1]


_COPY_PROBE = {}
_RUN = []


def _copy_of(x, form):
    import copy
    import pickle
    return copy.copy(x) if form == "copy" else copy.deepcopy(x) if form == "deepcopy" else pickle.loads(pickle.dumps(x))


def _copy_walk(path, fmt, seed, run=None):
    """read k catalogs, replace the forecast by a copy of itself, finish the pass on the copy, read it again"""
    import random
    import csep
    g = random.Random(seed)
    fore = _call("load_catalog_forecast", path, g.choice([0, 0, 3, 8, 9]), fmt)
    # A copy taken IN THE MIDDLE of a pass is not generated: on the unchanged tree a shallow copy shares the live generator with
    # the original (deepcopy / pickle are refused there), so what either object delivers afterwards is nothing the property
    # fixes, and a harmless rewrite that keeps the state of a pass in a generator of its own (seeded C13_H2) behaves differently
    # there without breaking the property (cross-property run). Copies before the first catalog and after a complete pass stay.
    g.choice(["before", "middle", "middle", "after"])          # keeps the random stream of the other choices
    when = g.choice(["before", "after"])
    seen = []
    if when == "middle":
        for _ in range(g.randint(1, 4)):
            try:
                seen.append(next(fore))
            except StopIteration:
                when = "after"
                break
    elif when == "after":
        seen = [c for c in fore]
    form = g.choice(["copy", "deepcopy", "pickle"])
    if when != "after" or not isinstance(fore.catalogs, list):
        if "generator" not in _COPY_PROBE:       # what the unchanged tree supports is probed, not assumed
            try:
                _copy_of(fore, "deepcopy")
                _COPY_PROBE["generator"] = True
            except TypeError:
                _COPY_PROBE["generator"] = False
        if not _COPY_PROBE["generator"]:
            form = "copy"
    if run is not None:
        run.count(f"forecast copied ({form}) {when} a pass")
    dup = _copy_of(fore, form)
    del fore
    if when == "after":
        first = [c for c in dup]
    else:
        first = seen + [c for c in dup]
    again = [c for c in dup]
    a, b = _canon_loaded(first), _canon_loaded(again)
    if a != b:
        raise WalkError(f"walk copy: the forecast was replaced by its {form} {when} a pass ({len(seen)} catalogs read): the pass gave "
                        f"{a[:300]} but reading the copy again gave {b[:300]}")
    return first


def _ops_walk(path, fmt, seed):
    """load_catalog_forecast(path, region=R, store=...) — a region that holds none / nearly all of the events —, a few other
    public operations on the object (each may raise: e.g. get_expected_rates on an event outside the region), then the
    interrupted pass is finished and the forecast is read twice from the start"""
    import contextlib
    import random
    import csep
    g = random.Random(seed)
    region = g.choice([_some_region(), _some_region(), _global_region(), _global_region(), None])   # None: rates are refused
    fore = csep.load_catalog_forecast(path, region=region, store=g.random() < 0.8, **fmt)
    for _ in range(g.randint(1, 3)):
        op = g.choice(["get_expected_rates", "spatial_counts", "magnitude_counts", "get_event_counts", "magnitudes", "next"])
        try:
            with contextlib.redirect_stdout(io.StringIO()):
                if op == "next":
                    next(fore)
                elif op == "magnitudes":
                    fore.magnitudes, fore.min_magnitude
                elif op == "get_event_counts":
                    fore.get_event_counts(verbose=False)
                else:
                    getattr(fore, op)()
        except Exception:       # ValueError for an event outside the region, StopIteration, ...: not this property's business
            pass
    for _ in fore:              # finish a pass that an exception left half-way (known finding D27 of C13)
        pass
    first = [c for c in fore]
    if not first:               # the pass on which a streamed forecast switches over to its stored catalogs is empty
        first = [c for c in fore]
    again = [c for c in fore]
    a, b = _canon_loaded(first), _canon_loaded(again)
    if a != b:
        raise WalkError(f"walk ops: after other operations on the forecast a pass gave {a[:300]} but the next one {b[:300]}")
    return first


def _some_region():
    """a small space-magnitude region that contains none of the generated events (handed over as `region=`: without
    apply_filters + filter_spatial it must not remove anything)"""
    if not _REGION:
        import numpy
        from csep.core.regions import CartesianGrid2D
        _REGION.append(CartesianGrid2D.from_origins(numpy.array([[0.0, 0.0], [0.1, 0.0]]), dh=0.1, magnitudes=numpy.array([4.0, 5.0])))
    return _REGION[0]


@contextlib.contextmanager
def _cwd(d):
    old = os.getcwd()
    os.chdir(d)
    try:
        yield
    finally:
        os.chdir(old)


_USER = {}


def _user_classes():
    """catalog classes a user may write: a length / a truth value, an accessor overridden consistently"""
    if not _USER:
        from csep.core.catalogs import CSEPCatalog

        class SizedCatalog(CSEPCatalog):
            def __len__(self):
                return self.event_count

        class TruthyCatalog(CSEPCatalog):
            def __bool__(self):
                return self.event_count > 0

            def get_magnitudes(self):
                return super().get_magnitudes()
        for cls_ in (SizedCatalog, TruthyCatalog):       # importable by name, so that their instances can be pickled
            cls_.__qualname__ = cls_.__name__
            cls_.__module__ = __name__
            globals()[cls_.__name__] = cls_
        _USER.update(sized=SizedCatalog, truthy=TruthyCatalog)
    return _USER


def _call(which, path, variant, fmt):
    """the loader called in way number `variant` (0 = the plain call); returns what the call returns"""
    import pathlib
    import csep
    from csep.core.catalogs import CSEPCatalog
    f_ = fmt.get("format", "native")
    if variant % 11 == 10 and which != "load_stochastic_event_sets":
        # the decoder reached through a USER SUBCLASS of the catalog class (defines __len__ / __bool__: an empty catalog is falsy)
        cls_ = _user_classes()["sized" if variant % 2 else "truthy"]
        if which == "load_ascii_catalogs":
            return cls_.load_ascii_catalogs(path)
        return csep.load_catalog_forecast(path, catalog_loader=cls_.load_ascii_catalogs, store=bool(variant % 3), **fmt)
    if variant % 7 == 5:          # the file given as a pathlib.Path
        path = pathlib.Path(path)
    elif variant % 7 == 6:        # ... as a bare file name relative to the current directory (everything is read inside)
        with _cwd(os.path.dirname(path)):
            out = _call(which, os.path.basename(path), variant - (variant % 7), fmt)
            return list(out) if which != "load_catalog_forecast" else _Materialised(out)
    if which == "load_ascii_catalogs":
        return [lambda: CSEPCatalog.load_ascii_catalogs(path),
                lambda: CSEPCatalog.load_ascii_catalogs(filename=path),
                lambda: CSEPCatalog.load_ascii_catalogs(path, name="given"),
                lambda: CSEPCatalog.load_ascii_catalogs(path, region=None, format="native"),
                lambda: CSEPCatalog.load_ascii_catalogs(filename=path, region=_some_region())][variant % 5]()
    if which == "load_stochastic_event_sets":
        return [lambda: csep.load_stochastic_event_sets(path, **fmt),
                lambda: csep.load_stochastic_event_sets(path, "csv", f_),
                lambda: csep.load_stochastic_event_sets(filename=path, format=f_, type="csv"),
                lambda: csep.load_stochastic_event_sets(path, "csv", format=f_, name="given"),
                lambda: csep.load_stochastic_event_sets(path, region=None, **fmt)][variant % 5]()
    return [lambda: csep.load_catalog_forecast(path, **fmt),
            lambda: csep.load_catalog_forecast(path, None, f_, "ascii"),
            lambda: csep.load_catalog_forecast(fname=path, type="ascii", format=f_, catalog_loader=None),
            lambda: csep.load_catalog_forecast(path, store=False, **fmt),
            lambda: csep.load_catalog_forecast(path, store=True, apply_filters=False, filters=["magnitude >= 99"], filter_spatial=True,
                                               apply_mct=True, **fmt),
            lambda: csep.load_catalog_forecast(path, apply_filters=True, **fmt),
            lambda: csep.load_catalog_forecast(path, apply_filters=True, filters=[], filter_spatial=False, store=False, **fmt),
            lambda: csep.load_catalog_forecast(path, region=_some_region(), **fmt),
            lambda: csep.load_catalog_forecast(path, catalog_loader=CSEPCatalog.load_ascii_catalogs, **fmt),
            lambda: csep.load_catalog_forecast(path, name="given", n_cat=3, **fmt),
            lambda: csep.load_catalog_forecast(path, CSEPCatalog.load_ascii_catalogs, f_, "whatever"),
            lambda: csep.load_catalog_forecast(path, region=_some_region(), filter_spatial=True, filters=["magnitude >= 99"],
                                               store=False, **fmt)][variant % N_VARIANTS]()


def _scribble(cats):
    """the caller overwrites, in place, the event arrays of the catalogs it was given"""
    for c in cats:
        if c.event_count:
            a = c.catalog
            a["magnitude"][:] = -9.0
            a["origin_time"][:] = 0
            a["longitude"][:] = 0.0
            a["id"][:] = b"zz"


def _load(path, which, walk="plain", csep_format=False, variant=0):
    fmt = dict(format="csep") if csep_format else {}     # 'csep': catalogs converted with get_csep_format()
    if which != "load_catalog_forecast" and variant % 3 == 1:
        # what a loader returned is overwritten in place by the caller; loading the file AGAIN gives the file's catalogs
        first = list(_call(which, path, variant, fmt))
        want = _canon_loaded(first)
        _scribble(first)
        second = list(_call(which, path, variant, fmt))
        if _canon_loaded(second) != want:
            raise WalkError("after the caller overwrote the arrays of the catalogs of a first load, loading the same file again "
                            "gives other catalogs")
        return second
    if which == "load_ascii_catalogs":
        return list(_call(which, path, variant, fmt))
    if which == "load_catalog_forecast" and walk == "ops":
        return _ops_walk(path, fmt, variant)
    if which == "load_catalog_forecast" and walk == "copy":
        return _copy_walk(path, fmt, variant, _RUN[0] if _RUN else None)
    if which == "load_catalog_forecast":
        fore = _call(which, path, variant, fmt)
        if walk == "plain" and variant % N_VARIANTS in (3, 6, 11) and variant % 7 != 6:
            # store=False: every pass re-reads the file — overwriting the arrays of the first pass must not show in the second
            first = [c for c in fore]
            want = _canon_loaded(first)
            _scribble(first)
            again = [c for c in fore]
            if _canon_loaded(again) != want:
                raise WalkError("store=False: after the caller overwrote the arrays of the catalogs of the first pass, the second "
                                "pass gives other catalogs")
            return again
        if walk == "plain":
            return [c for c in fore]
        seen = []
        if walk in ("next1", "next2"):
            for _ in range(1 if walk == "next1" else 2):
                try:
                    seen.append(next(fore))
                except StopIteration:
                    break
        elif walk == "break1":
            for c in fore:
                seen.append(c)
                break
        exhausted = walk in ("next1", "next2") and len(seen) < (1 if walk == "next1" else 2)
        rest = [] if exhausted else [c for c in fore]
        first = seen + rest
        again = [c for c in fore]
        a, b = _canon_loaded(first), _canon_loaded(again)
        if a != b:
            raise WalkError(f"walk {walk}: the first pass (look at {len(seen)} + rest) gave {a[:300]} but reading the forecast "
                            f"again gave {b[:300]}")
        # (n_cat after a full pass is C13's subject: not judged here)
        return first
    return list(_call(which, path, variant, fmt))


def _lazy(path, which, csep_format=False):
    """the loader consumed one catalog at a time: (canonical forms of the catalogs received, class of the exception or None)"""
    import csep
    from csep.core.catalogs import CSEPCatalog
    fmt = dict(format="csep") if csep_format else {}
    got, err = [], None
    try:
        if which == "load_ascii_catalogs":
            it = CSEPCatalog.load_ascii_catalogs(path)
        elif which == "load_catalog_forecast":
            it = csep.load_catalog_forecast(path, **fmt)
        else:
            it = csep.load_stochastic_event_sets(path, **fmt)
        for c in it:
            got.append(_canon_loaded([c])[3:])
    except Exception as e:
        err = type(e).__name__
    return got, err


def _impl(path, which, walk="plain", csep_format=False, variant=0, strict_warnings=False):
    import warnings
    try:
        if strict_warnings:
            # numeric / user warnings raised as errors while the file loads (DeprecationWarning is left alone: the catalog
            # constructor of the unchanged tree calls datetime.utcnow()); numpy's divide / invalid errors raised; a decimal
            # context of very low precision in force
            import decimal
            import numpy
            with warnings.catch_warnings(), numpy.errstate(divide="raise", invalid="raise"), decimal.localcontext() as dctx:
                dctx.prec = 2 + variant % 5
                # a WARNING alone is never a violation: only numpy's divide / invalid ERROR state and the decimal context are forced
                return _canon_loaded(_load(path, which, walk, csep_format, variant))
        return _canon_loaded(_load(path, which, walk, csep_format, variant))
    except WalkError as e:
        return "walk:" + str(e)
    except Exception as e:  # canonical: rejected, with the class kept for the histogram
        return "err:" + type(e).__name__


class Ctx:
    def __init__(self, run):
        self.run = run
        self.drv = Driver()
        self.pending = []
        self.meta = []
        self.dir = tempfile.mkdtemp(prefix="verif_c12_")
        self.k = 0

    def close(self):
        shutil.rmtree(self.dir, ignore_errors=True)


def check_case(ctx, spec, tag, loaders=LOADERS):
    run = ctx.run
    text, model, expected = build(spec)
    eol = spec.get("eol", "\n")
    body = eol.join(text) + (eol if spec.get("trailing_newline", True) else "")
    ctx.k += 1
    path = os.path.join(ctx.dir, f"fc{ctx.k}.csv")
    if spec.get("fname"):
        os.makedirs(os.path.join(ctx.dir, f"d{ctx.k}"), exist_ok=True)
        path = os.path.join(ctx.dir, f"d{ctx.k}", spec["fname"])
        run.count("file name:" + spec["fname"])
    with open(path, "w", newline="") as f:
        f.write(body)
    n = len(spec["cats"])
    n_empty = sum(1 for c in spec["cats"] if not c)
    small = len(body) < 4000
    zone = spec.get("tz")
    if spec.get("idclass") and "walk" not in spec:
        spec = dict(spec, walk="plain")      # (known-finding classes: the whole-file outcome is matched, no interleaved operations)
    case = dict(tag=tag, n_cat=n, n_empty=n_empty, header=spec["header"], mutation=spec.get("mutation"), tz=zone,
                spec=spec if small else None, sha1=hashlib.sha1((body + "|" + str(zone)).encode()).hexdigest())
    full_case = dict(case, spec=spec)
    nontrivial = (n >= 2 and n_empty > 0) or expected is None
    run.case(case, case["sha1"] if nontrivial else None)
    run.count("reject" if expected is None else ("with-empty" if n_empty else "all-present"))
    run.count("tz:" + str(zone))
    if spec.get("idclass"):
        run.count("file with event ids of class: " + spec["idclass"])
    if any(len({tuple(e) for e in c}) < len(c) for c in spec["cats"]):
        run.count("catalog with events identical in all six fields")
    if spec.get("quoting", "minimal") != "minimal" or eol != "\n":
        run.count(f"csv-dialect:{spec.get('quoting', 'minimal')}/{'CRLF' if eol != chr(10) else 'LF'}")
    # trusted-base fact used by the oracle: the written numeric text is read by float() as a finite double (the expected
    # value IS float(text); for repr spellings float(repr(x)) == x, for the others the generator has checked the value)
    for c in spec["cats"]:
        for e in c:
            for j in (0, 1, 2, 5):
                v = float(e[j])
                if v != v or v in (float("inf"), float("-inf")):
                    raise RuntimeError(f"non-finite numeric field {e[j]}")
                if repr(v) != e[j]:
                    run.count("numeric field not in repr spelling" + (" (exponent)" if "e" in e[j].lower() else ""))
                elif "e" in e[j]:
                    run.count("numeric field in exponent notation (repr)")
            if any(ch in e[6] for ch in ',"') or e[6] != e[6].strip():
                run.count("event id needing csv quoting / with blanks")
            if "\n" in e[6] or "\r" in e[6]:
                run.count("event id with a line break (record spans physical lines)")
    want = None if expected is None else _canon_expected(expected)
    outs = {}
    walk = spec.get("walk") or WALKS[int(case["sha1"][:6], 16) % len(WALKS)]
    run.count("walk over load_catalog_forecast:" + walk)
    csep_format = int(case["sha1"][6:8], 16) % 4 == 0      # a quarter of the files: format='csep' in the two top-level loaders
    if csep_format:
        run.count("format='csep'")
    # the way the three loaders are called (positional / keyword, keywords that must not matter) and whether numeric and
    # user warnings are errors while loading: from the content hash, or pinned by a corpus / replay case
    variant = spec.get("variant", int(case["sha1"][8:11], 16) % 60 if int(case["sha1"][11], 16) < 6 else 0)
    strict_w = spec.get("strict_warnings", int(case["sha1"][12], 16) < 2)
    if walk in ("ops", "copy"):
        variant = spec.get("variant", int(case["sha1"][8:13], 16))       # seeds the operations of the walk
    _RUN[:] = [run]
    if variant:
        run.count("call variant (positional / keyword / inert keywords)")
    if strict_w:
        run.count("loaded with RuntimeWarning / UserWarning / FutureWarning as errors")
    lazy = {}
    want_cats = [] if expected is not None else _canon_expected(
        [[i, [[e[6], e[4], e[1], e[0], e[5], e[2]] for e in c]] for i, c in enumerate(spec["cats"])])[3:].split(";")
    for which in loaders:
        with local_zone(zone):
            if expected is None:
                # a file that must be rejected is consumed LAZILY: what arrives before the exception is recorded
                seen, err = _lazy(path, which, csep_format)
                got = "err:" + err if err else "ok:" + ";".join(seen)
                lazy[which] = seen
                run.count("lazy consumption: catalogs received before the rejection", len(seen))
                # every catalog COMPLETED before the offending row and delivered is the file's catalog with that id; whether
                # anything else is delivered between the offending row and the exception is not for this property
                ids_ = [int(r[5]) for r in build_rows(dict(spec, header=False, mutation=None))[0]]
                kbad = spec["mutation"][1]
                done = ids_[kbad - 1] if 0 < kbad <= len(ids_) else 0      # catalogs 0 .. id of the predecessor row - 1
                run.count("lazy consumption: " + ("exactly the completed catalogs" if len(seen) == done else
                                                  ("fewer (eager rejection)" if len(seen) < done else "more than the completed catalogs")))
                seen = seen[:done]
                lazy[which] = seen
                if seen != want_cats[:len(seen)]:
                    run.oracle_failure(full_case, f"{which}: consumed lazily, the catalogs delivered before the rejection are "
                                                  f"not the leading catalogs of the file: got {';'.join(seen)[:300]} expected a "
                                                  f"prefix of {';'.join(want_cats)[:300]}")
            else:
                got = _impl(path, which, walk, csep_format, variant, strict_w)
        outs[which] = got
        if got.startswith("walk:"):
            run.oracle_failure(full_case, f"{which}: {got[5:]}")
            outs.pop(which)
            continue
        if expected is None:
            if got.startswith("err:"):
                run.count("reject-class-" + got[4:])
            elif spec["mutation"][0] == "header_at":
                # a second header line after the first data row: today's loader reads it as a data row and fails; the property
                # speaks of decreasing ids only, so a loader that skips it is as good — provided it then delivers the file's catalogs
                run.count("header line after the first row: accepted")
                if got != "ok:" + ";".join(want_cats):
                    run.oracle_failure(full_case, f"{which}: a stray header line was accepted but the catalogs delivered are not "
                                                  f"the file's: {got[:300]}")
                outs[which] = "tolerated"
            else:
                run.oracle_failure(full_case, f"{which}: a file with decreasing catalog ids was accepted: {got[:300]}")
        elif got != want:
            ids_ = [e[6] for c in spec["cats"] for e in c]
            nonascii = any(ord(ch) > 127 for i_ in ids_ for ch in i_)
            toolong = any(len(i_.encode("utf-8")) > 256 for i_ in ids_)
            sig = None
            if nonascii and got == "err:UnicodeEncodeError":
                sig = SIG_D45        # D45: the whole catalog is refused (known finding; any OTHER outcome is a violation)
            elif toolong and got == _canon_expected(
                    [[i, [[_trunc256(e[6]), e[4], e[1], e[0], e[5], e[2]] for e in c]] for i, c in enumerate(spec["cats"])]):
                sig = SIG_D46        # D46: everything right except that ids are cut at 256 bytes
            if sig:
                run.count("known-finding class: " + sig)
                outs[which] = "known"
            run.oracle_failure(full_case, f"{which}: loaded catalogs differ from the encoded ones: got {got[:400]} "
                                          f"expected {want[:400]}", signature=sig)
    if spec.get("fname"):
        _file_meta(ctx, path, spec)
    os.unlink(path)
    if spec.get("oracle_only"):
        # (a file of > 2^16 rows in the quick tier: the exact oracle judges it; the Lean text model would need ~30 s for it)
        run.count("judged by the oracle only (size)")
        return
    i = ctx.drv.ask("c12_decode " + (";".join(model) if model else "-"))
    # the same file handed to the TEXT-level model as characters (csv state machine incl. records that span lines, float(),
    # int(), strptime in Lean), consumed lazily: the catalogs yielded, then the end or the exception
    it = ctx.drv.ask("c12_stream " + hexs(body))
    ctx.pending.append((full_case, i, outs, it, lazy))


def _file_meta(ctx, path, spec):
    """name / start_time defaults parsed from the file name (csep/__init__.py:508-519, catalogs.py:940-947, :986-990), and
    explicit keywords winning over them: compared with AsciiCatalogs.parseFilename / forecastMeta (recorded, not judged:
    the property is about the catalogs)"""
    import csep
    from csep.core.catalogs import CSEPCatalog
    try:
        fore = csep.load_catalog_forecast(path)
        name, st = fore.name, fore.start_time
        cats = list(CSEPCatalog.load_ascii_catalogs(path))
        cname = cats[0].name if cats else None
        fore2 = csep.load_catalog_forecast(path, name="given", start_time=EPOCH.replace(year=2001, tzinfo=datetime.timezone.utc))
        kept = fore2.name == "given" and fore2.start_time.year == 2001
    except Exception as e:
        ctx.run.count("file-name defaults: load raised " + type(e).__name__)
        return
    us = None if st is None else ((st.replace(tzinfo=None) - EPOCH) // datetime.timedelta(microseconds=1))
    j = ctx.drv.ask("c12_fname " + hexs(path))
    ctx.meta.append((j, name, us, cname, kept, spec["fname"]))


def flush(ctx):
    out = ctx.drv.run()
    for case, i, outs, it, lazy in ctx.pending:
        cats, _, end = out[it].rpartition("#")
        mtext = ("ok:" + ("" if cats == "-" else cats)) if end == "end" else (end if end.startswith("err:") else "bad:" + out[it][:80])
        for tag, m in (("rows", out[i]), ("text", mtext)):
            for which, got in outs.items():
                if got in ("tolerated", "known"):
                    continue
                same = (got == m) if m.startswith("ok:") else got.startswith("err:")
                if not same:
                    ctx.run.mismatch(dict(case, loader=which, model=tag), got[:600], m[:600])
        ctx.run.count("text-level model asked")
        if end.startswith("err:"):
            # the lazy consumer of the implementation has received a prefix of what the model's lazy consumer receives
            # (an implementation that validates the whole file before yielding anything is as good: shorter is allowed)
            myield = [] if cats == "-" else cats.split(";")
            for which, seen in lazy.items():
                ctx.run.count("lazy consumption compared with the model")
                seen = seen[:len(myield)]
                if seen != myield[:len(seen)]:
                    ctx.run.mismatch(dict(case, loader=which, model="stream"), ";".join(seen)[:600], out[it][:600])
    for j, name, us, cname, kept, fname in ctx.meta:
        m = out[j]
        want = (None, None) if m == "none" else (c11_text.unhexs(m.split(",")[0]), int(m.split(",")[1]))
        ok = (name, us) == want and kept and cname == want[0]
        ctx.run.count("file-name defaults " + ("agree with the model" if ok else f"DIFFER ({fname})"))
    ctx.meta = []
    ctx.pending = []
    ctx.drv = Driver()


def _field_stream(run, rng, n):
    """csv records and time strings, one at a time: csv.reader on one line / strptime_to_utc_epoch with the two formats of
    read_catalog_line, against AsciiCatalogs.csvFields / parseTime"""
    from csep.utils.time_utils import strptime_to_utc_epoch
    drv, asks = Driver(), []
    alphabet = ['"', '"', ",", ",", "a", "b", " ", "1", ".", '""', ',"', '",', "x y", "-"]
    for _ in range(n):
        line = "".join(rng.choice(alphabet) for _ in range(rng.randint(0, 9)))
        # a second line tells whether the record ended with the line (a quoted field left open swallows the line break:
        # such records are outside the text-level model, which answers `none`)
        rec = list(csv.reader(io.StringIO(line + "\nZ\n", newline=""), delimiter=","))
        closed = len(rec) == 2 and rec[1] == ["Z"]
        want = "none" if not closed else ("empty" if not rec[0] else ",".join(hexs(f) for f in rec[0]))
        asks.append(("csv", line, want, drv.ask("c12_csv " + hexs(line))))
    # whole texts through csv.reader as load_ascii_catalogs uses it (file opened with newline=''): a quoted field may contain
    # line breaks, the record then spans physical lines; an open quoted field is closed at the end of the input
    alphabet2 = alphabet + ["\n", "\n", "\r\n", "\r", '"\n', '\n"', "\n\n"]
    for _ in range(n // 2):
        text = "".join(rng.choice(alphabet2) for _ in range(rng.randint(0, 14)))
        try:
            recs = list(csv.reader(io.StringIO(text, newline=""), delimiter=","))
            want = ";".join("empty" if not r else ",".join(hexs(f) for f in r) for r in recs) if recs else "norecords"
        except csv.Error:
            want = "error"
        asks.append(("csv-text", text, want, drv.ask("c12_csvml " + hexs(text))))
    good = ["%Y-%m-%dT%H:%M:%S.%f", "%Y-%m-%dT%H:%M:%S"]
    for _ in range(n):
        ts, _ms = _time(rng)
        k = rng.random()
        if k < 0.35:
            t = list(ts)
            j = rng.randrange(len(t))
            t[j] = rng.choice("0123456789-:T. ")
            if rng.random() < 0.3:
                t.insert(rng.randrange(len(t) + 1), rng.choice("0123456789"))
            ts = "".join(t)
        elif k < 0.45:
            ts = rng.choice(["2020-02-30T00:00:00", "2021-02-29T01:01:01.5", "2020-02-29T23:59:59.999999", "2020-13-01T00:00:00",
                             "2020-00-10T00:00:00", "2020-1-1T24:00:00", "2020-1-1T23:60:00", "2020-1-1T23:59:60", "2020-1-1T23:59:61",
                             "0000-01-01T00:00:00", "0001-01-01T00:00:00", "9999-12-31T23:59:59.999999", "2020-01-01T00:00:00.1234567",
                             "2020-01-01T00:00:00.", "2020-01-01 00:00:00", "2020-01-01T00:00", "20-01-01T00:00:00", "2020-1-1T0:0:0",
                             "2020-001-01T00:00:00", "2020-01-01T000:00:00", " 2020-01-01T00:00:00", "2020-01-01T00:00:00 ",
                             "2020-01- 1T00:00:00", "1900-01-01T00:00:00.000001", "1969-12-31T23:59:59.9995"])
        want = None
        for fmt in good:
            try:
                want = int(strptime_to_utc_epoch(ts, format=fmt))
                break
            except ValueError:
                continue
        asks.append(("time", ts, "none" if want is None else str(want), drv.ask("c12_time " + hexs(ts))))
    out = drv.run()
    for kind, text, want, i in asks:
        run.count(f"field:{kind}:" + ("refused" if want in ("none", "error") else "read"))
        if out[i] != want:
            run.mismatch(dict(kind=f"field:{kind}", text=text), want, out[i])


def _option_cases(run, rng, n):
    """which calls of csep.load_stochastic_event_sets / csep.load_catalog_forecast are refused before a line is read and which
    reach the decoder (csep/__init__.py:65-110, :478-521), against AsciiCatalogs.sesDispatch / cfDispatch; calls that reach
    the decoder must deliver the catalogs of the file"""
    import csep
    from csep.core.catalogs import CSEPCatalog
    d = tempfile.mkdtemp(prefix="verif_c12o_")
    drv, asks = Driver(), []
    body = "1.0,2.0,3.0,2020-01-01T00:00:00,4.0,0,a\n,,,,,1,\n1.5,2.5,3.5,2020-01-02T00:00:00.5,4.5,3,b\n"
    want = "0|xa~1577836800000~2~1~4~3;1|;2|;3|xb~1577923200500~5/2~3/2~9/2~7/2".replace("xa", _mid("a")).replace("xb", _mid("b"))
    try:
        for k in range(n):
            path = os.path.join(d, rng.choice(["f%d.csv" % k, "m_2020-01-01T00-00-00-0.csv", "f%d" % k]))
            exists = rng.random() < 0.85
            if exists:
                with open(path, "w", newline="") as f:
                    f.write(body)
            if rng.random() < 0.5:
                ty = rng.choice(["csv", "csv", "csv", "ascii", "CSV", "", "csep", "ucerf"])
                fm = rng.choice(["native", "csep", "native", "Native", "zmap", "", "CSEP"])
                case = dict(kind="option:load_stochastic_event_sets", type=ty, format=fm, exists=exists)
                if not exists:
                    continue
                try:
                    got = "delivered:" + _canon_loaded(list(csep.load_stochastic_event_sets(path, type=ty, format=fm)))[3:]
                except Exception as e:
                    got = "refused:" + type(e).__name__
                asks.append((case, got, drv.ask(f"c12_ses {hexs(ty)} {hexs(fm)}")))
            else:
                lk = rng.choice(["none", "none", "callable", "notcallable"])
                ty = rng.choice(["ascii", "ascii", "csv", "", "ASCII"])
                fm = rng.choice(["native", "csep", "native", "other"])
                called = []

                def own(filename=None, **kw):
                    called.append(sorted(kw))
                    return CSEPCatalog.load_ascii_catalogs(filename, **kw)
                arg = dict(none=None, callable=own, notcallable=rng.choice([3, "load_ascii_catalogs", [1]]))[lk]
                case = dict(kind="option:load_catalog_forecast", type=ty, format=fm, exists=exists, loader=lk)
                try:
                    fore = csep.load_catalog_forecast(path, catalog_loader=arg, format=fm, type=ty)
                    got = "forecast:" + ("own" if lk == "callable" else "default")
                    cats = _canon_loaded([c for c in fore])[3:]
                    if cats != want or (lk == "callable") != bool(called):
                        run.oracle_failure(case, f"a call that was accepted did not deliver the catalogs of the file: {cats[:200]}")
                except Exception as e:
                    got = "refused:" + type(e).__name__
                asks.append((case, got, drv.ask(f"c12_cf {1 if exists else 0} {lk} {hexs(fm)} {hexs(ty)}")))
            if exists:
                os.unlink(path)
        out = drv.run()
        for case, got, i in asks:
            m = out[i]
            run.count(case["kind"] + ":" + got.split(":")[0] + ":" + m.split(":")[0])
            if m in ("csv-native", "csv-csep"):
                ok = got == "delivered:" + want
            elif m.startswith("ValueError"):
                ok = got == "refused:ValueError"
            elif m.startswith("forecast:"):
                ok = got == ":".join(m.split(":")[:2])
            elif m == "ucerf3":
                ok = True
            else:
                ok = got == "refused:" + m
            if not ok:
                reaches = m in ("csv-native", "csv-csep") or m.startswith("forecast:")
                if got.startswith("delivered:") and got != "delivered:" + want:
                    run.oracle_failure(case, f"accepted, but the catalogs delivered are not the file's: {got[:300]}")
                elif reaches:
                    # a call that must reach the decoder is refused / served by another loader: the file is not loaded
                    run.mismatch(case, got[:300], m)
                else:
                    # the model refuses (or says another exception class) and the implementation accepts and delivers the
                    # right catalogs / refuses otherwise: option handling beyond the property, recorded only
                    run.count("option handling differs from the model where the property is silent")
    finally:
        shutil.rmtree(d, ignore_errors=True)


# ----------------------------------------------------------------------------- tiers
def _repeat_events(rng, cats, p=0.25):
    """events identical in all six fields: inside a catalog (adjacent or distant copies, sometimes a catalog of copies of
    one event) and across neighbouring catalogs (the rows then differ only in the catalog id). Every copy is an event."""
    for c in cats:
        if len(c) >= 2 and rng.random() < p:
            if rng.random() < 0.2:
                c[:] = [list(c[0]) for _ in c]
            else:
                i = rng.randrange(len(c))
                j = (i + 1) % len(c) if rng.random() < 0.6 else rng.randrange(len(c))
                c[j] = list(c[i])
    full = [c for c in cats if c]
    for a, b in zip(full, full[1:]):
        if rng.random() < p / 3:
            b[0] = list(a[-1])
    return cats


FNAMES = [None, None, None, None, "ucerf3-etas_2019-07-06T03-19-54-040000.csv", "model_2020-01-01T0-0-0-0.csv",
          "a_b_c.csv", "x.y_z.csv", "forecast_1992-06-28T11-57-34-123456_v2.csv", "no-underscore.csv", "_leading.csv",
          "name_not-a-time.csv", "UPPER_2010-02-30T00-00-00-0.csv", "etas_2019-07-06T03-19-54-040000", "cat.forecast.CSV",
          "lon_lat.csv", "0_0.csv"]


def _dialect(rng, k):
    """file-level options: local time zone of the loading process (cycled), csv quoting style, line terminator, file name
    (the loaders derive a default name / start time from `<name>_<%Y-%m-%dT%H-%M-%S-%f>.*`; the catalogs must not care)"""
    return dict(tz=ZONES[k % len(ZONES)], quoting=rng.choice(["minimal"] * 6 + ["all", "id"]),
                eol="\r\n" if rng.random() < 0.2 else "\n", fname=rng.choice(FNAMES))


def _exhaustive(ctx, rng, nmax):
    count = 0
    for n in range(1, nmax + 1):
        for sizes in itertools.product(range(3), repeat=n):
            empt = [i for i in range(n - 1) if sizes[i] == 0]
            for bits in itertools.product([True, False], repeat=len(empt)):
                choices = [True] * n
                for i, b in zip(empt, bits):
                    choices[i] = b
                for header in (False, True):
                    k = 0
                    cats = []
                    for s in sizes:
                        cats.append([_event(rng, k + j) for j in range(s)])
                        k += s
                    _repeat_events(rng, cats)
                    spec = dict(cats=cats, choices=choices, header=header, header_case=rng.randrange(2),
                                trailing_newline=rng.random() < 0.5, **_dialect(rng, count))
                    if rng.random() < 0.02:
                        spec["idclass"] = rng.choice(["nonascii", "long"])
                        _apply_idclass(rng, spec)
                    check_case(ctx, spec, f"exhaustive-n{n}")
                    count += 1
    return count


def _random_forecast(rng, big, idclass_ok=False):
    # (idclass_ok: the file may carry ids of the known-finding classes D45 / D46; off by default — harness/src_tie_sm.py uses
    # this generator for the executable source tie, whose model has no id column)
    n = rng.randint(100, 600) if big else rng.randint(1, 40)
    cats, choices = [], []
    i = 0
    style = rng.choice(["sparse", "dense", "mixed", "verbose"])
    while len(cats) < n:
        r = rng.random()
        if style == "sparse" and r < 0.6 or style == "mixed" and r < 0.3:
            gap = rng.randint(1, 50)
            for _ in range(min(gap, n - len(cats))):
                cats.append([])
                choices.append(False)
        elif style in ("verbose", "mixed") and r < 0.6:
            run_len = rng.randint(1, 5)
            for _ in range(min(run_len, n - len(cats))):
                cats.append([])
                choices.append(True)
        else:
            m = rng.choice([1, 1, 2, 3, 5, 40]) if rng.random() < 0.9 else 0
            cats.append([_event(rng, i + j) for j in range(m)])
            choices.append(rng.random() < 0.5)
            i += m
    _repeat_events(rng, cats)
    spec = dict(cats=cats, choices=choices, header=rng.random() < 0.5, header_case=rng.randrange(2),
                trailing_newline=rng.random() < 0.5, **_dialect(rng, rng.randrange(len(ZONES))))
    if idclass_ok and rng.random() < 0.04:
        spec["idclass"] = rng.choice(["nonascii", "long"])
        _apply_idclass(rng, spec)
    return spec


def _mutate(rng, spec):
    """lower one row's id below its predecessor's (or put a header line after the first row)"""
    rows, _, _ = build_rows(dict(spec, header=False, mutation=None))
    ids = [int(r[5]) for r in rows]
    if len(ids) < 2:
        return None
    if rng.random() < 0.15:
        return dict(spec, mutation=["header_at", rng.randrange(1, len(ids) + 1), 0])
    cands = [k for k in range(1, len(ids)) if ids[k - 1] >= 1] or None
    if cands is None or rng.random() < 0.1:
        k = rng.randrange(1, len(ids))
        return dict(spec, mutation=["set_id", k, ids[k - 1] - rng.randint(1, 3)])  # may be negative
    k = rng.choice(cands)
    return dict(spec, mutation=["set_id", k, rng.randrange(0, ids[k - 1])])


def run(run, rng, tier):
    ctx = Ctx(run)
    try:
        # the text layer (float(), int(), repr) of the running Python against Model/DecimalText.lean
        run.extra["text_tokens_compared"] = c11_text.token_stream(run, rng, 600 if tier == "quick" else 8000)
        _field_stream(run, rng, 400 if tier == "quick" else 4000)
        _option_cases(run, rng, 120 if tier == "quick" else 1200)
        # corpus first
        cdir = os.path.join(os.path.dirname(os.path.dirname(os.path.abspath(__file__))), "corpus", "C12")
        if os.path.isdir(cdir):
            import json
            for fn in sorted(os.listdir(cdir)):
                if fn.endswith(".json"):
                    check_case(ctx, json.load(open(os.path.join(cdir, fn)))["spec"], "corpus-" + fn)
        # the repository's own fixtures, re-expressed as specs (10 catalogs each)
        e = ["1.0", "1.0", "1.0", "1992-01-01T0:0:0.0", 694224000000, "1.0", "1"]
        fixtures = {
            "all_empty": dict(cats=[[]] * 10, choices=[False] * 10),
            "all_empty_verbose": dict(cats=[[]] * 10, choices=[True] * 10),
            "all_present": dict(cats=[[e]] * 10, choices=[True] * 10),
            "last_empty": dict(cats=[[e]] + [[]] * 9, choices=[False] * 10),
            "some_empty": dict(cats=[[], [], [], [e], [], [], [], [e], [], []],
                               choices=[False, False, False, True, False, True, False, True, False, True]),
            "some_missing_verbose": dict(cats=[[], [], [], [e], [], [], [], [e], [], []], choices=[True] * 10)}
        for name, sp in fixtures.items():
            check_case(ctx, dict(sp, header=False, trailing_newline=False), "fixture-" + name)
        # sizes beyond 2^16: a gap of more than 65 536 omitted catalogs, more than 65 536 rows in one file, more than 65 536
        # events in one catalog (thorough: several of each, header / placeholder variants)
        big = [dict(cats=[[_event(rng, 0)]] + [[]] * (65536 + rng.randint(1, 5000)) + [[_event(rng, 1)]],
                    choices=[False] * 70600, header=rng.random() < 0.5),
               dict(cats=[[_event(rng, k) for k in range(22000 + rng.randint(0, 50))] for _ in range(3)], choices=[True] * 3,
                    header=rng.random() < 0.5, oracle_only=(tier == "quick"))]
        if tier != "quick":
            big += [dict(cats=[[_event(rng, k) for k in range(65537 + rng.randint(0, 300))], [], [_event(rng, 5)]],
                         choices=[True, rng.random() < 0.5, True], header=False),
                    dict(cats=[[]] * 65600 + [[_event(rng, 2)]], choices=[rng.random() < 0.01 for _ in range(65601)], header=True)]
        for sp in big:
            run.count("file beyond 2^16 rows / catalogs")
            check_case(ctx, dict(sp, header_case=0, trailing_newline=True, tz=None, quoting="minimal", eol="\n", fname=None,
                                 walk="plain"), "beyond-2^16",
                       loaders=LOADERS if tier != "quick" or not sp.get("oracle_only") else LOADERS[:2])
            flush(ctx)
        run.extra["exhaustive_cases"] = _exhaustive(ctx, rng, 5 if tier == "quick" else 6)
        run.extra["exhaustive"] = True
        flush(ctx)
        n_small, n_big, n_mut = (320, 32, 250) if tier == "quick" else (5000, 500, 4000)
        for _ in range(n_small):
            check_case(ctx, _random_forecast(rng, False, idclass_ok=True), "random-small")
        flush(ctx)
        for k in range(n_big):
            check_case(ctx, _random_forecast(rng, True, idclass_ok=True), "random-big")
            if k % 10 == 9:
                flush(ctx)
        flush(ctx)
        done = 0
        while done < n_mut:
            sp = _mutate(rng, _random_forecast(rng, rng.random() < 0.03, idclass_ok=False))
            if sp is None:
                continue
            check_case(ctx, sp, "malformed")
            done += 1
        flush(ctx)
        dead = sorted(z for z, ok in _ZONE_OK.items() if not ok)
        run.extra["local_zones_effective"] = sorted(z for z, ok in _ZONE_OK.items() if ok)
        if dead:
            run.assumptions.append(f"time zones {dead} are unknown to the C library here (local time stayed UTC under them)")
    finally:
        ctx.close()


def replay(run, payload):
    case = payload["case"]
    if isinstance(case, dict) and case.get("kind") in c11_text.TOKEN_KINDS:
        c11_text.replay_token(run, case)
        return
    if isinstance(case, dict) and str(case.get("kind", "")).startswith("option:"):
        import random
        _option_cases(run, random.Random(payload.get("seed", 0)), 300)
        return
    if isinstance(case, dict) and str(case.get("kind", "")).startswith("field:"):
        import random
        _field_stream(run, random.Random(payload.get("seed", 0)), 2000)
        return
    spec = case["spec"]
    ctx = Ctx(run)
    try:
        loaders = (case["loader"],) if case.get("loader") in LOADERS else LOADERS
        check_case(ctx, spec, "replay", loaders)
        flush(ctx)
    finally:
        ctx.close()
