"""Executable source tie of the imperative / stateful translator: feeds generated inputs to BOTH the real Python function
(tree under test) and the Lean definition generated from its source (`SrcSM.<f>`, driver ops `srcsm_<f>` of
lean/PycsepVerif/Drive/SrcSM.lean) and compares outcomes exactly (arrays of counts, yielded records, exception class).

This validates the TRUSTED translator (harness/py2lean_sm.py) and prelude (lean/PycsepVerif/PyPreludeSM.lean). A disagreement
is a LOST TIE of that function (reported as SOURCE-TIE-LOST by the caller), never a verdict and never a harness error.

Hidden state is fed explicitly: the global numpy generator is replaced, while the real function runs, by a feeder that hands
out the same finite stream of uniform numbers the Lean definition receives (`rng-exhausted` when it is used up); the fuel of a
`while` loop is `len(stream) + 1`.
"""
from .core import Driver, flist, ilist, next_up, next_down


class _Exhausted(Exception):
    pass


class _Feeder:
    """stand-in for numpy.random.uniform / rand while a real function runs"""

    def __init__(self, stream):
        self.stream, self.pos = list(stream), 0

    def uniform(self, lo=0.0, hi=1.0, size=None):
        assert (lo, hi, size) == (0, 1, None)
        if self.pos >= len(self.stream):
            raise _Exhausted()
        self.pos += 1
        return self.stream[self.pos - 1]

    def rand(self, *shape):
        import numpy
        assert len(shape) == 1
        n = int(shape[0])
        if self.pos + n > len(self.stream):
            raise _Exhausted()
        self.pos += n
        return numpy.array(self.stream[self.pos - n:self.pos], dtype=numpy.float64)


class _numpy_random:
    def __init__(self, feeder):
        self.feeder = feeder

    def __enter__(self):
        import numpy
        self.saved = (numpy.random.uniform, numpy.random.rand)
        numpy.random.uniform, numpy.random.rand = self.feeder.uniform, self.feeder.rand

    def __exit__(self, *a):
        import numpy
        numpy.random.uniform, numpy.random.rand = self.saved


def _outcome(f):
    """-> canonical outcome text of a call"""
    try:
        return f()
    except _Exhausted:
        return "err rng-exhausted"
    except AssertionError:
        return "err AssertionError"
    except IndexError:
        return "err IndexError"
    except ValueError:
        return "err ValueError"
    except StopIteration:
        return "err StopIteration"
    except TypeError:
        return "err TypeError"
    except AttributeError:
        return "err AttributeError"


# ----------------------------------------------------------------------------- C06 generators
def _weights(rng):
    """non-decreasing float64 weights ending in exactly 1 (what `cumsum / cumsum[-1]` gives), repeated values included"""
    import numpy
    m = rng.choice([1, 2, 3, 4, 6, 9, 15])
    rates = [rng.choice([0.0, rng.uniform(0, 1), 10.0 ** rng.uniform(-8, 2)]) for _ in range(m)]
    if sum(rates) == 0:
        rates[rng.randrange(m)] = 1.0
    c = numpy.cumsum(numpy.array(rates, dtype=numpy.float64))
    return [float(x) for x in c / c[-1]]


def _draws(rng, ws, n, allow_out=True):
    out = []
    for _ in range(n):
        k = rng.random()
        if k < 0.55:
            out.append(rng.random())
        elif k < 0.85:
            w = rng.choice(ws)
            out.append(rng.choice([w, next_down(w), next_up(w) if w < 1 else next_down(w), 0.0]))
        elif k < 0.95 or not allow_out:
            out.append(next_down(1.0))
        else:
            out.append(rng.choice([1.0, 1.5]))          # outside [0,1): IndexError of numpy.add.at / sim_fore[loc]
    return [float(x) for x in out]


def _sim_fore(rng, m):
    import numpy
    return numpy.array([float(rng.choice([0, 0, 1, 3])) for _ in range(m)], dtype=numpy.float64)


def _arr_text(a):
    return ilist(int(x) for x in a)


def _tie_injected(mod_name, op):
    def tie(rng, n):
        import importlib
        import numpy
        mod = importlib.import_module(mod_name)
        drv, exp = Driver(), []
        for _ in range(max(20, n // 4)):
            ws = _weights(rng)
            k = rng.choice([0, 1, 2, 3, 5, 8])
            draws = _draws(rng, ws, k)
            nev = k if rng.random() < 0.8 else k + rng.choice([-1, 1, 2])       # a wrong prescribed count: AssertionError
            nev = max(nev, 0)
            sf = _sim_fore(rng, len(ws) if rng.random() < 0.9 else len(ws) + rng.choice([-1, 1]) if len(ws) > 1 else 1)
            sf_text = _arr_text(sf)

            def call():
                r = mod._simulate_catalog(nev, numpy.array(ws), sf, random_numbers=numpy.array(draws, dtype=numpy.float64))
                assert r is sf, "result is not the array updated in place"
                return "ok " + _arr_text(r)
            exp.append((dict(n=nev, ws=ws, sim_fore=sf_text, draws=draws), _outcome(call)))
            drv.ask(f"{op} {nev} {flist(ws)} {sf_text} {flist(draws)}")
        out = drv.run()
        return len(exp), [(c, a, b) for (c, a), b in zip(exp, out) if a != b]
    return tie


def tie_simulate_catalog_rand(rng, n):
    import numpy
    from csep.core import poisson_evaluations as pe
    drv, exp = Driver(), []
    for _ in range(max(20, n // 4)):
        ws = _weights(rng)
        k = rng.choice([0, 1, 2, 3, 5, 8])
        stream = _draws(rng, ws, k + rng.choice([0, 0, 1, 4, -1]) if k else rng.choice([0, 2]))
        sf = _sim_fore(rng, len(ws))
        sf_text = _arr_text(sf)
        fd = _Feeder(stream)

        def call():
            with _numpy_random(fd):
                r = pe._simulate_catalog(k, numpy.array(ws), sf)
            return f"ok {_arr_text(r)} {len(stream) - fd.pos}"
        exp.append((dict(n=k, ws=ws, sim_fore=sf_text, stream=stream), _outcome(call)))
        drv.ask(f"srcsm_simulate_catalog_rand {flist(stream)} {k} {flist(ws)} {sf_text}")
    out = drv.run()
    return len(exp), [(c, a, b) for (c, a), b in zip(exp, out) if a != b]


def tie_simulate_catalog_binary(rng, n):
    import numpy
    from csep.core import binomial_evaluations as be
    drv, exp = Driver(), []
    for _ in range(max(20, n // 4)):
        ws = _weights(rng)
        distinct = len(set(ws))
        target = rng.choice([0, 1, 2, distinct, distinct + 1, rng.randint(0, len(ws) + 1)])
        stream = _draws(rng, ws, rng.choice([0, 1, 3, 8, 20, 40]), allow_out=rng.random() < 0.3)
        sf = _sim_fore(rng, len(ws))
        sf_text = _arr_text(sf)
        fd = _Feeder(stream)

        def call():
            with _numpy_random(fd):
                r = be._simulate_catalog(target, numpy.array(ws), sf)
            assert r is sf, "result is not the array updated in place"
            return f"ok {_arr_text(r)} {len(stream) - fd.pos}"
        exp.append((dict(target=target, ws=ws, sim_fore=sf_text, stream=stream), _outcome(call)))
        drv.ask(f"srcsm_simulate_catalog_binary {len(stream) + 1} {flist(stream)} {target} {flist(ws)} {sf_text}")
    out = drv.run()
    return len(exp), [(c, a, b) for (c, a), b in zip(exp, out) if a != b]


# ----------------------------------------------------------------------------- C12
def tie_load_ascii_catalogs(rng, n):
    """the real generator on generated files against `SrcSM.load_ascii_catalogs` on the rows of the same files (files, row
    encoding and canonical form of the loaded catalogs are those of the owning check, harness/c12.py)"""
    import os
    import tempfile
    from . import c12
    drv, exp = Driver(), []
    d = tempfile.mkdtemp(prefix="srctie_c12_")
    try:
        for i in range(max(25, n // 8)):
            spec = c12._random_forecast(rng, False)
            if rng.random() < 0.35:
                spec = c12._mutate(rng, spec) or spec
            if rng.random() < 0.05:
                spec = dict(spec, cats=[[]], choices=[True], mutation=None)   # one placeholder row (or only a header)
            spec.pop("fname", None)
            text, model, expected = c12.build(spec)
            eol = spec.get("eol", "\n")
            path = os.path.join(d, f"f{i}.csv")
            with open(path, "w", newline="") as f:
                f.write(eol.join(text) + (eol if spec.get("trailing_newline", True) else ""))
            with c12.local_zone(spec.get("tz")):
                got = c12._impl(path, "load_ascii_catalogs")
            os.unlink(path)
            exp.append((dict(lines=model if len(model) < 30 else len(model), mutation=spec.get("mutation")), got))
            drv.ask("srcsm_load_ascii_catalogs " + (";".join(model) if model else "-"))
    finally:
        try:
            os.rmdir(d)
        except OSError:
            pass
    out = drv.run()
    return len(exp), [(c, a[:200], b[:200]) for (c, a), b in zip(exp, out) if a != b]


# ----------------------------------------------------------------------------- C04
_INF = 2 ** 1100        # stands for +inf (log10(0) = -inf at the mainshock instant): above every finite float


class _record_log10:
    """records the arguments of numpy.log10 while the real apply_mct runs (the argument of the nested compute_mct)"""

    def __enter__(self):
        import numpy
        self.saved, self.calls = numpy.log10, []

        def log10(x, *a, **k):
            self.calls.append(float(x))
            return self.saved(x, *a, **k)
        numpy.log10 = log10
        return self

    def __exit__(self, *a):
        import numpy
        numpy.log10 = self.saved


def tie_apply_mct(rng, n):
    """the real method on generated catalogs (generator of harness/c04_mct.py: sorted and unsorted, rows at the window edges,
    magnitudes around the completeness magnitude, empty catalogs) against `SrcSM.apply_mct` on the same rows, the
    transcendental parameters being the values the real run produced"""
    import math
    import numpy
    from . import c04 as base
    from . import c04_mct as cm
    from .core import frac
    drv, exp = Driver(), []
    for _ in range(max(30, n // 5)):
        m_main, mc, epoch = cm.gen_mct_params(rng)
        k = 0 if rng.random() < 0.06 else rng.choice([1, 2, 3, 5, 8, 13, 20])
        rows = cm.gen_mct_rows(rng, m_main, mc, epoch, k, rng.random() < 0.8, nan_ok=False)
        cat = cm._mk(rows)
        with numpy.errstate(all="ignore"), _record_log10() as rec:
            try:
                out = cat.apply_mct(m_main, epoch, mc)
                got = "ok " + ilist(r[0] for r in base.snapshot(out))
                if out is not cat:
                    got = "not-self"
            except Exception as e:
                got = "err " + type(e).__name__
        x = -((mc - m_main + 4.5) / 0.75)
        tbl = []
        for t in dict.fromkeys(rec.calls):
            with numpy.errstate(all="ignore"):
                v = float(m_main - 4.5 - 0.75 * numpy.log10(t))
            tbl += [frac(t), str(_INF) if v == math.inf else frac(v)]
        exp.append((dict(m_main=m_main, mc=mc, epoch=epoch, rows=len(rows)), got))
        drv.ask(f"srcsm_apply_mct {base.enc_events(rows)} {frac(m_main)} {epoch} {frac(mc)} {frac(x)} {frac(10 ** x)} "
                f"{';'.join(tbl) if tbl else '-'}")
    out = drv.run()
    return len(exp), [(c, a[:200], b[:200]) for (c, a), b in zip(exp, out) if a != b]


TIES = {
    "apply_mct": tie_apply_mct,
    "load_ascii_catalogs": tie_load_ascii_catalogs,
    "simulate_catalog": _tie_injected("csep.core.poisson_evaluations", "srcsm_simulate_catalog"),
    "simulate_catalog_binary_injected": _tie_injected("csep.core.binomial_evaluations", "srcsm_simulate_catalog_binary_injected"),
    "simulate_catalog_rand": tie_simulate_catalog_rand,
    "simulate_catalog_binary": tie_simulate_catalog_binary,
}


def run_src_tie_sm(run, rng, tier, prop, names):
    """same contract as src_tie.run_src_tie, for the functions of py2lean_sm.TARGETS named in `names`.
    Records counts in run.extra['src_tie_validated'] (merged) and returns the disagreements."""
    n = 400 if tier == "quick" else 4000
    res, disagreements = {}, []
    for name in names:
        f = TIES.get(name)
        if f is None:
            res[name] = "no executable tie"
            continue
        try:
            total, bad = f(rng, n)
        except Exception as e:   # the real function may fail in unforeseen ways on a changed tree: the property check judges
            res[name] = f"executable tie could not run: {e!r}"[:300]
            disagreements.append((name, res[name]))
            continue
        res[name] = total
        if bad:
            disagreements.append((name, f"generated definition and real function differ on {len(bad)} of {total} inputs, "
                                        f"e.g. {bad[0]}"[:400]))
    run.extra.setdefault("src_tie_validated", {}).update(res)
    if disagreements:
        run.extra.setdefault("src_tie_disagreements", {}).update(dict(disagreements))
    return disagreements
