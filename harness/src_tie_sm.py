"""Executable source tie of the imperative / stateful translator: feeds generated inputs to BOTH the real Python function
(tree under test) and the Lean definition generated from its source (`SrcSM.<f>`, driver ops `srcsm_<f>` of
lean/PycsepVerif/Drive/SrcSM.lean) and compares outcomes exactly (arrays of counts, yielded records, exception class).

This validates the TRUSTED translator (harness/py2lean_sm.py) and prelude (lean/PycsepVerif/PyPreludeSM.lean). A disagreement
is a LOST TIE of that function (reported as SOURCE-TIE-LOST by the caller), never a verdict and never a harness error.

Hidden state is fed explicitly: the global numpy generator is replaced, while the real function runs, by a feeder that hands
out the same finite stream of uniform numbers the Lean definition receives (`rng-exhausted` when it is used up); the fuel of a
`while` loop is `len(stream) + 1`.
"""
from fractions import Fraction

from .core import Driver, flist, ilist, next_up, next_down


class _Exhausted(Exception):
    pass


class _Feeder:
    """stand-in for numpy.random.uniform / rand while a real function runs"""

    def __init__(self, stream):
        self.stream, self.pos = list(stream), 0

    def uniform(self, lo=0.0, hi=1.0, size=None):
        assert (lo, hi, size) == (0, 1, None)
        if self.pos >= len(self.stream):
            raise _Exhausted()
        self.pos += 1
        return self.stream[self.pos - 1]

    def rand(self, *shape):
        import numpy
        assert len(shape) == 1
        n = int(shape[0])
        if self.pos + n > len(self.stream):
            raise _Exhausted()
        self.pos += n
        return numpy.array(self.stream[self.pos - n:self.pos], dtype=numpy.float64)


class _numpy_random:
    def __init__(self, feeder):
        self.feeder = feeder

    def __enter__(self):
        import numpy
        self.saved = (numpy.random.uniform, numpy.random.rand)
        numpy.random.uniform, numpy.random.rand = self.feeder.uniform, self.feeder.rand

    def __exit__(self, *a):
        import numpy
        numpy.random.uniform, numpy.random.rand = self.saved


def _outcome(f):
    """-> canonical outcome text of a call"""
    try:
        return f()
    except _Exhausted:
        return "err rng-exhausted"
    except AssertionError:
        return "err AssertionError"
    except IndexError:
        return "err IndexError"
    except ValueError:
        return "err ValueError"
    except StopIteration:
        return "err StopIteration"
    except TypeError:
        return "err TypeError"
    except AttributeError:
        return "err AttributeError"
    except KeyError:
        return "err KeyError"
    except Exception as e:       # CSEPCatalogException and the like
        if type(e).__name__.startswith("CSEP"):
            return "err Exception"
        raise


# ----------------------------------------------------------------------------- C06 generators
def _weights(rng):
    """non-decreasing float64 weights ending in exactly 1 (what `cumsum / cumsum[-1]` gives), repeated values included"""
    import numpy
    m = rng.choice([1, 2, 3, 4, 6, 9, 15])
    rates = [rng.choice([0.0, rng.uniform(0, 1), 10.0 ** rng.uniform(-8, 2)]) for _ in range(m)]
    if sum(rates) == 0:
        rates[rng.randrange(m)] = 1.0
    c = numpy.cumsum(numpy.array(rates, dtype=numpy.float64))
    return [float(x) for x in c / c[-1]]


def _draws(rng, ws, n, allow_out=True):
    out = []
    for _ in range(n):
        k = rng.random()
        if k < 0.55:
            out.append(rng.random())
        elif k < 0.85:
            w = rng.choice(ws)
            out.append(rng.choice([w, next_down(w), next_up(w) if w < 1 else next_down(w), 0.0]))
        elif k < 0.95 or not allow_out:
            out.append(next_down(1.0))
        else:
            out.append(rng.choice([1.0, 1.5]))          # outside [0,1): IndexError of numpy.add.at / sim_fore[loc]
    return [float(x) for x in out]


def _sim_fore(rng, m):
    import numpy
    return numpy.array([float(rng.choice([0, 0, 1, 3])) for _ in range(m)], dtype=numpy.float64)


def _arr_text(a):
    return ilist(int(x) for x in a)


def _tie_injected(mod_name, op):
    def tie(rng, n):
        import importlib
        import numpy
        mod = importlib.import_module(mod_name)
        drv, exp = Driver(), []
        for _ in range(max(20, n // 4)):
            ws = _weights(rng)
            k = rng.choice([0, 1, 2, 3, 5, 8])
            draws = _draws(rng, ws, k)
            nev = k if rng.random() < 0.8 else k + rng.choice([-1, 1, 2])       # a wrong prescribed count: AssertionError
            nev = max(nev, 0)
            sf = _sim_fore(rng, len(ws) if rng.random() < 0.9 else len(ws) + rng.choice([-1, 1]) if len(ws) > 1 else 1)
            sf_text = _arr_text(sf)

            def call():
                r = mod._simulate_catalog(nev, numpy.array(ws), sf, random_numbers=numpy.array(draws, dtype=numpy.float64))
                assert r is sf, "result is not the array updated in place"
                return "ok " + _arr_text(r)
            exp.append((dict(n=nev, ws=ws, sim_fore=sf_text, draws=draws), _outcome(call)))
            drv.ask(f"{op} {nev} {flist(ws)} {sf_text} {flist(draws)}")
        out = drv.run()
        return len(exp), [(c, a, b) for (c, a), b in zip(exp, out) if a != b]
    return tie


def tie_simulate_catalog_rand(rng, n):
    import numpy
    from csep.core import poisson_evaluations as pe
    drv, exp = Driver(), []
    for _ in range(max(20, n // 4)):
        ws = _weights(rng)
        k = rng.choice([0, 1, 2, 3, 5, 8])
        stream = _draws(rng, ws, k + rng.choice([0, 0, 1, 4, -1]) if k else rng.choice([0, 2]))
        sf = _sim_fore(rng, len(ws))
        sf_text = _arr_text(sf)
        fd = _Feeder(stream)

        def call():
            with _numpy_random(fd):
                r = pe._simulate_catalog(k, numpy.array(ws), sf)
            return f"ok {_arr_text(r)} {len(stream) - fd.pos}"
        exp.append((dict(n=k, ws=ws, sim_fore=sf_text, stream=stream), _outcome(call)))
        drv.ask(f"srcsm_simulate_catalog_rand {flist(stream)} {k} {flist(ws)} {sf_text}")
    out = drv.run()
    return len(exp), [(c, a, b) for (c, a), b in zip(exp, out) if a != b]


def tie_simulate_catalog_binary(rng, n):
    import numpy
    from csep.core import binomial_evaluations as be
    drv, exp = Driver(), []
    for _ in range(max(20, n // 4)):
        ws = _weights(rng)
        distinct = len(set(ws))
        target = rng.choice([0, 1, 2, distinct, distinct + 1, rng.randint(0, len(ws) + 1)])
        stream = _draws(rng, ws, rng.choice([0, 1, 3, 8, 20, 40]), allow_out=rng.random() < 0.3)
        sf = _sim_fore(rng, len(ws))
        sf_text = _arr_text(sf)
        fd = _Feeder(stream)

        def call():
            with _numpy_random(fd):
                r = be._simulate_catalog(target, numpy.array(ws), sf)
            assert r is sf, "result is not the array updated in place"
            return f"ok {_arr_text(r)} {len(stream) - fd.pos}"
        exp.append((dict(target=target, ws=ws, sim_fore=sf_text, stream=stream), _outcome(call)))
        drv.ask(f"srcsm_simulate_catalog_binary {len(stream) + 1} {flist(stream)} {target} {flist(ws)} {sf_text}")
    out = drv.run()
    return len(exp), [(c, a, b) for (c, a), b in zip(exp, out) if a != b]


# ----------------------------------------------------------------------------- C12
def tie_load_ascii_catalogs(rng, n):
    """the real generator on generated files against `SrcSM.load_ascii_catalogs` on the rows of the same files (files, row
    encoding and canonical form of the loaded catalogs are those of the owning check, harness/c12.py)"""
    import os
    import tempfile
    from . import c12
    drv, exp = Driver(), []
    d = tempfile.mkdtemp(prefix="srctie_c12_")
    try:
        for i in range(max(25, n // 8)):
            spec = c12._random_forecast(rng, False)
            if rng.random() < 0.35:
                spec = c12._mutate(rng, spec) or spec
            if rng.random() < 0.05:
                spec = dict(spec, cats=[[]], choices=[True], mutation=None)   # one placeholder row (or only a header)
            spec.pop("fname", None)
            text, model, expected = c12.build(spec)
            eol = spec.get("eol", "\n")
            path = os.path.join(d, f"f{i}.csv")
            with open(path, "w", newline="") as f:
                f.write(eol.join(text) + (eol if spec.get("trailing_newline", True) else ""))
            with c12.local_zone(spec.get("tz")):
                got = c12._impl(path, "load_ascii_catalogs")
            os.unlink(path)
            exp.append((dict(lines=model if len(model) < 30 else len(model), mutation=spec.get("mutation")), got))
            drv.ask("srcsm_load_ascii_catalogs " + (";".join(model) if model else "-"))
    finally:
        try:
            os.rmdir(d)
        except OSError:
            pass
    out = drv.run()
    return len(exp), [(c, a[:200], b[:200]) for (c, a), b in zip(exp, out) if a != b]


# ----------------------------------------------------------------------------- C04
_INF = 2 ** 1100        # stands for +inf (log10(0) = -inf at the mainshock instant): above every finite float


class _record_log10:
    """records the arguments of numpy.log10 while the real apply_mct runs (the argument of the nested compute_mct)"""

    def __enter__(self):
        import numpy
        self.saved, self.calls = numpy.log10, []

        def log10(x, *a, **k):
            self.calls.append(float(x))
            return self.saved(x, *a, **k)
        numpy.log10 = log10
        return self

    def __exit__(self, *a):
        import numpy
        numpy.log10 = self.saved


def tie_apply_mct(rng, n):
    """the real method on generated catalogs (generator of harness/c04_mct.py: sorted and unsorted, rows at the window edges,
    magnitudes around the completeness magnitude, empty catalogs) against `SrcSM.apply_mct` on the same rows, the
    transcendental parameters being the values the real run produced"""
    import math
    import numpy
    from . import c04 as base
    from . import c04_mct as cm
    from .core import frac
    drv, exp = Driver(), []
    for _ in range(max(30, n // 5)):
        m_main, mc, epoch = cm.gen_mct_params(rng)
        k = 0 if rng.random() < 0.06 else rng.choice([1, 2, 3, 5, 8, 13, 20])
        rows = cm.gen_mct_rows(rng, m_main, mc, epoch, k, rng.random() < 0.8, nan_ok=False)
        cat = cm._mk(rows)
        with numpy.errstate(all="ignore"), _record_log10() as rec:
            try:
                out = cat.apply_mct(m_main, epoch, mc)
                got = "ok " + ilist(r[0] for r in base.snapshot(out))
                if out is not cat:
                    got = "not-self"
            except Exception as e:
                got = "err " + type(e).__name__
        x = -((mc - m_main + 4.5) / 0.75)
        tbl = []
        for t in dict.fromkeys(rec.calls):
            with numpy.errstate(all="ignore"):
                v = float(m_main - 4.5 - 0.75 * numpy.log10(t))
            tbl += [frac(t), str(_INF) if v == math.inf else frac(v)]
        exp.append((dict(m_main=m_main, mc=mc, epoch=epoch, rows=len(rows)), got))
        drv.ask(f"srcsm_apply_mct {base.enc_events(rows)} {frac(m_main)} {epoch} {frac(mc)} {frac(x)} {frac(10 ** x)} "
                f"{';'.join(tbl) if tbl else '-'}")
    out = drv.run()
    return len(exp), [(c, a[:200], b[:200]) for (c, a), b in zip(exp, out) if a != b]


# ----------------------------------------------------------------------------- C05 / C06 simulation loop
def _bits(x):
    import struct
    return str(struct.unpack("<Q", struct.pack("<d", float(x)))[0])


def _unbits(t):
    import struct
    return struct.unpack("<d", struct.pack("<Q", int(t)))[0]


def _ell(x):
    import math
    return "ninf" if x == -math.inf else _bits(x)


class _poisson_feeder:
    """the global numpy generator while the real test runs: ambient streams, replaced by the seeded ones at seed(s)"""

    def __init__(self, rng, pois, srng, spois):
        self.rng, self.pois, self.srng, self.spois = list(rng), list(pois), list(srng), list(spois)

    def __enter__(self):
        import numpy
        self.saved = (numpy.random.rand, numpy.random.poisson, numpy.random.seed)

        def rand(n):
            n = int(n)
            if n > len(self.rng):
                raise _Exhausted()
            out, self.rng = self.rng[:n], self.rng[n:]
            return numpy.array(out, dtype=numpy.float64)

        def poisson(mean):
            if not self.pois:
                raise _Exhausted()
            return self.pois.pop(0)

        def seed(s):
            self.rng, self.pois = list(self.srng), list(self.spois)
        numpy.random.rand, numpy.random.poisson, numpy.random.seed = rand, poisson, seed
        return self

    def __exit__(self, *a):
        import numpy
        numpy.random.rand, numpy.random.poisson, numpy.random.seed = self.saved


def tie_poisson_test_loop(injected):
    def tie(rng, n):
        """the real `_poisson_likelihood_test` against `SrcSM.poisson_test_loop[_injected]`. The values computed before the
        loop (live-in parameters of the definition) are recomputed here with the statements of the source
        (poisson_evaluations.py:628-656); statistics are compared to 1e-12, the quantile, the numbers of unused stream
        elements and the exception class exactly"""
        import math
        import numpy
        from csep.core import poisson_evaluations as pe
        from .core import frac
        drv, exp = Driver(), []
        for _ in range(max(20, n // 10)):
            m = rng.randint(1, 7)
            fd = numpy.array([rng.choice([rng.uniform(1e-3, 3), rng.uniform(0.1, 20), 0.0 if rng.random() < 0.15 else 1.0])
                              for _ in range(m)])
            if fd.sum() == 0:
                fd[0] = 0.5
            od = numpy.array([rng.choice([0, 0, 1, 2, 3]) for _ in range(m)], dtype=numpy.int64)
            if od.sum() == 0:
                od[rng.randrange(m)] = 1
            uoc, nl = rng.random() < 0.6, rng.random() < 0.5
            nsim = rng.choice([0, 1, 2, 3, 5])
            seed = rng.choice([None, None, 0, 0, 7, 123456])
            n_obs = int(od.sum())
            draws = lambda k: [rng.choice([rng.random(), rng.random(), float(next_down(1.0)), 0.0]) for _ in range(k)]
            amb, sdd = draws(rng.choice([0, 10, 60, 60])), draws(rng.choice([0, 10, 60, 60]))
            pa, ps = [rng.randint(0, 4) for _ in range(rng.choice([0, 6, 6]))], [rng.randint(0, 4) for _ in range(rng.choice([0, 6, 6]))]
            rows, width = None, 0
            if injected:
                nrows = nsim + rng.choice([0, 0, 1])
                rows = [draws(n_obs if uoc else rng.randint(0, 4)) for _ in range(nrows)]
                if not uoc:      # rows must have the lengths of the Poisson draws to pass the count assertion
                    src = list(ps if seed is not None else pa)
                    rows = [draws(src[i] if i < len(src) and rng.random() < 0.9 else rng.randint(0, 3)) for i in range(nrows)]
                width = max([len(r) for r in rows] + [0])
                if any(len(r) != width for r in rows):     # a 2-d numpy array needs equal rows: make them equal
                    rows = [draws(width) for _ in rows]
            with numpy.errstate(all="ignore"):
                # the statements of the source before the loop
                sw = numpy.cumsum(fd.ravel()); sw = sw / sw[-1]
                expected = numpy.sum(fd); logs = numpy.log(fd.ravel())
                if uoc and nl:
                    expected = int(n_obs); logs = numpy.log(fd.ravel() * (n_obs / numpy.sum(fd)))
                tidx = numpy.nonzero(od.ravel()); odn = od.ravel()[tidx]; tef = logs[tidx] * odn
                fdr = _poisson_feeder(amb, pa, sdd, ps)

                def call():
                    with fdr:
                        qs, obs, sims = pe._poisson_likelihood_test(
                            fd, od, num_simulations=nsim, seed=seed, use_observed_counts=uoc, verbose=False,
                            normalize_likelihood=nl,
                            random_numbers=None if not injected else numpy.array(rows, dtype=numpy.float64).reshape(len(rows), width))
                    return ("ok", float(qs) if nsim else None, float(obs), [float(v) for v in sims], len(fdr.rng), len(fdr.pois))
                try:
                    got = call()
                except ZeroDivisionError:
                    continue            # num_simulations = 0: qs = 0 / 0 (numpy nan with a warning, python error): outside the model
                except _Exhausted:
                    got = "err rng-exhausted"
                except AssertionError:
                    got = "err AssertionError"
                except IndexError:
                    got = "err IndexError"
            if nsim == 0:
                continue
            rowtxt = "-" if not injected or not rows else ";".join(flist(r) for r in rows)
            if injected and rows and all(len(r) == 0 for r in rows):
                continue                # rows of width 0 cannot be written in the line protocol
            exp.append((dict(fd=list(fd), od=list(od), uoc=uoc, nl=nl, nsim=nsim, seed=seed), got))
            drv.ask(f"srcsm_poisson_test_loop {'inj' if injected else 'stream'} {nsim} {'none' if seed is None else seed} "
                    f"{int(uoc)} {flist(sw)} {ilist([0] * m)} {n_obs} {_bits(expected)} {','.join(_ell(v) for v in logs)} "
                    f"{ilist(odn)} {','.join(_ell(v) for v in tef) or '-'} {flist(amb)} {ilist(pa)} {flist(sdd)} {ilist(ps)} {rowtxt}")
        out = drv.run()
        bad = []
        for (c, a), b in zip(exp, out):
            if isinstance(a, str):
                if a != b:
                    bad.append((c, a, b[:120]))
                continue
            if not b.startswith("ok "):
                bad.append((c, "ok", b[:120])); continue
            parts = b[3:].split("|")
            qs = Fraction(parts[0])
            un = lambda t: -math.inf if t == "ninf" else _unbits(t)
            obs = un(parts[1]); sims = [] if parts[2] == "-" else [un(t) for t in parts[2].split(",")]
            close = lambda x, y: (x == y) if (abs(x) == math.inf or abs(y) == math.inf) else abs(x - y) <= 1e-12 * max(1.0, abs(x), abs(y))
            rest = [int(t) for t in parts[3:]]
            want_rest = [a[4], a[5]] if not injected else [a[5]]
            if not (Fraction(a[1]) == qs and close(a[2], obs) and len(sims) == len(a[3]) and
                    all(close(x, y) for x, y in zip(a[3], sims)) and rest == want_rest):
                bad.append((c, str(a)[:160], b[:160]))
        return len(exp), bad
    return tie


def tie_binary_test_loop(injected):
    def tie(rng, n):
        """the real `_binary_likelihood_test` against `SrcSM.binary_test_loop[_injected]` (live-in values recomputed with the
        statements of the source, binomial_evaluations.py:147-164; `numpy.random.uniform` / `seed` fed from given streams)"""
        import math
        import numpy
        from csep.core import binomial_evaluations as be
        drv, exp = Driver(), []
        for _ in range(max(20, n // 10)):
            m = rng.randint(2, 7)
            fd = numpy.array([rng.choice([rng.uniform(1e-3, 2), rng.uniform(0.05, 0.5), 0.0 if rng.random() < 0.15 else 0.3])
                              for _ in range(m)])
            if (fd > 0).sum() == 0:
                fd[0] = 0.5
            npos = int((fd > 0).sum())
            od = numpy.zeros(m, dtype=numpy.int64)
            for j in rng.sample(range(m), rng.randint(1, max(1, min(npos, m)))):
                od[j] = rng.choice([1, 1, 2])
            nact = int((od > 0).sum())
            nsim = rng.choice([1, 2, 3, 5])
            seed = rng.choice([None, None, 0, 0, 7])
            draws = lambda k: [rng.choice([rng.random(), rng.random(), float(next_down(1.0)), 0.0]) for _ in range(k)]
            amb, sdd = draws(rng.choice([0, 20, 150, 150])), draws(rng.choice([0, 20, 150, 150]))
            rows = None
            if injected:
                rows = [draws(nact if rng.random() < 0.85 else nact + 1) for _ in range(nsim + rng.choice([0, 1]))]
                width = max(len(r) for r in rows)
                rows = [r if len(r) == width else draws(width) for r in rows]
            with numpy.errstate(all="ignore"):
                fm = numpy.ma.masked_where(fd <= 0.0, fd)
                sw = numpy.ma.getdata(numpy.cumsum(fm.ravel())); sw = sw / sw[-1]
                fdr = _Feeder([])
                state = dict(cur=list(amb))

                def uniform(lo=0.0, hi=1.0, size=None):
                    if not state["cur"]:
                        raise _Exhausted()
                    return state["cur"].pop(0)

                def seed_fn(s_):
                    state["cur"] = list(sdd)
                saved = (numpy.random.uniform, numpy.random.seed)
                numpy.random.uniform, numpy.random.seed = uniform, seed_fn
                try:
                    qs, obs, sims = be._binary_likelihood_test(
                        fd, od, num_simulations=nsim, seed=seed, verbose=False,
                        random_numbers=None if not injected else numpy.array(rows, dtype=numpy.float64))
                    got = ("ok", float(qs), float(obs), [float(v) for v in sims], len(state["cur"]))
                except _Exhausted:
                    got = "err rng-exhausted"
                except AssertionError:
                    got = "err AssertionError"
                except IndexError:
                    got = "err IndexError"
                finally:
                    numpy.random.uniform, numpy.random.seed = saved
            if not isinstance(got, str) and not all(math.isfinite(v) for v in [got[2]] + got[3]):
                continue            # a masked cell hit by the observation: non-finite statistic, outside the real layer
            fuel = max(len(amb), len(sdd)) + 1
            exp.append((dict(fd=list(fd), od=list(od), nsim=nsim, seed=seed), got))
            drv.ask(f"srcsm_binary_test_loop {'inj' if injected else 'stream'} {nsim} {'none' if seed is None else seed} "
                    f"{flist(sw)} {ilist([0] * m)} {nact} {','.join(_bits(v) for v in fd)} {ilist(od)} {fuel} {flist(amb)} "
                    f"{flist(sdd)} {'-' if not injected else ';'.join(flist(r) for r in rows)}")
        out = drv.run()
        bad = []
        for (c, a), b in zip(exp, out):
            if isinstance(a, str):
                if a != b:
                    bad.append((c, a, b[:120]))
                continue
            if not b.startswith("ok "):
                bad.append((c, "ok", b[:120])); continue
            parts = b[3:].split("|")
            sims = [] if parts[2] == "-" else [_unbits(t) for t in parts[2].split(",")]
            close = lambda x, y: abs(x - y) <= 1e-12 * max(1.0, abs(x), abs(y))
            if not (Fraction(a[1]) == Fraction(parts[0]) and close(a[2], _unbits(parts[1])) and len(sims) == len(a[3]) and
                    all(close(x, y) for x, y in zip(a[3], sims)) and (injected or int(parts[3]) == a[4])):
                bad.append((c, str(a)[:160], b[:160]))
        return len(exp), bad
    return tie


# ----------------------------------------------------------------------------- C13 get_expected_rates
def tie_get_expected_rates(rng, n):
    """the real `CatalogForecast.get_expected_rates` (list of catalogs, Cartesian region with magnitudes; events inside the
    region, sometimes one outside or below the first magnitude edge → ValueError inside the pass) against
    `SrcSM.get_expected_rates`. The opaque pass hands the Lean definition, per catalog, the counts its own
    `spatial_magnitude_counts()` gives on the forecast's region (or `err`), and the `n_cat` the forecast has after the pass;
    compared: the rates matrix exactly (flattened), the exception class; a second call returns the cached object"""
    import numpy
    from csep.core import regions
    from csep.core.catalogs import CSEPCatalog
    from csep.core.forecasts import CatalogForecast
    from .core import frac
    drv, exp = Driver(), []
    for _ in range(max(20, n // 10)):
        nx, ny, dh = rng.randint(1, 3), rng.randint(1, 2), 1.0
        origins = [(20.0 + i * dh, 5.0 + j * dh) for i in range(nx) for j in range(ny)]
        reg = regions.CartesianGrid2D.from_origins(numpy.array(origins), dh=dh)
        edges = sorted(set(round(rng.uniform(3.0, 6.0), 1) for _ in range(rng.randint(1, 3))))
        reg.magnitudes = numpy.array(edges)
        ncats = rng.choice([1, 1, 2, 3, 5])
        cats, enc = [], []
        for c in range(ncats):
            evs = []
            for k in range(rng.choice([0, 1, 2, 4])):
                o = rng.choice(origins)
                lon, lat = o[0] + rng.choice([0.0, 0.3, 0.999]), o[1] + rng.choice([0.0, 0.5])
                m = rng.choice(edges) + rng.choice([0.0, 0.05, 1.5])
                r = rng.random()
                if r < 0.04:
                    lon = 10.0                       # outside the region
                elif r < 0.08:
                    m = edges[0] - 0.5               # below the first magnitude edge
                evs.append((k + 1, 1000 * k, float(lat), float(lon), 10.0, float(m)))
            cats.append(CSEPCatalog(data=evs))
            probe = CSEPCatalog(data=evs, region=reg)
            try:
                enc.append(ilist(int(v) for v in probe.spatial_magnitude_counts().ravel()))
            except ValueError:
                enc.append("err")
        fore = CatalogForecast(catalogs=cats, region=reg, name="t")

        def call():
            er = fore.get_expected_rates()
            assert fore.get_expected_rates() is er, "second call did not return the cached forecast"
            return "ok " + flist(float(v) for v in numpy.asarray(er.data).ravel())
        got = _outcome(call)
        exp.append((dict(ncats=ncats, enc=enc), got))
        drv.ask(f"srcsm_get_expected_rates 0 {fore.n_cat if fore.n_cat is not None else 'none'} {';'.join(enc)} "
                f"{ilist([rng.randint(0, 9) for _ in range(rng.randint(0, 3))])}")
    out = drv.run()
    return len(exp), [(c, a[:200], b[:200]) for (c, a), b in zip(exp, out) if a != b]


# ----------------------------------------------------------------------------- C10 number_test
def tie_catalog_number_test(rng, n):
    """the real `catalog_evaluations.number_test(forecast, obs, verbose=False)` on list forecasts against
    `SrcSM.catalog_number_test` (the pass hands out the catalogs' event counts; `get_quantiles` on the Lean side is py2lean's
    generated definition): distribution, observed count, both quantiles (exact), name and status strings"""
    from csep.core import catalog_evaluations as ce
    from csep.core.catalogs import CSEPCatalog
    from csep.core.forecasts import CatalogForecast
    from .core import frac
    drv, exp = Driver(), []
    mk = lambda k: CSEPCatalog(data=[(j + 1, 1000 * j, 1.0, 2.0, 5.0, 4.5) for j in range(k)])
    for _ in range(max(20, n // 10)):
        counts = [rng.choice([0, 1, 2, 3, 5, 8]) for _ in range(rng.choice([1, 2, 3, 6, 12]))]
        nobs = rng.choice(counts + [0, 4, 9])
        import numpy
        from csep.core import regions
        reg = regions.CartesianGrid2D.from_origins(numpy.array([(2.0, 1.0)]), dh=1.0)
        reg.magnitudes = numpy.array([4.0, 5.0])
        fore = CatalogForecast(catalogs=[mk(k) for k in counts], name="t", region=reg)
        try:
            r = ce.number_test(fore, mk(nobs), verbose=False)
        except Exception as e:          # e.g. min_magnitude without region: outside this tie
            got = "err " + type(e).__name__
            exp.append((dict(counts=counts), got)); drv.ask(f"srcsm_catalog_number_test {ilist(counts)} {nobs}"); continue
        q = ["none" if v is None else frac(float(v)) for v in r.quantile]
        got = f"ok {ilist(r.test_distribution)}|{int(r.observed_statistic)}|{q[0]}|{q[1]}|{r.name}|{r.status}"
        exp.append((dict(counts=counts, nobs=nobs), got))
        drv.ask(f"srcsm_catalog_number_test {ilist(counts)} {nobs}")
    out = drv.run()
    return len(exp), [(c, a[:200], b[:200]) for (c, a), b in zip(exp, out) if a.replace(" N-Test", "_N-Test") != b.replace(" N-Test", "_N-Test")]


def _ce_forecast(rng):
    """a small list forecast on a Cartesian region with magnitudes, and an observed catalog: some catalogs empty (nan in the
    distribution), observed events possibly in a cell no forecast catalog touches (-inf: undersampled), possibly none"""
    import numpy
    from csep.core import regions
    from csep.core.catalogs import CSEPCatalog
    from csep.core.forecasts import CatalogForecast
    nx, ny = rng.randint(1, 3), rng.randint(1, 2)
    origins = [(30.0 + i, -2.0 + j) for i in range(nx) for j in range(ny)]
    reg = regions.CartesianGrid2D.from_origins(numpy.array(origins), dh=1.0)
    reg.magnitudes = numpy.array([4.0, 5.0])
    used = [o for o in origins if rng.random() < 0.75] or origins[:1]

    def cat(k, pool):
        evs = []
        for j in range(k):
            o = rng.choice(pool)
            evs.append((j + 1, 1000 * j, o[1] + 0.5, o[0] + 0.5, 10.0, rng.choice([4.2, 5.5])))
        return CSEPCatalog(data=evs)
    cats = [cat(rng.choice([0, 1, 2, 4]), used) for _ in range(rng.choice([1, 2, 4, 8]))]
    obs = cat(rng.choice([0, 1, 2, 3]), used if rng.random() < 0.6 else origins)
    obs.region = reg
    return CatalogForecast(catalogs=cats, region=reg, name="t"), obs, cats


def _tie_ce(fname, op, with_count):
    def tie(rng, n):
        import math
        import numpy
        from csep.core import catalog_evaluations as ce
        drv, exp = Driver(), []
        for _ in range(max(20, n // 10)):
            fore, obs, cats = _ce_forecast(rng)
            with numpy.errstate(all="ignore"):
                try:
                    import contextlib, io
                    with contextlib.redirect_stdout(io.StringIO()):     # the function prints also with verbose=False
                        r = getattr(ce, fname)(fore, obs, verbose=False)
                        if fore.expected_rates is None:                 # returned before the rates were needed
                            fore.get_expected_rates(verbose=False)
                except Exception as e:
                    continue        # e.g. every forecast catalog empty: nan rates, outside the real layer
                gf = fore.expected_rates
                rates = [float(v) for v in numpy.asarray(gf.spatial_counts()).ravel()]
                ecc = float(gf.sum())
            if not all(math.isfinite(v) for v in rates + [ecc]):
                continue
            gobs = [int(v) for v in obs.spatial_counts()]
            gcats = [[int(v) for v in c.spatial_counts()] for c in cats]
            exp.append((dict(ncat=len(cats), gobs=gobs), r))
            drv.ask(f"{op} {','.join(_bits(v) for v in rates)} {_bits(ecc)} {ilist(gobs)} "
                    f"{';'.join(ilist(g) for g in gcats)}" + (f" {obs.event_count}" if with_count else ""))
        out = drv.run()
        bad = []
        un = lambda t: math.nan if t == "none" else (-math.inf if t == "-inf" else _unbits(t))
        same = lambda x, y: (math.isnan(x) and math.isnan(y)) or x == y or (
            math.isfinite(x) and math.isfinite(y) and abs(x - y) <= 1e-12 * max(1.0, abs(x), abs(y)))
        for (c, r), b in zip(exp, out):
            if not b.startswith("ok "):
                bad.append((c, "ok", b[:160])); continue
            if r is None or b == "ok none":
                if not (r is None and b == "ok none"):
                    bad.append((c, "None" if r is None else r.status, b[:160]))
                continue
            st, ob, q, dist, name = b[3:].split("|")
            want_dist = [float(v) for v in numpy.asarray(r.test_distribution).ravel()]
            got_dist = [] if dist == "-" else [un(t) for t in dist.split(",")]
            ok = st == r.status and name == r.name and same(un(ob), float(r.observed_statistic)) and \
                len(want_dist) == len(got_dist) and all(same(x, y) for x, y in zip(want_dist, got_dist))
            if q == "sentinel":
                ok = ok and tuple(r.quantile) == (-1, -1)
            else:
                qs = []
                for t in q.split(","):
                    qs.append(None if t == "none" else int(t.split(":")[0]) / int(t.split(":")[1]))
                ok = ok and len(qs) == 2 and all((a is None and b_ is None) or (a is not None and b_ is not None and float(b_) == a)
                                                  for a, b_ in zip(qs, r.quantile))
            if not ok:
                bad.append((c, f"{r.status}|{r.observed_statistic}|{r.quantile}|{want_dist[:4]}", b[:200]))
        return len(exp), bad
    tie.__doc__ = (f"the real `catalog_evaluations.{fname}(forecast, obs, verbose=False)` against `SrcSM.catalog_{fname}` with "
                   "the hand model's `_compute_likelihood` / quantiles at Float: status (or None), observed statistic, "
                   "distribution (1e-12, -inf / nan exact), quantiles (as k/n), name")
    return tie


def tie_catalog_magnitude_test(rng, n):
    """the real `catalog_evaluations.magnitude_test(forecast, obs, verbose=False)` against `SrcSM.catalog_magnitude_test` with
    the hand model's `cumulative_square_diff` / quantiles at Float: status, observed statistic (or None), distribution
    (1e-12), quantiles (as k/n, or (None, None)), name. Forecasts without any event (`n_union_events == 0`: the division is
    outside the real layer) are skipped"""
    import math
    import numpy
    import contextlib, io
    from csep.core import catalog_evaluations as ce
    drv, exp = Driver(), []
    for _ in range(max(20, n // 10)):
        fore, obs, cats = _ce_forecast(rng)
        with numpy.errstate(all="ignore"):
            try:
                with contextlib.redirect_stdout(io.StringIO()):
                    r = ce.magnitude_test(fore, obs, verbose=False)
                    if fore.expected_rates is None:
                        fore.get_expected_rates(verbose=False)
            except Exception as e:
                continue
            union = [float(v) for v in numpy.asarray(fore.expected_rates.magnitude_counts()).ravel()]
        if not all(math.isfinite(v) for v in union) or sum(union) == 0:
            continue
        hobs = [int(v) for v in obs.magnitude_counts()]
        mcs = [[int(v) for v in c.magnitude_counts()] for c in cats]
        exp.append((dict(ncat=len(cats), hobs=hobs, mcs=mcs[:4]), r))
        drv.ask(f"srcsm_catalog_magnitude_test {','.join(_bits(v) for v in union)} {ilist(hobs)} "
                f"{';'.join(ilist(g) for g in mcs)} {obs.event_count}")
    out = drv.run()
    bad = []
    same = lambda x, y: x == y or (math.isfinite(x) and math.isfinite(y) and abs(x - y) <= 1e-12 * max(1.0, abs(x), abs(y)))
    for (c, r), b in zip(exp, out):
        if not b.startswith("ok "):
            bad.append((c, "ok", b[:160])); continue
        st, ob, q, dist, name = b[3:].split("|")
        want_dist = [float(v) for v in numpy.asarray(r.test_distribution).ravel()]
        got_dist = [] if dist == "-" else [_unbits(t) for t in dist.split(",")]
        ok = st == r.status and name == r.name and len(want_dist) == len(got_dist) and \
            all(same(x, y) for x, y in zip(want_dist, got_dist))
        ok = ok and ((ob == "none") == (r.observed_statistic is None)) and \
            (ob == "none" or same(_unbits(ob), float(r.observed_statistic)))
        qs = [None if t == "none" else int(t.split(":")[0]) / int(t.split(":")[1]) for t in q.split(",")]
        ok = ok and len(qs) == 2 and all((a is None and b_ is None) or (a is not None and b_ is not None and float(b_) == a)
                                          for a, b_ in zip(qs, r.quantile))
        if not ok:
            bad.append((c, f"{r.status}|{r.observed_statistic}|{r.quantile}|{want_dist[:4]}", b[:200]))
    return len(exp), bad


tie_catalog_spatial_test = _tie_ce("spatial_test", "srcsm_catalog_spatial_test", False)
tie_catalog_pseudolikelihood_test = _tie_ce("pseudolikelihood_test", "srcsm_catalog_pseudolikelihood_test", True)


# ----------------------------------------------------------------------------- C14 write_ascii
def tie_write_ascii(rng, n):
    """the real `CSEPCatalog.write_ascii` into a file that may already hold records, for all combinations of write_header /
    write_empty / append, an id column that exists (`'id'`: bytes ids) or not (ids written empty), catalog_id None / int,
    0-4 events, against `SrcSM.write_ascii`: the records of the file after the call (read back with csv.reader; float cells
    compared as exact values — their text is the csv writer's layer —, the time text of each epoch is the real one)"""
    import csv, os, tempfile, shutil
    import numpy
    from csep.core.catalogs import CSEPCatalog
    from csep.utils.time_utils import epoch_time_to_utc_datetime
    drv, exp = Driver(), []
    d = tempfile.mkdtemp(prefix="verif_wa_tie_")
    isnum = lambda t: t[:1].isdigit() or (t[:1] == "-" and t[1:2].isdigit())

    def show(recs, ncols_float=(0, 1, 2, 4)):
        out = []
        for r in recs:
            cells = []
            for k, cc in enumerate(r):
                if k in ncols_float and len(r) == 7 and r[0] != "lon" and isnum(cc):
                    try:
                        cc = str(Fraction(float(cc)))
                    except ValueError:
                        pass
                cells.append(cc)
            out.append(",".join(cells))
        return ";".join(out) or "-"
    try:
        for k in range(max(24, n // 8)):
            nev = rng.choice([0, 0, 1, 2, 4])
            evs = []
            for j in range(nev):
                ms = rng.choice([0, 1, 999, 86399999, rng.randrange(-10 ** 12, 2 * 10 ** 12), 1262304000500])
                evs.append((f"ev{rng.randrange(1000)}x{j}", ms, rng.choice([35.25, -12.125, rng.uniform(-90, 90)]),
                            rng.choice([-120.5, 179.75, rng.uniform(-180, 180)]), rng.choice([0.0, 10.0, rng.uniform(0, 700)]),
                            rng.choice([4.95, 5.0, rng.uniform(2, 9)])))
            cat = CSEPCatalog(data=evs, catalog_id=rng.choice([None, 0, 7, 123]))
            wh, we, ap = rng.random() < 0.6, rng.random() < 0.5, rng.random() < 0.5
            id_col = rng.choice(["id", "id", "event_id", "nosuch"])
            hasid = id_col in cat.catalog.dtype.names
            path = os.path.join(d, f"w{k}.csv")
            old = [] if rng.random() < 0.4 else [["lon", "lat", "mag", "time_string", "depth", "catalog_id", "event_id"],
                                                 ["1.5", "2.5", "3.5", "1970-01-01T00:00:00", "4.5", "", "old1"]][:rng.choice([1, 2])]
            with open(path, "w", newline="") as f:
                csv.writer(f).writerows(old)
            try:
                cat.write_ascii(path, write_header=wh, write_empty=we, append=ap, id_col=id_col)
                with open(path, newline="") as f:
                    want = "ok " + show(list(csv.reader(f)))
            except Exception as e:
                want = "err " + type(e).__name__
            os.unlink(path)
            tm = lambda ms: str(epoch_time_to_utc_datetime(ms).replace(tzinfo=None)).replace(" ", "T")
            ev_t = ";".join(",".join([str(Fraction(float(cat.catalog["longitude"][j]))), str(Fraction(float(cat.catalog["latitude"][j]))),
                                      str(Fraction(float(cat.catalog["magnitude"][j]))), str(int(cat.catalog["origin_time"][j])),
                                      str(Fraction(float(cat.catalog["depth"][j]))), cat.catalog["id"][j].decode(),
                                      tm(int(cat.catalog["origin_time"][j]))]) for j in range(nev)) or "-"
            exp.append((dict(nev=nev, wh=wh, we=we, ap=ap, id_col=id_col, old=len(old)), want))
            drv.ask(f"srcsm_write_ascii {show(old)} {ev_t} {'none' if cat.catalog_id is None else cat.catalog_id} "
                    f"{int(wh)} {int(we)} {int(ap)} {int(hasid)}")
    finally:
        shutil.rmtree(d, ignore_errors=True)
    out = drv.run()
    return len(exp), [(c, a[:240], b[:240]) for (c, a), b in zip(exp, out) if a != b]


def tie_catalog_to_dict(rng, n):
    """the real `CSEPCatalog.to_dict()` on catalogs with extra attributes (callables, underscore names, names that collide
    after the underscore is dropped, a region — which has its own to_dict —, an entry `catalog` put into `__dict__`) against
    `SrcSM.catalog_to_dict`: the keys of the result in order, for each key WHICH object it holds (the attribute itself, the
    result of its to_dict, or the rows), the rows with their bytes items decoded"""
    import numpy
    from csep.core import regions
    from csep.core.catalogs import CSEPCatalog
    drv, exp = Driver(), []

    class WithToDict:
        def __init__(self, tag):
            self.tag = tag

        def to_dict(self):
            return {"made-by": self.tag}
    for k in range(max(24, n // 8)):
        nev = rng.choice([0, 1, 3])
        evs = [(f"id{j}", 1000 * j, 1.0 + j, 2.0, 5.0, 4.5) for j in range(nev)]
        cat = CSEPCatalog(data=evs, catalog_id=rng.choice([None, 3]), name=rng.choice([None, "n"]))
        if rng.random() < 0.4:
            cat.region = regions.CartesianGrid2D.from_origins(numpy.array([(2.0, 1.0)]), dh=1.0)
        for _ in range(rng.choice([0, 1, 3])):
            nm = rng.choice(["extra", "_extra", "_hidden", "fn", "_fn", "obj", "name2", "_name2", "_name"])
            val = rng.choice([lambda: 1, 5, "text", WithToDict(nm), [1, 2], None])
            cat.__dict__[nm] = val
        if rng.random() < 0.15:
            cat.__dict__["catalog"] = 7
        toks, objs = [], {}
        for i, (kk, v) in enumerate(cat.__dict__.items()):
            t = ("c" if callable(v) else "t" if hasattr(v, "to_dict") else "p") + str(i)
            toks.append(f"{kk}={t}")
            objs[t] = v
        conv = {}
        orig_td = {}
        rows = [[("b:" + it.decode() if isinstance(it, bytes) else "o:" + repr(it).replace(",", "_").replace("/", "_").replace(";", "_").replace("=", "_"))
                 for it in line] for line in cat.catalog.tolist()]
        try:
            r = cat.to_dict()
        except Exception as e:
            continue
        parts = []
        ok = True
        for kk, v in r.items():
            if kk == "catalog" and isinstance(v, list) and (not v or isinstance(v[0], list)) and kk == list(r)[[*r].index("catalog")] \
                    and all(isinstance(x, list) for x in v):
                rr = [[("s:" + it if isinstance(it, str) else "o:" + repr(it).replace(",", "_").replace("/", "_").replace(";", "_").replace("=", "_"))
                       for it in line] for line in v]
                parts.append("catalog=[" + "/".join(",".join(l) for l in rr) + "]")
                continue
            # which object is it: among the attributes stored under this name (underscore dropped), the one it IS
            cands = [(t, objs[t]) for (k0, t) in (x.split("=") for x in toks) if (k0[1:] if k0.startswith("_") else k0) == kk]
            tok = next((t for t, o in reversed(cands) if o is v), None)
            if tok is None:
                tok = next(("T" + t for t, o in reversed(cands) if t.startswith("t") and o.to_dict() == v), "?")
            parts.append(f"{kk}={tok}")
        exp.append((dict(keys=[t.split("=")[0] for t in toks]), "ok " + (";".join(parts) or "-")))
        drv.ask(f"srcsm_catalog_to_dict {';'.join(toks) or '-'} {'/'.join(','.join(l) for l in rows) or '-'}")
    out = drv.run()
    return len(exp), [(c, a[:300], b[:300]) for (c, a), b in zip(exp, out) if a != b]


# ----------------------------------------------------------------------------- C19 ndk record loop
def tie_ndk_loop(rng, n):
    """the real `readers.ndk` on generated files (records of harness/c19.py `gen_ndk`, some broken in the ways of its
    `_NDK_BREAK`, some files with 1-4 extra lines at the end) against `SrcSM.ndk_loop`: what each group of five lines does
    (skipped with which warning / RuntimeError / the event) is taken from the real function run on that group alone; the
    whole file then checks the grouping, the skip rules, which exception ends the load, the ids (group indices), the order"""
    import tempfile, os, shutil, warnings
    from . import c19 as base
    from csep.utils import readers
    drv, exp = Driver(), []
    d = tempfile.mkdtemp(prefix="verif_ndk_tie_")

    def run(text, k):
        path = os.path.join(d, f"f{k}.ndk")
        with open(path, "w", newline="") as f:
            f.write(text)
        with warnings.catch_warnings(record=True) as w:
            warnings.simplefilter("always")
            try:
                r = ("ok", readers.ndk(path))
            except Exception as e:
                r = ("err", type(e).__name__)
        os.unlink(path)
        return r, [str(x.message) for x in w]
    try:
        for k in range(max(20, n // 10)):
            spec = base.gen_ndk(rng, rng.randint(1, 5))
            groups = []
            for r in spec["recs"]:
                L = list(r["text"])
                how = rng.choice(base._NDK_BREAK + [None] * 14)
                if how == "source-type":
                    L[1] = L[1][:62] + "CMT: 3" + L[1][68:]
                elif how == "centroid-word":
                    L[2] = "CENTROIX:" + L[2][9:]
                elif how == "latitude-text":
                    L[0] = L[0][:27] + " n/a  " + L[0][33:]
                elif how == "time-second-65":
                    L[0] = L[0][:22] + "65.4" + L[0][26:]
                elif how == "time-60.5":
                    L[0] = L[0][:22] + "60.5" + L[0][26:]
                elif how == "zero-moment":
                    L[4] = L[4][:49] + "  0.000" + L[4][56:]
                groups.append(L)
            toks = []
            for L in groups:
                (st, val), ws = run("\n".join(L) + "\n", k)
                if st == "err":
                    toks.append("r" if val == "RuntimeError" else "?" + val)
                elif not val:
                    toks.append("t" if any("Invalid time" in m for m in ws) else "v")
                else:
                    e = val[0]
                    toks.append("k," + ",".join([str(int(e[1]))] + [str(Fraction(float(x))) for x in e[2:]]))
            lines = [l for L in groups for l in L] + ["x"] * rng.choice([0, 0, 1, 2, 4])
            text = "\n".join(lines) + ("\n" if rng.random() < 0.8 else "")
            (st, val), _ = run(text, k)
            want = "err " + val if st == "err" else "ok " + (",".join(
                ":".join([str(e[0]), str(int(e[1]))] + [str(Fraction(float(x))) for x in e[2:]]) for e in val) or "-")
            if any(t.startswith("?") for t in toks):
                continue        # an exception class this tie does not distinguish
            exp.append((dict(groups=len(groups), toks=[t[:1] for t in toks], lines=len(lines)), want))
            drv.ask(f"srcsm_ndk_loop {len(lines)} {';'.join(toks) or '-'}")
    finally:
        shutil.rmtree(d, ignore_errors=True)
    out = drv.run()
    return len(exp), [(c, a[:200], b[:200]) for (c, a), b in zip(exp, out) if a != b]


# ----------------------------------------------------------------------------- C04 filter
def _hex(x):
    return x.encode("utf-8").hex()


def _hexs(xs):
    xs = list(xs)
    return ";".join(_hex(x) for x in xs) if xs else "-"


def tie_filter(mode):
    def tie(rng, n):
        """the real `filter` on generated catalogs and statement lists (generators of harness/c04.py, plus malformed
        statements: unknown field, unknown operator, wrong number of tokens, unparsable value) against `SrcSM.filter_*`;
        the opaque parsers are the tables of what `float` / `strptime_to_utc_epoch` return for the texts of the case"""
        from . import c04 as base
        from .core import frac
        from csep.core.catalogs import CSEPCatalog
        from csep.utils import time_utils
        drv, exp = Driver(), []
        for _ in range(max(25, n // 8)):
            evs = base.gen_events(rng, rng.choice([0, 1, 3, 6, 12]))
            rows = [base.row_of(e) for e in evs]
            texts = [base.gen_stmt(rng, rows)["text"] for _ in range(rng.choice([0, 1, 1, 2, 3]))]
            if rng.random() < 0.2:
                texts.insert(rng.randrange(len(texts) + 1), rng.choice(
                    ["foo > 1.0", "magnitude != 4.0", "magnitude > 4.0 5.0", "magnitude >", "depth <= abc",
                     "datetime > 2010-13-45 00:00:00", "datetime > 2010-01-01", "magnitude  > 4.0"]))
            stored = [base.gen_stmt(rng, rows)["text"] for _ in range(rng.choice([0, 0, 1, 2]))]
            ftbl, ttbl = {}, {}
            for t in (stored if mode == "stored" else texts):
                toks = t.split(" ")
                if toks[0] == "datetime" and len(toks) == 4:
                    key = " ".join(toks[2:])
                    try:
                        ttbl[key] = int(time_utils.strptime_to_utc_epoch(key))
                    except ValueError:
                        pass
                elif len(toks) == 3:
                    try:
                        v = float(toks[2])
                        if v == v and abs(v) != float("inf"):
                            ftbl[toks[2]] = frac(v)
                    except ValueError:
                        pass
            cat = CSEPCatalog(data=evs, filters=list(stored)) if stored else CSEPCatalog(data=evs)
            flt = lambda c: ",".join(_hex(x) for x in (c.filters if isinstance(c.filters, (list, tuple)) else [c.filters])) or "-"
            ids = lambda c: ilist(r[0] for r in base.snapshot(c))

            def call():
                if mode == "inplace":
                    r = cat.filter(list(texts))
                    assert r is cat
                    return f"ok {ids(cat)}|{flt(cat)}"
                if mode == "stored":
                    r = cat.filter()
                    assert r is cat
                    return f"ok {ids(cat)}|{flt(cat)}"
                r = cat.filter(tuple(texts), in_place=False)
                assert r is not cat
                return f"ok {ids(r)}|{flt(r)}|{ids(cat)}|{flt(cat)}"
            exp.append((dict(mode=mode, texts=texts, stored=stored, n=len(evs)), _outcome(call)))
            enc = lambda d: ";".join(f"{_hex(k)}={v}" for k, v in d.items()) if d else "-"
            drv.ask(f"srcsm_filter {mode} {base.enc_events(rows)} {_hexs(stored)} "
                    f"{'none' if mode == 'stored' else _hexs(texts)} {enc(ftbl)} {enc(ttbl)}")
        out = drv.run()
        return len(exp), [(c, a[:200], b[:200]) for (c, a), b in zip(exp, out) if a != b]
    return tie


# ----------------------------------------------------------------------------- C03 gridding methods
def _grid_case(rng):
    """a catalog bound to a small Cartesian (or single-resolution quadtree) region, points inside / on edges / outside,
    magnitudes around the edges of `mag_bins` (below the first edge, on an edge, above the last)"""
    import numpy
    from csep.core import regions
    from csep.core.catalogs import CSEPCatalog
    quad = rng.random() < 0.25
    if quad:
        reg = regions.QuadtreeGrid2D.from_single_resolution(rng.choice([1, 2]))
        span = (-180.0, 180.0, -85.0, 85.0)
    else:
        nx, ny, dh = rng.randint(1, 3), rng.randint(1, 3), rng.choice([0.5, 1.0])
        origins = [(10.0 + i * dh, -3.0 + j * dh) for i in range(nx) for j in range(ny)]
        origins = [o for o in origins if rng.random() < 0.85] or origins[:1]
        reg = regions.CartesianGrid2D.from_origins(numpy.array(origins), dh=dh)
        span = (10.0 - dh, 10.0 + (nx + 1) * dh, -3.0 - dh, -3.0 + (ny + 1) * dh)
    edges = sorted(set(round(rng.uniform(3.0, 7.0), 1) for _ in range(rng.randint(1, 4))))
    n = rng.choice([0, 1, 2, 4, 8])
    evs = []
    for k in range(n):
        if quad or rng.random() < 0.85:
            o = None if quad else rng.choice(origins)
            lon = rng.uniform(span[0], span[1]) if quad else o[0] + rng.choice([0.0, 0.25 * dh, dh - 1e-9])
            lat = rng.uniform(span[2], span[3]) if quad else o[1] + rng.choice([0.0, 0.5 * dh])
        else:
            lon, lat = rng.uniform(span[0], span[1]), rng.uniform(span[2], span[3])
        m = rng.choice([rng.choice(edges), rng.choice(edges) + 0.05, edges[0] - rng.choice([0.05, 0.5]) if rng.random() < 0.3
                        else edges[-1] + 1.0, rng.uniform(3.0, 8.0)])
        evs.append((k + 1, 1000 * k, float(lat), float(lon), 10.0, float(m)))
    cat = CSEPCatalog(data=evs, region=reg)
    return cat, reg, edges, evs


class _spy_lookups:
    """records what `region.get_index_of` and `catalogs.bin1d_vec` return during one real call"""

    def __init__(self, reg):
        self.reg, self.gio, self.b1d = reg, None, None

    def __enter__(self):
        from csep.core import catalogs
        self.real_b1d, self.real_gio = catalogs.bin1d_vec, self.reg.get_index_of

        def gio(lons, lats):
            try:
                r = self.real_gio(lons, lats)
            except ValueError:
                self.gio = "err"
                raise
            self.gio = "ok:" + ilist(int(v) for v in r)
            return r

        def b1d(p, bins, *a, **k):
            r = self.real_b1d(p, bins, *a, **k)
            self.b1d = ilist(int(v) for v in r)
            return r
        self.reg.get_index_of, catalogs.bin1d_vec = gio, b1d
        return self

    def __exit__(self, *a):
        from csep.core import catalogs
        del self.reg.get_index_of
        catalogs.bin1d_vec = self.real_b1d


def tie_grid(which):
    def tie(rng, n):
        import numpy
        drv, exp = Driver(), []
        for _ in range(max(25, n // 8)):
            cat, reg, edges, evs = _grid_case(rng)
            lons, lats, mags = [e[3] for e in evs], [e[2] for e in evs], [e[5] for e in evs]
            with _spy_lookups(reg) as spy:
                def call():
                    if which == "spatial_counts":
                        return "ok " + ilist(int(v) for v in cat.spatial_counts())
                    if which == "magnitude_counts":
                        return "ok " + ilist(int(v) for v in cat.magnitude_counts(mag_bins=numpy.array(edges)))
                    r = cat.spatial_magnitude_counts(mag_bins=numpy.array(edges))
                    return "ok " + (";".join(ilist(int(v) for v in row) for row in r) or "-")
                got = _outcome(call)
            g, b = spy.gio or "err", spy.b1d or "-"
            exp.append((dict(which=which, n=len(evs), edges=edges, gio=g[:60], b1d=b[:60]), got))
            if which == "spatial_counts":
                drv.ask(f"srcsm_spatial_counts {flist(lons)} {flist(lats)} {reg.num_nodes} {g}")
            elif which == "magnitude_counts":
                drv.ask(f"srcsm_magnitude_counts {flist(mags)} {flist(edges)} {b}")
            else:
                drv.ask(f"srcsm_spatial_magnitude_counts {flist(lons)} {flist(lats)} {flist(mags)} {flist(edges)} "
                        f"{reg.num_nodes} {g} {b}")
        out = drv.run()
        return len(exp), [(c, a[:200], b_[:200]) for (c, a), b_ in zip(exp, out) if a != b_]
    return tie


# ----------------------------------------------------------------------------- C17
def _slist(xs):
    xs = list(xs)
    return ",".join(xs) if xs else "-"


def tie_create_tile_fix_len(rng, n):
    from csep.core import regions
    drv, exp = Driver(), []
    for _ in range(max(20, n // 10)):
        q = "".join(rng.choice("0123") for _ in range(rng.randint(1, 3)))
        zoom = rng.randint(0, len(q) + 3)
        qk0 = [rng.choice(["9", "01", "333"]) for _ in range(rng.randint(0, 2))]
        qk = list(qk0)
        regions._create_tile_fix_len(q, zoom, qk)
        exp.append((dict(quadk=q, zoom=zoom, qk=qk0), "ok " + _slist(qk)))
        drv.ask(f"srcsm_create_tile_fix_len {max(zoom - len(q), 0) + 1} {q} {zoom} {_slist(qk0)}")
    out = drv.run()
    return len(exp), [(c, a[:200], b[:200]) for (c, a), b in zip(exp, out) if a != b]


class _record_bounds:
    """records mercantile.bounds per quadkey while the real _create_tile runs"""

    def __enter__(self):
        import mercantile
        self.saved = (mercantile.quadkey_to_tile, mercantile.bounds)
        self.table, self.keys = {}, {}

        def q2t(qk):
            t = self.saved[0](qk)
            self.keys[tuple(t)] = qk
            return t

        def bounds(*tile):
            b = self.saved[1](*tile)
            t = tile[0] if len(tile) == 1 else tile
            self.table[self.keys[tuple(t)]] = (b.west, b.south, b.east, b.north)
            return b
        mercantile.quadkey_to_tile, mercantile.bounds = q2t, bounds
        return self

    def __exit__(self, *a):
        import mercantile
        mercantile.quadkey_to_tile, mercantile.bounds = self.saved


def tie_create_tile(rng, n):
    import mercantile
    import numpy
    from csep.core import regions
    from .core import frac
    drv, exp = Driver(), []
    for _ in range(max(20, n // 10)):
        q = "".join(rng.choice("0123") for _ in range(rng.randint(1, 2)))
        zoom = rng.randint(1, len(q) + 3)
        thr = rng.choice([0, 1, 2, 3, 5])
        b0 = mercantile.bounds(mercantile.quadkey_to_tile(q))
        lon, lat = [], []
        for _ in range(rng.choice([0, 1, 3, 8, 20])):
            k = rng.random()
            if k < 0.5:       # inside the starting tile
                lon.append(rng.uniform(b0.west, b0.east)), lat.append(rng.uniform(b0.south, b0.north))
            elif k < 0.8:     # on / next to an edge of a descendant tile
                d = q + "".join(rng.choice("0123") for _ in range(rng.randint(0, 2)))
                b = mercantile.bounds(mercantile.quadkey_to_tile(d))
                x, y = rng.choice([b.west, b.east]), rng.choice([b.south, b.north])
                lon.append(rng.choice([x, next_up(x), next_down(x)])), lat.append(rng.choice([y, next_up(y), next_down(y)]))
            else:
                lon.append(rng.uniform(-180, 180)), lat.append(rng.uniform(-85, 85))
        qk0 = [rng.choice(["9", "01"]) for _ in range(rng.randint(0, 1))]
        num0 = [rng.randint(0, 9) for _ in qk0]
        qk, num = list(qk0), list(num0)
        with _record_bounds() as rec:
            regions._create_tile(q, thr, zoom, numpy.array(lon, dtype=numpy.float64), numpy.array(lat, dtype=numpy.float64),
                                 qk, num)
        tbl = ";".join(f"{kq}:{frac(w)}:{frac(s_)}:{frac(e)}:{frac(n_)}" for kq, (w, s_, e, n_) in rec.table.items())
        exp.append((dict(quadk=q, thr=thr, zoom=zoom, lon=lon, lat=lat), f"ok {_slist(qk)}|{ilist(num)}"))
        drv.ask(f"srcsm_create_tile {max(zoom - len(q), 0) + 1} {q} {thr} {zoom} {flist(lon)} {flist(lat)} {_slist(qk0)} "
                f"{ilist(num0)} {tbl or '-'}")
    out = drv.run()
    return len(exp), [(c, a[:200], b[:200]) for (c, a), b in zip(exp, out) if a != b]


# ----------------------------------------------------------------------------- C01
def tie_build_bitmask_loop(rng, n):
    """the real `_build_bitmask_vec` of real regions (random subsets of a lattice, with / without `mask`) against
    `SrcSM.build_bitmask_loop`; the live-in values `idx`, `idy` are what `bin1d_vec` returns inside the real run (recorded),
    in a third of the cases replaced by arbitrary indices in [-n, n) (wrap-around of negative indices, repeated positions)"""
    import numpy
    from csep.core import regions
    drv, exp = Driver(), []
    for _ in range(max(20, n // 10)):
        nx0, ny0 = rng.randint(1, 5), rng.randint(1, 4)
        dh = rng.choice([0.1, 0.5, 1.0])
        x0, y0 = rng.choice([-120.0, 0.0, 10.5]), rng.choice([30.0, -5.0, 0.0])
        cells = [(x0 + i * dh, y0 + j * dh) for j in range(ny0) for i in range(nx0)]
        cells = [c for c in cells if rng.random() < 0.8] or cells[:1]
        if rng.random() < 0.3:
            rng.shuffle(cells)
        mask = None if rng.random() < 0.5 else [rng.choice([1, 1, 0]) for _ in cells]
        synthetic = rng.random() < 0.35
        rec = []
        real_bin = regions.bin1d_vec

        def spy(p, bins, *a, **k):
            r = real_bin(p, bins, *a, **k)
            if synthetic:
                m = len(bins)
                r = numpy.array([rng.randrange(-m, m) for _ in r], dtype=numpy.int64)
            rec.append([int(v) for v in r])
            return r
        regions.bin1d_vec = spy
        try:
            polys = [regions.Polygon(regions.compute_vertex(c, dh)) for c in cells]
            reg = regions.CartesianGrid2D(polys, dh, mask=mask)      # the constructor runs _build_bitmask_vec once
            rec.clear()
            a, xs, ys = reg._build_bitmask_vec()
        finally:
            regions.bin1d_vec = real_bin
        idx, idy = rec[0], rec[1]
        ny, nx = a.shape[0], a.shape[1]
        got = "ok " + (",".join(f"{int(a[r, c, 0])}:{'nan' if a[r, c, 1] != a[r, c, 1] else int(a[r, c, 1])}"
                                for r in range(ny) for c in range(nx)) or "-")
        exp.append((dict(cells=len(cells), mask=mask, idx=idx, idy=idy, synthetic=synthetic), got))
        drv.ask(f"srcsm_build_bitmask_loop {ny} {nx} {len(cells)} {ilist(idx)} {ilist(idy)} "
                f"{'none' if mask is None else ilist(mask)}")
    out = drv.run()
    return len(exp), [(c, a_[:200], b[:200]) for (c, a_), b in zip(exp, out) if a_ != b]


TIES = {
    "catalog_spatial_test": tie_catalog_spatial_test,
    "catalog_pseudolikelihood_test": tie_catalog_pseudolikelihood_test,
    "catalog_magnitude_test": tie_catalog_magnitude_test,
    "ndk_loop": tie_ndk_loop,
    "write_ascii": tie_write_ascii,
    "catalog_to_dict": tie_catalog_to_dict,
    "catalog_number_test": tie_catalog_number_test,
    "get_expected_rates": tie_get_expected_rates,
    "binary_test_loop": tie_binary_test_loop(False),
    "binary_test_loop_injected": tie_binary_test_loop(True),
    "poisson_test_loop": tie_poisson_test_loop(False),
    "poisson_test_loop_injected": tie_poisson_test_loop(True),
    "spatial_counts": tie_grid("spatial_counts"),
    "magnitude_counts": tie_grid("magnitude_counts"),
    "spatial_magnitude_counts": tie_grid("spatial_magnitude_counts"),
    "filter_inplace": tie_filter("inplace"),
    "filter_stored": tie_filter("stored"),
    "filter_new": tie_filter("new"),
    "build_bitmask_loop": tie_build_bitmask_loop,
    "create_tile": tie_create_tile,
    "create_tile_fix_len": tie_create_tile_fix_len,
    "apply_mct": tie_apply_mct,
    "load_ascii_catalogs": tie_load_ascii_catalogs,
    "simulate_catalog": _tie_injected("csep.core.poisson_evaluations", "srcsm_simulate_catalog"),
    "simulate_catalog_binary_injected": _tie_injected("csep.core.binomial_evaluations", "srcsm_simulate_catalog_binary_injected"),
    "simulate_catalog_rand": tie_simulate_catalog_rand,
    "simulate_catalog_binary": tie_simulate_catalog_binary,
}


def run_src_tie_sm(run, rng, tier, prop, names):
    """same contract as src_tie.run_src_tie, for the functions of py2lean_sm.TARGETS named in `names`.
    Records counts in run.extra['src_tie_validated'] (merged) and returns the disagreements."""
    n = 400 if tier == "quick" else 4000
    res, disagreements = {}, []
    for name in names:
        f = TIES.get(name)
        if f is None:
            res[name] = "no executable tie"
            continue
        try:
            total, bad = f(rng, n)
        except Exception as e:   # the real function may fail in unforeseen ways on a changed tree: the property check judges
            res[name] = f"executable tie could not run: {e!r}"[:300]
            disagreements.append((name, res[name]))
            continue
        res[name] = total
        if bad:
            disagreements.append((name, f"generated definition and real function differ on {len(bad)} of {total} inputs, "
                                        f"e.g. {bad[0]}"[:400]))
    run.extra.setdefault("src_tie_validated", {}).update(res)
    if disagreements:
        run.extra.setdefault("src_tie_disagreements", {}).update(dict(disagreements))
    return disagreements
