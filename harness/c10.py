"""C10 — catalog-based consistency tests: correspondence of csep.core.catalog_evaluations with
Model/CatalogEvals.lean (Float instance through the driver) + direct NumPy-free oracle from the documented
definitions (docs/getting_started/theory.rst, Savran et al. 2020, Serafini et al. 2024)."""
import contextlib
import io
import math
import os
import shutil
import struct
import tempfile
from fractions import Fraction

import numpy

from .core import Driver

LEVEL_TEXT = ("Proof (kernel-checked, all inputs): the number test's quantiles are the C09 empirical probabilities of the "
              "catalog sizes; over the reals the code-shaped spatial, pseudo-likelihood, magnitude, resampled-magnitude and "
              "MLL statistics (computed from the forecast's mean gridded rates) equal the documented formulas; an empty "
              "observation is signalled (not-valid + sentinel / None / no result), empty synthetic catalogs are skipped "
              "exactly where the statistic is undefined, a first-pass -inf is replaced by the finite statistic over sampled "
              "cells with status 'undersampled' (or not-valid / no result when no observed event is left), and no result "
              "ever carries -inf with status 'normal'. Tied to the code by a correspondence of every test's full result "
              "record with the Lean model run at Float, plus a direct oracle recomputing every statistic from the "
              "definitions without NumPy. Also proved: the resampling step of all three resampled variants for every sequence "
              "of uniform numbers / integers (count conservation, support, loss of events beyond max+10 in the full "
              "calculation), history-freeness of every session of the six tests on one forecast object, and the two parked "
              "defect candidates as theorems about the faithful model.")
LEVEL_NOTE = ("Which form the signal of an undefined statistic takes (no result / not-valid with (None, None) or (-1, -1)) and how "
              "the implementation phrases its calls to numpy.random are NOT judged: draws are recorded in index space together "
              "with the probabilities (uniform numbers / integers / multinomial counts as well); a recording the harness cannot "
              "interpret is counted (draws-uninterpretable / draws-not-observable) and the implementation-independent checks "
              "remain. The theorems are over the reals; rounding of log/log10/loggamma and of float sums is not modelled (compared to "
              "1e-9). numpy.random.choice / numpy.histogram draws of the resampled tests are recorded and fed to the model; "
              "the resampling step itself (probs = union/N_u, inverse-CDF search, bin centres, numpy.histogram) is modelled "
              "in Soft64 with the uniform numbers as input (Model/Resample.lean: count conservation and support proved for "
              "every uniform sequence) and compared bit-for-bit with the recorded draws as a statistic (extra.resample_layer); "
              "the verdicts on the draws are property-level: N_obs events each, J of them, support inside the union "
              "histogram, bin totals within a 1e-12 two-sided binomial tail of N_obs*J*Lambda_U(k)/N_U. "
              "The KS p-value of calibration_test is scipy's and is not modelled (the KS distance and the skip rule are)."
              " EXCLUDED input classes (not generated; the behaviour of the code on them is proved in Properties/C10_Findings.lean): "
              "(A) a non-empty observed catalog without any event inside the magnitude range - the clause on undefined statistics "
              "is conditioned on an EMPTY observed catalog, the quantifier's non-empty kinds all have an event in range, and the "
              "documented statistics are not defined for N_obs = 0; (B) synthetic catalogs changed in place by the caller AFTER "
              "forecast.expected_rates was filled - the text says the statistics are computed from the forecast's mean gridded "
              "rates, expected_rates is a public member the caller may set, and the quantifier covers storage configurations, not "
              "caller-side mutation between cache and test. Both readings are stated in notes/C10.md."
              " Outside the property: derived-method hook - user catalog subclasses are exercised only through overrides of "
              "the BASIC DATA ACCESSORS (get_magnitudes / get_longitudes / get_latitudes / get_epoch_times / "
              "get_number_of_events / __len__); which derived method the library calls internally, and whether it uses the "
              "return value of an in-place method (filter / filter_spatial / apply_mct of a subclass returning a new catalog), "
              "is not stated by the property (seeded C10_15 is of that kind and is not reported).")
DESIGN_REF = "DESIGN.md §4 C10"
TECHNIQUE = "Lean 4 model generic over RealOps (Float driver / real-number theorems) + differential correspondence + oracle"

THEOREMS = [
    "CatEvals.ntest_is_ecdf", "CatEvals.quantiles_is_c09", "CatEvals.sum_events_eq_sum_cells", "CatEvals.s_stat_eq_doc", "CatEvals.pl_stat_eq_doc",
    "CatEvals.m_stat_eq_doc", "CatEvals.rm_stat_eq_doc", "CatEvals.mll_stat_eq_doc", "CatEvals.empty_obs_signalled",
    "CatEvals.empty_sim_skipped", "CatEvals.undersampled_finite", "CatEvals.undersampled_nothing_left",
    "CatEvals.never_silent_negInf", "CatEvals.expected_count_eq_mean", "CatEvals.s_dist_eq_doc",
    "CatEvals.pl_dist_eq_doc", "CatEvals.undersampled_iff_unsampled_cell", "CatEvals.calibration_skips_notvalid",
    "CatEvals.spatial_sentinel_iff_notValid", "CatEvals.ntest_counts_all_events",
    "CatEvals.mag_tests_ignore_out_of_range", "CatEvals.mag_tests_out_zero", "CatEvals.empty_obs_signalled_out",
    # Properties/C10_Resample.lean: the resampling step (probs, inverse-CDF choice, bin centres, numpy.histogram)
    "CatEvals.resample_is_bincount", "CatEvals.resampleProbs_valid", "CatEvals.choiceIdx_in_range",
    "CatEvals.resample_count_conserved", "CatEvals.resample_never_from_empty_bin", "CatEvals.rm_stat_eq_doc_resampled",
    "CatEvals.binCount_sum", "CatEvals.centresOK_spec", "CatEvals.pl_notvalid_branch_unreachable",
    # Properties/C10_Session.lean: several evaluations on one forecast object (cached mean rates threaded through)
    "CatEvals.tests_with_mean_rates", "CatEvals.ensureRates_coherent", "CatEvals.evalStep_history_free",
    "CatEvals.session_history_free", "CatEvals.fresh_forecast_coherent",
    # Properties/C10_Full.lean: the resampling step of MLL_magnitude_test(full_calculation=True)
    "CatEvals.full_count_eq", "CatEvals.full_count_conserved", "CatEvals.full_loses_event",
    "CatEvals.full_resample_is_bincount", "CatEvals.full_never_from_empty_bin", "CatEvals.full_identity_draw",
    "CatEvals.mll_full_stat_eq_doc", "CatEvals.histBin_lt", "CatEvals.alignedOK_spec",
    # Properties/C10_Findings.lean: the two parked genuine-defect candidates characterised on the faithful model
    "CatEvals.finding_A_mtest_all_below", "CatEvals.finding_A_reports_perfect_score", "CatEvals.finding_A_rmtest_all_below",
    "CatEvals.quantiles_all_tied", "CatEvals.stale_cache_result", "CatEvals.stale_cache_not_coherent",
]
TRUSTED = ["Lean 4.33 kernel", "axioms: propext, Classical.choice, Quot.sound at most",
           "Real.log / an abstract loggamma stand for numpy.log, numpy.log10 (= log/log 10) and scipy.special.loggamma; "
           "float rounding of these and of numpy.sum is not modelled (1e-9 comparison on every run)",
           "C01/C02/C03 lookups: an event generated strictly inside cell i and magnitude bin k is gridded to (i, k) "
           "(the harness checks the resulting mean rates against its own exact recount)",
           "numpy.random.choice / numpy.histogram: the draws are recorded by wrapping numpy.random.choice in the harness "
           "process and are an input of the test-level model; the resampling step that produces them is modelled for all three "
           "variants with the generator's outputs (uniform numbers / integers of the legacy RandomState) as input",
           "scipy.stats.kstest p-value (not modelled)",
           "harness/c10.py generators, oracle and comparison; driver parsing (Drive/C10.lean, Proto.lean)"]
RULE = ("catalog forecasts of 1..30 synthetic catalogs (each empty with a per-case probability), built in memory (with/without "
        "n_cat, catalogs with/without region) or streamed from a generated CSV file (store on/off, empty catalogs as "
        "placeholder rows or id gaps); regions of 1..40 cells (random subsets of a lattice) x 1..6 magnitude bins; "
        "observations: empty, single event, all/some events in never-sampled cells, many per cell, copy of a synthetic "
        "catalog (ties), observations NOT cut at the minimum magnitude (1..6 further events below region.magnitudes[0]: "
        "the number test counts them, the three magnitude tests must give the result of the cut catalog; spatial and "
        "pseudo-likelihood tests are not run on these); call sequences: [N-test | get_event_counts | plain loop], then "
        "the synthetic catalogs are changed in place inside / outside a loop over the forecast (filter on magnitude or "
        "longitude with a string or a list, truncation of catalog.catalog, replaced list entries; all or some catalogs), "
        "then the tests: every result must be that of the catalogs as they are now (of the file for store=False); "
        "all six tests in random order on the same forecast object + calibration_test on the results; "
        "default arguments (verbose=True, no seed) in a quarter / a seventh of the cases; magnitude edges with float noise "
        "(4.95 + k*0.1) and events at the decimal number next to an edge (12 % of the cases); resampled catalogs: N_obs events, "
        "support inside the union histogram, pooled bin totals within a 1e-12 binomial tail; "
        "every case is a SESSION on shared objects: tests on forecast A, [tests on a second forecast B sharing the region and "
        "the observed catalog object], [the observed catalog changed in place by the caller], remaining tests, repeated "
        "tests, closing number test; cached expected rates compared after every test; forecasts carrying filters with "
        "apply_filters=True; one case per run with more than 65535 events in one cell / bin / catalog; "
        "round-7 trigger kinds: the caller's numeric state (numpy errors raise, decimal precision 3) for half of the cases; "
        "observation / list-backed forecast replaced by copy / deepcopy / pickle image; a rejected call on the same forecast "
        "first; the observation being one of the forecast's catalog objects; synthetic catalogs of a user subclass overriding "
        "the basic data accessors (outside the property: derived-method hook - overrides of filter / filter_spatial / apply_mct); "
        "call forms: options by keyword / every argument by position / every argument by keyword; after every test the "
        "returned test distribution and the arrays read from expected_rates are overwritten in place by the caller, the "
        "observed catalog and the synthetic catalogs must be bit for bit unmodified; "
        "non-trivial = at least one test returned status normal/undersampled with a non-empty distribution; distinct by "
        "(region sizes, all count matrices, mode)")

TOL = 1e-9

# Two input / call-sequence classes that are EXCLUDED from the generators because the property text does not decide them
# (decision of round 4: they stay excluded; the behaviour of the unchanged code on each is a THEOREM about the faithful
# model, Properties/C10_Findings.lean, so DESIGN can cite what happens there):
#  obs-all-below-min-magnitude: the observed catalog is NOT empty but none of its events lies in the magnitude range (all
#    below region.magnitudes[0]).  Outside the text because (1) the clause on undefined statistics is conditioned on "When
#    the observed catalog is empty" - this catalog is not empty, and the clause names no other trigger; (2) the quantifier
#    enumerates the observed catalogs "empty, single event, events in never-sampled cells, many events per cell": every
#    non-empty kind has an event the statistic is defined for; (3) the documented statistics (theory.rst; Savran et al.
#    2020; Serafini et al. 2024) are defined for N_obs >= 1 events inside the magnitude range and say nothing for
#    N_obs = 0 with a non-empty catalog, and the docstrings make cutting the observation to the forecast's magnitude range
#    the caller's job ("CSEPCatalog filtered to be consistent with the forecast").  An observation that is NOT cut but keeps
#    at least one event in range IS judged (N_obs = sum_k Omega(k), round 2).  What the code does: finding_A_mtest_all_below,
#    finding_A_reports_perfect_score (status normal, statistic 0, quantile (n/n, n/n)), finding_A_rmtest_all_below.
#  expected-rates-read-before-inplace-change: get_expected_rates() (or any test / plot that fills forecast.expected_rates)
#    -> the caller changes the synthetic catalogs in place -> tests.  Outside the text because (1) the property says the
#    statistics are "computed from the forecast's mean gridded rates and each synthetic catalog's gridded counts" and does
#    not say that the mean rates have to be RE-derived from the catalogs at every call: forecast.expected_rates is a public,
#    documented member (it can even be handed to the constructor, expected_rates=...), so "the forecast's mean gridded rates"
#    are by the API whatever that member holds, and keeping it in step with catalogs he mutates himself is the caller's
#    duty; (2) the quantifier covers forecasts "in memory or streamed from file" (configurations), not a mutation by the
#    caller BETWEEN the filling of the cache and a test; under the reading "rates as cached" the code is right, under the
#    reading "rates of the catalogs as they are now" it is wrong - the text does not choose.  In-place changes BEFORE any
#    rates are cached ARE judged (every statistic then comes from the same catalogs).  What the code does:
#    stale_cache_result (old rates combined with the new catalogs), stale_cache_not_coherent (the invariant of
#    session_history_free is violated, so that theorem does not apply).
AWAITING_DECISION = ["obs-all-below-min-magnitude", "expected-rates-read-before-inplace-change"]


# ----------------------------------------------------------------------------- small helpers
def close(a, b, tol=TOL):
    if a is None or b is None:
        return a is None and b is None
    if math.isnan(a) or math.isnan(b):
        return math.isnan(a) and math.isnan(b)
    if math.isinf(a) or math.isinf(b):
        return a == b
    return abs(a - b) <= tol * max(1.0, abs(a), abs(b))


def bits(x):
    return str(struct.unpack("<Q", struct.pack("<d", float(x)))[0])


def unbits(s):
    return struct.unpack("<d", struct.pack("<Q", int(s)))[0]


def log10(x):
    return math.log10(x)


@contextlib.contextmanager
def quiet():
    with contextlib.redirect_stdout(io.StringIO()):
        with numpy.errstate(all="ignore"):
            yield


ERRSTATES = {"div-inv": dict(divide="raise", invalid="raise"), "all": dict(all="raise")}
_FORCE_STATE = os.environ.get("C10_FORCE_ERRSTATE")         # probing aid


@contextlib.contextmanager
def numstate(name, ok=True):
    """(k) the CALLER's global numeric state during a test: numpy floating-point errors raise, decimal precision 3"""
    name = _FORCE_STATE or name
    if not name or not ok:
        yield
        return
    import decimal
    with numpy.errstate(**ERRSTATES[name]), decimal.localcontext() as ctx:
        ctx.prec = 3
        yield


@contextlib.contextmanager
def record_choice(rec):
    """record what the legacy numpy random functions draw (the harness process only; /repo is untouched).

    `numpy.random.choice(a, size, replace, p)` IS `a[numpy.random.choice(len(a), size, replace, p)]` (same use of the random
    stream, same result): the wrapper draws the INDICES itself and records them together with `p` and the population
    size, so that the recording does not depend on what the values of `a` mean (bin-centre magnitudes, bin indices, raw
    magnitudes of the union, ...).  Each resampled catalog is one entry dict(idx, pop, p, values)."""
    orig = numpy.random.choice
    orig_mn = numpy.random.multinomial

    def wrapped(a, size=None, replace=True, p=None):
        arr = numpy.asarray(a)
        if arr.ndim == 0:
            pop, pool = int(arr), None
        else:
            pop, pool = arr.shape[0], arr
        idx = orig(pop, size=size, replace=replace, p=p)
        ia = numpy.asarray(idx)
        rows = ia.reshape(-1, ia.shape[-1]) if ia.ndim >= 2 else [ia.ravel()]
        for row in rows:      # all catalogs drawn in one call: one row per resampled catalog
            vals = None
            if pool is not None and pool.ndim == 1 and pool.dtype.kind in "fiu":
                vals = [float(x) for x in pool[row]]
            rec.append(dict(idx=[int(x) for x in row], pop=pop, p=None if p is None else [float(x) for x in numpy.ravel(p)],
                            values=vals))
        return idx if pool is None else pool[idx]

    def wrapped_mn(n, pvals, size=None):
        # a resampled HISTOGRAM drawn directly (same law as choice + histogram): recorded as counts
        r = orig_mn(n, pvals, size=size)
        arr = numpy.array(r)
        for row in (arr.reshape(-1, arr.shape[-1]) if arr.ndim >= 2 else [arr]):
            rec.append(dict(hist=[int(x) for x in row]))
        return r
    # the uniform numbers / integers themselves, when a rewrite does the inverse-CDF search or the indexing by hand
    saved = {name: getattr(numpy.random, name) for name in ("random_sample", "random", "rand", "ranf", "sample", "randint")}

    def wrap_uniform(f):
        def w(*a, **k):
            r = f(*a, **k)
            arr = numpy.asarray(r, dtype=float)
            for row in (arr.reshape(-1, arr.shape[-1]) if arr.ndim >= 2 else [arr.ravel()]):
                rec.append(dict(u=[float(x) for x in row]))
            return r
        return w

    def wrapped_randint(low, high=None, size=None, dtype=int):
        r = saved["randint"](low, high, size, dtype)
        arr = numpy.asarray(r)
        lo, hi = (0, low) if high is None else (low, high)
        for row in (arr.reshape(-1, arr.shape[-1]) if arr.ndim >= 2 else [arr.ravel()]):
            rec.append(dict(idx=[int(x) - int(lo) for x in row], pop=int(hi) - int(lo), p=None, values=None) if numpy.ndim(lo) == 0
                       and numpy.ndim(hi) == 0 else dict(unknown="randint with array bounds"))
        return r
    numpy.random.choice = wrapped
    numpy.random.multinomial = wrapped_mn
    for name in ("random_sample", "random", "rand", "ranf", "sample"):
        setattr(numpy.random, name, wrap_uniform(saved[name]))
    numpy.random.randint = wrapped_randint
    try:
        yield
    finally:
        numpy.random.choice = orig
        numpy.random.multinomial = orig_mn
        for name, f in saved.items():
            setattr(numpy.random, name, f)


def gen_case(rng, tier):
    big = tier == "thorough"
    C = rng.choice([1, 1, 2, 2, 3, 4, 5, 6, 8, 10, 12, 16, 20, 25, 30, 40])
    K = rng.choice([1, 2, 2, 3, 3, 4, 5, 6])
    J = rng.choice([1, 1, 2, 2, 3, 4, 5, 7, 10, 15, 20, 30])
    # magnitude edges that carry floating-point noise (4.95 + k*0.1 = 5.3500000000000005, as numpy.arange gives them) with
    # events whose magnitude is the decimal number next to an edge (5.35): inside the round-off band the library's
    # binning (bin1d_vec) counts them in the bin that edge opens, a raw comparison with the edge would not
    noisy = rng.random() < 0.12
    if noisy:
        K = rng.choice([5, 6, 6])
    elif rng.random() < 0.2:
        # many magnitude bins (and, below, several cells): numpy reduces arrays of 8 and more entries pairwise, a 2-D
        # reduction row by row - equal histograms must still give EQUAL statistics
        K = rng.choice([8, 9, 10, 12, 16, 20, 30, 50])
        C = rng.choice([1, 2, 4, 8, 9, 10, 12])
        J = min(J, rng.choice([2, 3, 5, 8, 10]))
    W = rng.randint(1, max(1, int(math.isqrt(C)) + 3))
    H = (C + W - 1) // W + rng.randint(0, 2)
    cells = rng.sample([(ix, iy) for ix in range(W) for iy in range(H)], C)
    if rng.random() < 0.5:
        cells.sort(key=lambda t: (t[1], t[0]))
    dh = rng.choice([1.0, 0.5, 0.25, 0.1])
    x0, y0 = rng.choice([0.0, -120.0, 10.0, -3.5]), rng.choice([0.0, 30.0, -5.0, 41.5])
    m0, dm = rng.choice([1.0, 2.5, 4.95, 5.0]), rng.choice([0.1, 0.5, 1.0, 0.2])
    if noisy:
        m0, dm = 4.95, rng.choice([0.1, 0.2])
    # cells the forecast may sample; the others are never sampled
    n_sampled = rng.randint(1, C) if rng.random() < 0.7 else C
    sampled = rng.sample(range(C), n_sampled)
    cw = [rng.choice([1, 1, 2, 5, 20]) for _ in sampled]
    bw = [rng.choice([1, 2, 5, 20]) for _ in range(K)]
    p_empty = rng.choice([0.0, 0.0, 0.1, 0.3, 0.6, 0.95])
    nmax = rng.choice([1, 2, 5, 20, 60 if big else 40])

    def draw_events(n, cell_pool, weights):
        cs = rng.choices(cell_pool, weights=weights, k=n)
        ks = rng.choices(range(K), weights=bw, k=n)
        return [(c, k, rng.choice([0.25, 0.5, 0.75, 0.375]), rng.choice([0.25, 0.5, 0.75, 0.625]),
                 rng.choice([0.25, 0.5, 0.75, 0.0, 0.0] if noisy else [0.25, 0.5, 0.75])) for c, k in zip(cs, ks)]

    sims = []
    for _ in range(J):
        if rng.random() < p_empty:
            sims.append([])
        else:
            sims.append(draw_events(rng.randint(1, nmax), sampled, cw))
    if J >= 2 and rng.random() < 0.25:
        # synthetic catalogs IDENTICAL to each other (same events in another order): their statistics must be equal
        ne = [j for j in range(J) if sims[j]]
        if ne:
            j1 = rng.choice(ne)
            for j2 in rng.sample([j for j in range(J) if j != j1], rng.randint(1, min(2, J - 1))):
                sims[j2] = list(sims[j1])
                rng.shuffle(sims[j2])
    all_empty_forecast = all(len(s) == 0 for s in sims)
    if all_empty_forecast and rng.random() < 0.85:
        sims[rng.randrange(J)] = draw_events(rng.randint(1, nmax), sampled, cw)
        all_empty_forecast = False
    unsampled = [c for c in range(C) if c not in sampled]
    kind = rng.choice(["empty", "single", "unsampled-all", "unsampled-some", "many", "copy", "copy", "generic", "generic"])
    if kind in ("unsampled-all", "unsampled-some") and not unsampled:
        kind = "generic"
    if kind == "empty":
        obs = []
    elif kind == "single":
        obs = draw_events(1, list(range(C)), [1] * C)
    elif kind == "unsampled-all":
        obs = draw_events(rng.randint(1, 6), unsampled, [1] * len(unsampled))
    elif kind == "unsampled-some":
        obs = draw_events(rng.randint(1, 6), unsampled, [1] * len(unsampled)) + \
            draw_events(rng.randint(1, 10), sampled, cw)
        rng.shuffle(obs)
    elif kind == "many":
        pool = rng.sample(sampled, min(len(sampled), 2))
        obs = draw_events(rng.randint(10, 80), pool, [1] * len(pool))
    elif kind == "copy":
        ne = [s for s in sims if s]
        obs = list(rng.choice(ne)) if ne else []
        rng.shuffle(obs)
    else:
        obs = draw_events(rng.randint(1, nmax), sampled, cw)
    mode = rng.choice(["memory", "memory", "memory-noncat", "stream-store", "stream-nostore"])
    case = dict(C=C, K=K, cells=cells, dh=dh, x0=x0, y0=y0, m0=m0, dm=dm, sims=sims, obs=obs, kind=kind, mode=mode,
                cat_region=rng.random() < 0.5, gap_empty=rng.random() < 0.5, top_open=rng.random() < 0.3,
                order=rng.sample(["n", "s", "m", "pl", "rm", "mll", "mllfull"], 7),
                seed=rng.choice([0, 1, 2, 12345, rng.randrange(2 ** 31)]), both_modes=rng.random() < 0.3)
    if noisy:
        case["noisy_edges"] = True
    if rng.random() < 0.25:
        case["obs_region"] = "copy"
    # how the arguments are handed over: keywords for the options (as the documentation shows), everything by position,
    # everything by keyword (the signatures are part of the public API)
    case["call_form"] = rng.choice(["kw", "kw", "kw", "positional", "positional", "kw-all"])
    # (j) synthetic catalogs of a user subclass overriding the basic data accessors (in-memory forecasts)
    case["user_catalogs"] = rng.random() < 0.35
    # (k) the caller's global numeric state while the tests run
    case["errstate"] = rng.choice([None, None, None, "div-inv", "div-inv", "all"])
    # (h) the forecast / the observation is a copy of the object that was built
    case["copy_form"] = rng.choice([None, None, None, "copy", "deepcopy", "pickle"])
    # (i) a rejected call on the same objects first
    case["bad_first"] = rng.choice([None, None, None, "n-none", "m-none"])
    # default arguments of the tests: verbose=True (progress lines of N / S / M / PL) and seed=None (the resampled tests
    # then continue the global numpy stream, which the harness seeds itself with `seed` right before the call)
    case["verbose"] = rng.random() < 0.25
    case["seed_arg"] = rng.random() >= 0.15
    # (a) the observation was not cut at the minimum magnitude: further events below region.magnitudes[0]
    if rng.random() < 0.22:
        all_below = rng.random() < 0.15 and "obs-all-below-min-magnitude" not in AWAITING_DECISION
        if obs or all_below:
            if all_below:
                case["obs"] = []
            case["obs_out"] = [(rng.randrange(C), rng.choice([0.25, 0.5, 0.75]), rng.choice([0.25, 0.5, 0.75]),
                                rng.choice([0.05, 0.3, 0.75])) for _ in range(rng.randint(1, 6))]
            case["kind"] = "all-below-min-mag" if all_below else kind + "+below-min-mag"
            case["order"] = [t for t in case["order"] if t not in ("s", "pl")]
    # (b) a call sequence that changes the synthetic catalogs in place before the tests
    if rng.random() < 0.25:
        case["premut"] = gen_premut(rng, case, draw_events, sampled, cw)
    elif rng.random() < 0.12:
        # (c) filters carried by the forecast and applied while it is iterated (apply_filters=True), the evaluation being
        # the first pass: list-backed and streamed forecasts alike
        case["fc_filter"] = dict(k0=rng.randint(0, K - 1), as_list=rng.random() < 0.5, spatial=rng.random() < 0.4)
    # (d) the SESSION: tests of this forecast, interleaved with tests of a second forecast B that shares the region object
    # and the observed catalog object, an in-place change of the observed catalog by the caller, repeated tests, and a
    # closing number test (it shows any catalog a test trimmed)
    order = case["order"]
    sess = dict(split=rng.randint(0, len(order)), repeat=rng.sample(order, rng.randint(0, min(2, len(order)))))
    if rng.random() < 0.3:
        simsB = [list(sm) for sm in sims]
        how = rng.choice(["reversed+one", "subset", "fresh"])
        if how == "reversed+one":
            simsB = simsB[::-1] + [draw_events(rng.randint(1, nmax), sampled, cw)]
        elif how == "subset":
            simsB = simsB[::2] or simsB
        else:
            simsB = [draw_events(rng.randint(0, nmax), list(range(C)), [1] * C) for _ in range(rng.randint(1, 4))]
        if any(simsB):
            sess["B"] = dict(sims=simsB, tests=rng.sample(order, rng.randint(1, min(3, len(order)))), n_cat=rng.random() < 0.5)
    if case["obs"] and rng.random() < 0.25:
        om = dict(kind=rng.choice(["filter-mag", "filter-mag-list", "filter-lon", "truncate"]), k1=rng.randint(0, K - 1),
                  ix0=rng.choice(sorted(set(ix for ix, _ in cells))))
        view = obs_view(case, om)
        parked = (not view["obs"]) and view.get("obs_out") and "obs-all-below-min-magnitude" in AWAITING_DECISION
        if not parked:
            sess["obsmut"] = om
    case["session"] = sess
    # (l) the observed catalog IS one of the forecast's own catalog objects (in-memory forecasts whose catalogs carry the region)
    if kind == "copy" and obs and mode.startswith("memory") and not case.get("premut") and not case.get("fc_filter") \
            and not case.get("obs_out") and not sess.get("obsmut") and rng.random() < 0.6:
        js = [j for j, sm in enumerate(sims) if sorted(sm) == sorted(case["obs"])]
        if js:
            case["obs_is_member"] = js[0]
            case["cat_region"] = True
            case["copy_form"] = None
            case["both_modes"] = False
    return case


def gen_big_case(rng):
    """counts above 65535 in one cell / one magnitude bin / one catalog (16-bit counters wrap there)"""
    K = rng.choice([1, 2, 3])
    C = rng.choice([1, 2])
    nbig = 65536 + rng.randint(1, 9000)
    def evs(n):
        return [(i % C if rng.random() < 0.5 else 0, (i // 7) % K if K > 1 and i % 5 == 0 else 0, 0.5, 0.5, 0.5) for i in range(n)]
    sims = [evs(nbig), evs(rng.randint(1, 40)), []]
    rng.shuffle(sims)
    obs = evs(65536 + rng.randint(1, 500)) if rng.random() < 0.5 else evs(rng.randint(1, 30))
    case = dict(C=C, K=K, cells=[(i, 0) for i in range(C)], dh=1.0, x0=0.0, y0=0.0, m0=4.0, dm=0.5, sims=sims, obs=obs,
                kind="big-counts", mode=rng.choice(["memory", "memory-noncat"]), cat_region=True, gap_empty=False,
                top_open=False, order=rng.sample(["n", "s", "m", "pl", "rm", "mll"], 6), seed=rng.choice([0, 7]),
                both_modes=False, verbose=False, seed_arg=True)
    case["session"] = dict(split=len(case["order"]), repeat=[])
    return case


def obs_sequence(case):
    """the observed catalog in catalog order: ('in', event) inside the magnitude range, ('out', tuple) below it"""
    seq = [("in", e) for e in case["obs"]]
    for n, o in enumerate(case.get("obs_out") or []):
        seq.insert(min(len(seq), 2 * n), ("out", o))
    return seq


def obs_view(case, om):
    """the case as the tests see it after the caller changed the observed catalog in place (`om`)"""
    seq = obs_sequence(case)
    if om["kind"] in ("filter-mag", "filter-mag-list"):
        seq = [(w, e) for w, e in seq if w == "in" and raw_magnitude(case, e) >= edge_of(case, om["k1"])]
    elif om["kind"] == "filter-lon":
        seq = [(w, e) for w, e in seq if case["cells"][e[0]][0] >= om["ix0"]]
    else:
        seq = seq[:len(seq) // 2]
    return dict(case, obs=[e for w, e in seq if w == "in"], obs_out=[e for w, e in seq if w == "out"])


def apply_obsmut(case, obs, mags, om):
    with quiet():
        if om["kind"] == "filter-mag":
            obs.filter(f"magnitude >= {float(mags[om['k1']])!r}")
        elif om["kind"] == "filter-mag-list":
            obs.filter([f"magnitude >= {float(mags[om['k1']])!r}"])
        elif om["kind"] == "filter-lon":
            obs.filter(f"longitude >= {float(case['x0'] + om['ix0'] * case['dh'])!r}")
        else:
            obs.catalog = obs.catalog[:len(obs.catalog) // 2]


def session_plan(case):
    """[(who, view, tests, obsmut-before?)]: A = the forecast of the case, B = a second forecast on the same region/observation"""
    sess = case.get("session") or dict(split=len(case["order"]), repeat=[])
    order = list(case["order"])
    i = min(sess.get("split", len(order)), len(order))
    plan = [("A", None, order[:i], None)]
    if sess.get("B"):
        plan.append(("B", None, [t for t in sess["B"]["tests"] if t in order], None))
    tail = order[i:] + [t for t in sess.get("repeat", []) if t in order] + ["n"]
    # a test may occur several times in the tail: split so that every segment holds a test once
    segs, cur = [], []
    for t in tail:
        if t in cur:
            segs.append(cur)
            cur = []
        cur.append(t)
    segs.append(cur)
    for j, tests in enumerate(segs):
        plan.append(("A", None, tests, sess.get("obsmut") if j == 0 else None))
    return [st for st in plan if st[2] or st[3]]


def gen_premut(rng, case, draw_events, sampled, cw):
    mode, J = case["mode"], len(case["sims"])
    mut = rng.choice(["filter-mag", "filter-mag", "filter-mag-list", "filter-lon", "truncate", "replace"])
    where = rng.choice(["in-loop", "in-loop", "direct"])
    pre = rng.choice(["none", "none", "ntest", "counts", "loop"])
    if "expected-rates-read-before-inplace-change" not in AWAITING_DECISION and rng.random() < 0.2:
        pre = "rates"
    if mode == "stream-nostore":
        where = "in-loop"
        if mut == "replace":
            mut = "filter-mag"
    if mode == "stream-store" and pre == "none":
        where = "in-loop"              # before the first pass the forecast holds a generator, not a list
    xs = sorted(set(ix for ix, _ in case["cells"]))
    return dict(pre=pre, mut=mut, where=where, subset=rng.choice(["all", "all", "even", "first"]),
                k0=rng.randint(0, case["K"] - 1) if rng.random() < 0.8 else case["K"] - 1, ix0=rng.choice(xs),
                repl=[draw_events(rng.randint(0, 4), sampled, cw) for _ in range(J)])


def premut_chosen(pm, J):
    idx = list(range(J))
    return idx if pm["subset"] == "all" else (idx[::2] if pm["subset"] == "even" else idx[:1])


def edge_of(case, k):
    """magnitude edge k of the case's region (build_region)"""
    return case["m0"] + k * case["dm"] if case.get("noisy_edges") else round(case["m0"] + k * case["dm"], 4)


def raw_magnitude(case, e):
    """the magnitude event e gets (event_rows)"""
    k, fm = e[1], e[4]
    mag = edge_of(case, k) + case["dm"] * fm
    if fm == 0.0:
        mag = round(edge_of(case, k), 4)
    if k == case["K"] - 1 and case["top_open"]:
        mag += 3 * case["dm"]
    return mag


def effective_sims(case, mode):
    """the synthetic catalogs as they are when the tests run (harness's own bookkeeping of the in-place changes)"""
    pm = case.get("premut")
    ff = case.get("fc_filter")
    if ff:      # filters carried by the forecast are applied on every pass, in every mode
        return [[e for e in evs if raw_magnitude(case, e) >= edge_of(case, ff["k0"])] for evs in case["sims"]]
    if not pm or mode == "stream-nostore":       # a forecast re-read from file on every pass forgets the changes
        return case["sims"]
    out = [list(s) for s in case["sims"]]
    for j in premut_chosen(pm, len(out)):
        evs = out[j]
        if pm["mut"] in ("filter-mag", "filter-mag-list"):
            # catalog.filter compares the RAW magnitude with the edge value (an event at the decimal number just below a
            # noisy edge belongs to that edge's bin but does not pass "magnitude >= edge")
            out[j] = [e for e in evs if raw_magnitude(case, e) >= edge_of(case, pm["k0"])]
        elif pm["mut"] == "filter-lon":
            out[j] = [e for e in evs if case["cells"][e[0]][0] >= pm["ix0"]]
        elif pm["mut"] == "truncate":
            out[j] = evs[:len(evs) // 2]
        elif pm["mut"] == "replace":
            out[j] = [tuple(e) for e in pm["repl"][j]]
    return out


def effective_case(case, mode=None):
    if not case.get("premut") and not case.get("fc_filter"):
        return case
    return dict(case, sims=effective_sims(case, mode or case["mode"]))


def grid_of(events, C, K):
    g = [[0] * K for _ in range(C)]
    for e in events:
        g[e[0]][e[1]] += 1
    return g


def flat(g):
    f = [v for row in g for v in row]
    return ",".join(map(str, f)) if f else "-"


# ----------------------------------------------------------------------------- building pyCSEP objects
def build_region(case):
    from csep.core.regions import CartesianGrid2D
    dh = case["dh"]
    origins = numpy.array([[case["x0"] + ix * dh, case["y0"] + iy * dh] for ix, iy in case["cells"]])
    if case.get("noisy_edges"):
        mags = numpy.array([case["m0"] + k * case["dm"] for k in range(case["K"])])
    else:
        mags = numpy.array([round(case["m0"] + k * case["dm"], 4) for k in range(case["K"])])
    return CartesianGrid2D.from_origins(origins, dh=dh, magnitudes=mags), origins, mags


def event_rows(case, origins, mags, events):
    """(lon, lat, mag) strictly inside cell / magnitude bin"""
    rows = []
    K = case["K"]
    for (c, k, fx, fy, fm) in events:
        lon = float(origins[c][0]) + case["dh"] * fx
        lat = float(origins[c][1]) + case["dh"] * fy
        mag = float(mags[k]) + case["dm"] * fm
        if fm == 0.0:
            mag = round(float(mags[k]), 4)          # the decimal number at the edge (inside the round-off band)
        if k == K - 1 and case["top_open"]:
            mag += 3 * case["dm"]      # the top bin is open-ended
        rows.append((lon, lat, mag))
    return rows


_USER_CLASSES = {}


def value_catalog_class():
    """(j) a USER SUBCLASS of the library's catalog that overrides the BASIC DATA ACCESSORS consistently (what the
    repository's own MockCatalog does): get_magnitudes / get_longitudes / get_latitudes / get_epoch_times /
    get_number_of_events return the catalog's own values (as fresh arrays), `__len__` is defined (an empty catalog is
    falsy).  NOT overridden: derived methods and in-place methods (filter, filter_spatial, apply_mct, spatial_counts, ...):
    which derived method the library calls internally and whether it uses the RETURN VALUE of an in-place method is not
    part of the property ("outside the property: derived-method hook"; seeded C10_15 is of that kind and is not reported)."""
    if "value" not in _USER_CLASSES:
        from csep.core.catalogs import CSEPCatalog

        class AccessorCatalog(CSEPCatalog):
            def get_magnitudes(self):
                return numpy.array(CSEPCatalog.get_magnitudes(self), copy=True)

            def get_longitudes(self):
                return numpy.array(CSEPCatalog.get_longitudes(self), copy=True)

            def get_latitudes(self):
                return numpy.array(CSEPCatalog.get_latitudes(self), copy=True)

            def get_epoch_times(self):
                return numpy.array(CSEPCatalog.get_epoch_times(self), copy=True)

            def get_number_of_events(self):
                return int(CSEPCatalog.get_number_of_events(self))

            def __len__(self):
                return int(self.event_count)
        _USER_CLASSES["value"] = AccessorCatalog
    return _USER_CLASSES["value"]


def make_catalog(case, region, origins, mags, events, with_region=True, cid=None, user_class=False):
    from csep.core.catalogs import CSEPCatalog
    rows = event_rows(case, origins, mags, events)
    data = [(str(i), 1000 * (i + 1), lat, lon, 5.0, mag) for i, (lon, lat, mag) in enumerate(rows)]
    kw = dict(region=region) if with_region else {}
    if cid is not None:
        kw["catalog_id"] = cid
    return (value_catalog_class() if user_class else CSEPCatalog)(data=data, **kw)


def write_csv(case, origins, mags, path):
    J = len(case["sims"])
    with open(path, "w") as f:
        for j, evs in enumerate(case["sims"]):
            if not evs:
                # an empty catalog is a placeholder row, or (not first/last) simply a gap in the ids
                if case["gap_empty"] and 0 < j < J - 1:
                    continue
                f.write(f",,,,,{j},\n")
                continue
            for i, (lon, lat, mag) in enumerate(event_rows(case, origins, mags, evs)):
                f.write(f"{lon!r},{lat!r},{mag!r},1992-06-28T12:00:{i % 60:02d}.0,5.0,{j},{i}\n")


def build_forecast(case, mode, region, origins, mags, tmpdir):
    import csep
    from csep.core.forecasts import CatalogForecast
    kw = {}
    ff = case.get("fc_filter")
    if ff:
        flt = f"magnitude >= {float(mags[ff['k0']])!r}"
        kw = dict(filters=[flt] if ff["as_list"] else flt, apply_filters=True)
        if ff.get("spatial"):
            kw["filter_spatial"] = True        # every synthetic event lies inside the region: no event is removed
    if mode.startswith("memory"):
        cats = [make_catalog(case, region, origins, mags, evs, with_region=case["cat_region"], cid=j,
                             user_class=bool(case.get("user_catalogs")))
                for j, evs in enumerate(case["sims"])]
        if mode == "memory-noncat":
            return CatalogForecast(catalogs=cats, region=region, name="f", **kw)
        return CatalogForecast(catalogs=cats, region=region, n_cat=len(cats), name="f", **kw)
    path = os.path.join(tmpdir, "forecast.csv")
    write_csv(case, origins, mags, path)
    if not kw:
        kw = dict(apply_filters=False)
    return csep.load_catalog_forecast(path, region=region, store=(mode == "stream-store"), name="f", **kw)


def make_observation(case, region, origins, mags):
    """observed catalog: the events inside the magnitude range plus `obs_out` events below region.magnitudes[0]
    (interleaved), as a catalog that was filtered in space and time only"""
    from csep.core.catalogs import CSEPCatalog
    rows = []
    for w, e in obs_sequence(case):
        if w == "in":
            rows.append(event_rows(case, origins, mags, [e])[0])
        else:
            c, fx, fy, drop = e
            rows.append((float(origins[c][0]) + case["dh"] * fx, float(origins[c][1]) + case["dh"] * fy, float(mags[0]) - drop))
    data = [(str(i), 1000 * (i + 1), lat, lon, 5.0, mag) for i, (lon, lat, mag) in enumerate(rows)]
    if case.get("obs_region") == "copy":
        # an EQUAL region that is another object (the observation was gridded by the caller with his own copy of the
        # region): nothing in the property depends on object identity
        import copy
        region = copy.deepcopy(region)
    return CSEPCatalog(data=data, region=region)


def apply_premut(case, mode, fc, obs, region, origins, mags):
    """[first pass] -> the synthetic catalogs are changed in place (inside / outside a loop over the forecast)"""
    pm = case.get("premut")
    if not pm:
        return
    from csep.core import catalog_evaluations as ce
    J = len(case["sims"])
    chosen = premut_chosen(pm, J)
    with quiet():
        if pm["pre"] == "ntest":
            ce.number_test(fc, obs, verbose=False)
        elif pm["pre"] == "counts":
            fc.get_event_counts(verbose=False)
        elif pm["pre"] == "loop":
            for _ in fc:
                pass
        elif pm["pre"] == "rates":
            fc.get_expected_rates()

        def mutate(j, c):
            if j not in chosen:
                return
            if pm["mut"] == "filter-mag":
                c.filter(f"magnitude >= {float(mags[pm['k0']])!r}")
            elif pm["mut"] == "filter-mag-list":
                c.filter([f"magnitude >= {float(mags[pm['k0']])!r}"])
            elif pm["mut"] == "filter-lon":
                c.filter(f"longitude >= {float(case['x0'] + pm['ix0'] * case['dh'])!r}")
            elif pm["mut"] == "truncate":
                c.catalog = c.catalog[:len(c.catalog) // 2]
        if pm["mut"] == "replace":
            if pm["where"] == "in-loop" or not isinstance(fc.catalogs, list):
                for _ in fc:            # a complete pass; afterwards the catalogs are a list on the forecast
                    pass
            for j in chosen:
                fc.catalogs[j] = make_catalog(case, region, origins, mags, [tuple(e) for e in pm["repl"][j]],
                                              with_region=case["cat_region"], cid=j)
        elif pm["where"] == "in-loop" or not isinstance(fc.catalogs, list):
            # (a streamed forecast holds a generator until its first pass is complete: only the loop reaches its catalogs)
            for j, c in enumerate(fc):
                mutate(j, c)
        else:
            for j, c in enumerate(fc.catalogs):
                mutate(j, c)


# ----------------------------------------------------------------------------- running the implementation
def canon_result(r):
    """canonical, JSON-able form of an evaluation result"""
    if r is None:
        return None
    obs = r.observed_statistic
    obs = None if obs is None else float(obs)
    q = r.quantile
    if q[0] is None and q[1] is None:
        qq = "none"
    elif q[0] is not None and q[1] is not None and q[0] == -1 and q[1] == -1:
        qq = "sentinel"
    else:
        qq = [None if q[0] is None else float(q[0]), None if q[1] is None else float(q[1])]
    return dict(status=r.status, observed=obs, quantile=qq, dist=[float(x) for x in r.test_distribution])


def spoil(a):
    """what a caller may do to an array / list a public call handed him: overwrite it in place (same length)"""
    try:
        if isinstance(a, numpy.ndarray):
            if a.flags.writeable and a.size:
                with numpy.errstate(all="ignore"):
                    a *= -3
                    a += 1
        elif isinstance(a, list):
            for i in range(len(a)):
                a[i] = -7.0
    except Exception:
        pass


def catalog_bytes(c):
    """the events of a catalog, bit for bit"""
    try:
        return (int(c.event_count), c.catalog.tobytes())
    except Exception:
        return None


def read_rates(fc):
    """the forecast's cached mean gridded rates as plain numbers (None when not computed or when the forecast has no
    `expected_rates` attribute any more: where the rates are kept is incidental); never raises"""
    try:
        er = getattr(fc, "expected_rates", None)
        if er is None:
            return None
        sp, mg = er.spatial_counts(), er.magnitude_counts()
        res = dict(spatial=[float(x) for x in sp], mag=[float(x) for x in mg], total=float(er.sum()), n_cat=fc.n_cat)
        spoil(sp)
        spoil(mg)         # the arrays a caller is handed are his: the next read must not see what he did to them
        return res
    except Exception as e:
        return dict(error=f"{type(e).__name__}: {e}"[:160])


def run_tests(case, fc, obs, tests, fresh):
    """run `tests` on the forecast object `fc`; returns (out, draws, raw, rates_after, fc) — fc may have been rebuilt"""
    from csep.core import catalog_evaluations as ce
    out, draws, raw, rates_after = {}, {}, {}, {}
    n_union = None
    for t in tests:
        rec = []
        if t in ("rm", "mll", "mllfull"):
            if n_union is None:
                n_union = case["_n_union"]
            if n_union == 0 and (case["obs"] or case.get("obs_out")):
                # resampling from an empty union histogram is undefined (probabilities 0/0): outside the domain
                out[t] = ("error", "skipped-empty-union", "")
                draws[t] = rec
                continue
        vb = bool(case.get("verbose"))
        skw = dict(seed=case["seed"]) if case.get("seed_arg", True) else {}
        if not skw:
            numpy.random.seed(case["seed"])
        form = case.get("call_form", "kw")
        seed = case["seed"]
        side = draws.setdefault("_side", [])
        obs_before = catalog_bytes(obs)
        cats = getattr(fc, "catalogs", None)
        sims_before = [catalog_bytes(c) for c in cats] if isinstance(cats, list) and not case.get("fc_filter") else None
        try:
            # an all-empty forecast divides by a zero event total (outside the raising state: the unchanged tree is not
            # robust there and the result is judged by the NU == 0 rules)
            with quiet(), record_choice(rec), numstate(case.get("errstate"), ok=case["_n_union"] > 0):
                if form == "positional":
                    # every argument by position, in the order of the signatures
                    pos = {"n": (ce.number_test, (vb,)), "s": (ce.spatial_test, (vb,)), "m": (ce.magnitude_test, (vb,)),
                           "pl": (ce.pseudolikelihood_test, (vb,)),
                           "rm": (ce.resampled_magnitude_test, (vb, seed) if skw else (vb,)),
                           "mll": (ce.MLL_magnitude_test, (False, vb, seed) if skw else (False, vb)),
                           "mllfull": (ce.MLL_magnitude_test, (True, vb, seed) if skw else (True, vb))}[t]
                    r = pos[0](fc, obs, *pos[1])
                elif form == "kw-all":
                    kwf = {"n": ce.number_test, "s": ce.spatial_test, "m": ce.magnitude_test, "pl": ce.pseudolikelihood_test,
                           "rm": ce.resampled_magnitude_test, "mll": ce.MLL_magnitude_test, "mllfull": ce.MLL_magnitude_test}[t]
                    kws = dict(forecast=fc, observed_catalog=obs, verbose=vb)
                    if t in ("rm", "mll", "mllfull"):
                        kws.update(skw)
                    if t in ("mll", "mllfull"):
                        kws["full_calculation"] = (t == "mllfull")
                    r = kwf(**kws)
                elif t == "n":
                    r = ce.number_test(fc, obs, verbose=vb)
                elif t == "s":
                    r = ce.spatial_test(fc, obs, verbose=vb)
                elif t == "m":
                    r = ce.magnitude_test(fc, obs, verbose=vb)
                elif t == "pl":
                    r = ce.pseudolikelihood_test(fc, obs, verbose=vb)
                elif t == "rm":
                    r = ce.resampled_magnitude_test(fc, obs, verbose=vb, **skw)
                elif t == "mll":
                    r = ce.MLL_magnitude_test(fc, obs, verbose=vb, **skw)
                else:
                    r = ce.MLL_magnitude_test(fc, obs, full_calculation=True, verbose=vb, **skw)
                if t == "n":
                    res = dict(status=r.status, observed=int(r.observed_statistic),
                               quantile=[float(r.quantile[0]), float(r.quantile[1])],
                               dist=[int(x) for x in r.test_distribution])
                else:
                    res = canon_result(r)
            # (1) what a result hands out belongs to the caller: he overwrites the test distribution in place (the
            #     canonical copy above is what is judged); no later result on this forecast may change
            if r is not None:
                spoil(getattr(r, "test_distribution", None))
            # (2) the caller's own objects are bit for bit what they were: observed catalog and synthetic catalogs
            if obs_before is not None and catalog_bytes(obs) != obs_before:
                side.append(f"{t}: the test modified the observed catalog the caller handed in")
            cats2 = getattr(fc, "catalogs", None)
            if sims_before is not None and isinstance(cats2, list) and len(cats2) == len(sims_before) and \
                    [catalog_bytes(c) for c in cats2] != sims_before:
                side.append(f"{t}: the test modified the events of the forecast's synthetic catalogs")
            raw[t] = r
            out[t] = res
        except Exception as e:
            out[t] = ("error", type(e).__name__, str(e)[:120])
            # an exception inside a pass leaves the forecast's cursor mid-way (C13): start from a fresh object
            try:
                fc = fresh()
            except Exception as e2:       # never a harness crash: every later test reports the failure
                out[t] = ("error", type(e2).__name__, "rebuilding the forecast: " + str(e2)[:100])
        draws[t] = rec
        rates_after[t] = read_rates(fc)
    return out, draws, raw, rates_after, fc


COPY_NOTES = {}


def copied(case, x, what):
    """(h) COPIES BEFORE USE: the object handed to the tests is copy.copy / copy.deepcopy / a pickle round trip of the one
    that was built; the result must be that of the original.  A form the tree under test cannot carry out is skipped
    and counted (COPY_NOTES), never judged."""
    form = case.get("copy_form")
    if not form:
        return x
    import copy
    import pickle
    try:
        y = copy.copy(x) if form == "copy" else (copy.deepcopy(x) if form == "deepcopy" else pickle.loads(pickle.dumps(x)))
    except Exception as e:
        key = f"copy-unsupported:{form}:{what}:{type(e).__name__}"
        COPY_NOTES[key] = COPY_NOTES.get(key, 0) + 1
        return x
    key = f"copy:{form}:{what}"
    COPY_NOTES[key] = COPY_NOTES.get(key, 0) + 1
    return y


def rejected_call_first(case, fc, obs):
    """(i) STATE AFTER A CAUGHT EXCEPTION: a call on the SAME forecast object that the library rejects (the observed
    catalog is not a catalog) - after a COMPLETE pass over the forecast (number test) or before any pass (magnitude
    test); the caller catches the exception and goes on with legal calls, whose results must be those of a fresh object.
    (An exception in the MIDDLE of a pass is C13's known finding D27 and is not produced here.)"""
    from csep.core import catalog_evaluations as ce
    try:
        with quiet():
            if case["bad_first"] == "n-none":
                ce.number_test(fc, None, verbose=False)
            else:
                ce.magnitude_test(fc, None, verbose=False)
    except Exception:
        pass


def run_impl(case, mode, tmpdir):
    """runs the SESSION of the case (session_plan). Returns the list of segments
    dict(who, view (the case as that segment's tests see it), out, draws, raw, rates_after) and the magnitude edges."""
    region, origins, mags = build_region(case)
    obs = copied(case, make_observation(case, region, origins, mags), "observation")

    def fresh_A():
        f = build_forecast(case, mode, region, origins, mags, tmpdir)
        if mode.startswith("memory"):
            f = copied(case, f, "forecast")      # (h) a generator-backed forecast cannot be copied: list-backed ones only
        apply_premut(case, mode, f, obs, region, origins, mags)
        if case.get("bad_first") and not case.get("premut"):
            rejected_call_first(case, f, obs)
        return f
    sess = case.get("session") or {}
    caseB = None
    if sess.get("B"):
        caseB = dict(case, sims=sess["B"]["sims"], premut=None, fc_filter=None)

    def fresh_B():
        return build_forecast(caseB, "memory" if sess["B"].get("n_cat") else "memory-noncat", region, origins, mags, tmpdir)
    fcs = {"A": fresh_A(), "B": None}
    j_mem = case.get("obs_is_member")
    if j_mem is not None and mode.startswith("memory") and isinstance(getattr(fcs["A"], "catalogs", None), list):
        obs = fcs["A"].catalogs[j_mem]          # (l) ONE object in two roles: the observation IS a catalog of the forecast
    viewA = effective_case(case, mode)
    cur_obs_view = {}
    segs = []
    for who, _, tests, om in session_plan(case):
        if om:
            apply_obsmut(case, obs, mags, om)
            ov = obs_view(case, om)
            cur_obs_view = dict(obs=ov["obs"], obs_out=ov["obs_out"])
        if who == "B" and fcs["B"] is None:
            fcs["B"] = fresh_B()
        base = viewA if who == "A" else caseB
        view = dict(base, **cur_obs_view)
        view["_n_union"] = sum(len(x) for x in view["sims"])
        out, draws, raw, rates_after, fcs[who] = run_tests(view, fcs[who], obs, tests, fresh_A if who == "A" else fresh_B)
        segs.append(dict(who=who, view=view, out=out, draws=draws, raw=raw, rates_after=rates_after, tests=list(tests),
                         obsmut=om))
    return segs, mags


class Uninterpretable(Exception):
    """the harness cannot tell which magnitude bins a recorded draw stands for (never a verdict)"""


def hist_of_draw(d, mags, K, lam=None, union=None):
    """magnitude histogram of one recorded resampled catalog, independent of HOW the implementation phrases the draw:
    * drawn with probabilities over the K magnitude bins (`p` of length K, population K): the INDICES are the bins,
      whatever the values of `a` were (bin centres, bin numbers, edges);
    * drawn uniformly from a population of numbers (full calculation: the union's raw magnitudes): the drawn VALUES are
      binned as numpy.histogram bins them (raw comparison with the raw edges, open top);
    * drawn as a histogram (numpy.random.multinomial): the counts.
    Anything else raises Uninterpretable."""
    if "hist" in d:
        h = list(d["hist"])
        if len(h) != K:
            raise Uninterpretable(f"resampled histogram of {len(h)} bins for {K} magnitude bins")
        return h
    if "unknown" in d:
        raise Uninterpretable(d["unknown"])
    if "u" in d:
        # uniform numbers, searched by hand in the cumulative probabilities of the union histogram (what the legacy
        # numpy.random.choice does internally): bins through the probabilities; a number within 1e-9 of a step is ambiguous
        if not union or sum(union) == 0 or len(union) != K:
            raise Uninterpretable("uniform numbers without a union histogram")
        cdf = numpy.cumsum(numpy.array(union, dtype=float) / float(sum(union)))
        cdf /= cdf[-1]
        u = numpy.array(d["u"], dtype=float)
        if u.size and (numpy.min(numpy.abs(u[:, None] - cdf[None, :])) < 1e-9 or u.min() < 0 or u.max() >= 1):
            raise Uninterpretable("a uniform number next to a step of the cumulative probabilities")
        h = [0] * K
        for i in numpy.searchsorted(cdf, u, side="right"):
            h[int(i)] += 1
        return h
    if d.get("p") is not None:
        if d["pop"] != K or len(d["p"]) != K:
            raise Uninterpretable(f"probabilities over {d['pop']} items for {K} magnitude bins")
        h = [0] * K
        for i in d["idx"]:
            h[i] += 1
        return h
    values = d.get("values")
    if values is None:
        # indices into a population that was not handed over: only the union's magnitudes in iteration order qualify
        if lam is None or d["pop"] != len(lam):
            raise Uninterpretable(f"uniform draw of indices below {d['pop']} (the union has {None if lam is None else len(lam)} events)")
        values = [lam[i] for i in d["idx"]]
    if any(not (v >= float(mags[0])) for v in values):
        raise Uninterpretable("a drawn value lies below the first magnitude edge")
    h = [0] * K
    for v in values:
        k = max(i for i in range(K) if float(mags[i]) <= v)
        h[k] += 1
    return h


# ----------------------------------------------------------------------------- direct oracle (no NumPy)
def qcount(dist, v):
    n = len(dist)
    return sum(1 for x in dist if x >= v), sum(1 for x in dist if x <= v), n


def oracle(case, out, draws_h, rates):
    """list of failure strings: the implementation's outputs against the documented definitions"""
    bad = []
    C, K = case["C"], case["K"]
    G = [grid_of(s, C, K) for s in case["sims"]]       # the caller passes the case with the EFFECTIVE synthetic catalogs
    O = grid_of(case["obs"], C, K)
    J = len(G)
    Nj = [sum(map(sum, g)) for g in G]
    Nobs = sum(map(sum, O))                            # observed events inside the magnitude range: sum_k Omega(k)
    Nout = len(case.get("obs_out") or [])              # observed events below the first magnitude edge
    NU = sum(Nj)
    sp_u = [sum(sum(g[i]) for g in G) for i in range(C)]            # union spatial counts
    mg_u = [sum(g[i][k] for g in G for i in range(C)) for k in range(K)]   # union magnitude histogram
    sp_o = [sum(O[i]) for i in range(C)]
    mg_o = [sum(O[i][k] for i in range(C)) for k in range(K)]
    rate = [Fraction(x, J) for x in sp_u]                           # mean spatial rates
    Nbar = Fraction(NU, J)

    def chk_quant(name, r, allow_band=False):
        """C09: quantile = (#{>= obs}/n, #{<= obs}/n) on the implementation's own distribution"""
        q, d, v = r["quantile"], r["dist"], r["observed"]
        if not d:
            if q != "none":
                bad.append(f"{name}: empty distribution must give (None, None), got {q}")
            return
        if q in ("none", "sentinel") or v is None or math.isnan(v):
            bad.append(f"{name}: quantile {q} / observed {v} with a non-empty distribution and valid status")
            return
        ge, le, n = qcount(d, v)
        if q[0] != ge / n or q[1] != le / n:
            bad.append(f"{name}: quantile {q} != ({ge}/{n}, {le}/{n}) (C09)")

    def chk_dist(name, got, want):
        if len(got) != len(want):
            bad.append(f"{name}: distribution length {len(got)} != {len(want)}")
            return
        for a, b in zip(got, want):
            if not close(a, b):
                bad.append(f"{name}: distribution entry {a!r} != documented {b!r}")
                return

    def no_inf(name, r):
        if r["observed"] is not None and math.isinf(r["observed"]):
            bad.append(f"{name}: infinite observed statistic {r['observed']} reported with status {r['status']}")
        if any(math.isinf(x) or math.isnan(x) for x in r["dist"]):
            bad.append(f"{name}: non-finite entry in the test distribution")

    # mean gridded rates (C13 consumed): spatial, magnitude, total
    if rates is not None and "error" in rates:
        bad.append(f"reading the forecast's expected rates raised {rates['error']}")
    elif rates is not None:
        want_sp = [float(Fraction(x, J)) for x in sp_u]
        want_mg = [float(Fraction(x, J)) for x in mg_u]
        if rates["n_cat"] != J:
            bad.append(f"n_cat {rates['n_cat']} != {J}")
        if not (len(rates["spatial"]) == C and all(close(a, b, 1e-12) for a, b in zip(rates["spatial"], want_sp))
                and len(rates["mag"]) == K and all(close(a, b, 1e-12) for a, b in zip(rates["mag"], want_mg))
                and close(rates["total"], float(Nbar), 1e-12)):
            bad.append("mean gridded rates differ from sum of synthetic counts / n_cat")

    for t, r in out.items():
        if isinstance(r, tuple):
            if t in ("rm", "mll") and K == 1 and r[1] == "IndexError" and Nobs > 0:
                continue   # reported separately (known finding signature)
            if t in ("rm", "mll", "mllfull") and NU == 0 and Nobs > 0:
                continue   # resampling from an empty union is undefined (outside the property's domain)
            bad.append(f"{t}: exception {r[1]}: {r[2]}")
            continue
        # ---------------------------------------------------------------- number test
        if t == "n":
            # the number test counts every event of the observed catalog and of the synthetic catalogs as they are now
            if r["dist"] != Nj or r["observed"] != Nobs + Nout or r["status"] != "normal":
                bad.append(f"n: distribution/observed {r['dist']}/{r['observed']} != {Nj}/{Nobs + Nout}")
            ge, le, n = qcount(Nj, Nobs + Nout)
            if r["quantile"] != [ge / n, le / n]:
                bad.append(f"n: quantile {r['quantile']} != ({ge}/{n}, {le}/{n})")
            continue
        # ---------------------------------------------------------------- no observed event in the magnitude range
        if Nobs == 0 and Nout > 0:
            # sub-class "obs-all-below-min-magnitude" (only generated once it has left AWAITING_DECISION; S / PL are
            # not run on such observations): the magnitude statistics are undefined and must be signalled
            if not signalled(r):
                bad.append(f"{t}: no observed event inside the magnitude range ({Nout} below it) is not signalled: {r}")
            continue
        # ---------------------------------------------------------------- empty observation
        if Nobs == 0:
            # "status 'not-valid' or no result ... instead of a numeric quantile": any explicit signal is accepted
            # (today: PL no result; S not-valid + (-1,-1) + nan; M-type not-valid + (None, None) + None)
            if not signalled(r):
                bad.append(f"{t}: empty observation not signalled (status not-valid or no result, no numeric quantile): {r}")
            continue
        # ---------------------------------------------------------------- spatial / pseudo-likelihood
        if t in ("s", "pl"):
            under = any(sp_o[i] > 0 and rate[i] == 0 for i in range(C))
            kept = [i for i in range(C) if rate[i] > 0]
            n_kept = sum(sp_o[i] for i in kept)
            if t == "s":
                tot = sum(rate)
                want_d = [math.fsum(sum(g[i]) * math.log(rate[i] / tot) for i in range(C) if sum(g[i])) / n
                          for g, n in zip(G, Nj) if n > 0]
                if n_kept == 0:
                    # no observed event in a sampled cell: the statistic is undefined
                    if not signalled(r):
                        bad.append(f"s: no observed event in a sampled cell is not signalled: {r}")
                    elif r is not None and r["dist"]:
                        chk_dist("s", r["dist"], want_d)
                    continue
                want_o = math.fsum(sp_o[i] * math.log(rate[i] / tot) for i in kept if sp_o[i]) / n_kept
            else:
                want_d = [math.fsum(sum(g[i]) * math.log(rate[i]) for i in range(C) if sum(g[i])) - float(Nbar)
                          for g in G]
                if n_kept == 0:
                    if not signalled(r):
                        bad.append(f"pl: no observed event in a sampled cell is not signalled: {r}")
                    continue
                want_o = math.fsum(sp_o[i] * math.log(rate[i]) for i in kept if sp_o[i]) - float(Nbar)
            if r is None:
                bad.append(f"{t}: no result although {n_kept} observed event(s) lie in sampled cells")
                continue
            no_inf(t, r)
            want_status = "undersampled" if under else "normal"
            if r["status"] != want_status:
                bad.append(f"{t}: status {r['status']} != {want_status}")
            if not close(r["observed"], want_o):
                bad.append(f"{t}: observed {r['observed']!r} != documented {want_o!r}")
            chk_dist(t, r["dist"], want_d)
            chk_quant(t, r)
            continue
        # ---------------------------------------------------------------- magnitude family
        if r is None:
            bad.append(f"{t}: no result")
            continue
        if NU == 0:
            # forecast without any synthetic event: nothing numeric may be reported
            if r["quantile"] != "none" or r["dist"] or not (r["observed"] is None or math.isnan(r["observed"])):
                bad.append(f"{t}: forecast without events gave a numeric result {r}")
            continue
        no_inf(t, r)
        if r["status"] != "normal":
            bad.append(f"{t}: status {r['status']} != normal")
        if t in ("m", "rm"):
            lu = [log10(Nobs * mg_u[k] / NU + 1) for k in range(K)]

            def D(h, n):
                return math.fsum((lu[k] - log10(Nobs * h[k] / n + 1)) ** 2 for k in range(K))
            want_o = D(mg_o, Nobs)
            if t == "m":
                want_d = []
                for g, n in zip(G, Nj):
                    if n > 0:
                        want_d.append(D([sum(g[i][k] for i in range(C)) for k in range(K)], n))
            elif t in case.get("_unobserved", ()):
                want_d = None
            else:
                want_d = [D(h, Nobs) for h in draws_h[t]]
                if len(draws_h[t]) != J or any(sum(h) != Nobs for h in draws_h[t]):
                    bad.append(f"rm: expected {J} resampled catalogs of {Nobs} events, got "
                               f"{[sum(h) for h in draws_h[t]]}")
        else:
            def ll(x):
                s = math.fsum(x)
                return math.lgamma(s + 1) + math.fsum(xi * math.log(xi / s) - math.lgamma(xi + 1) for xi in x)

            def MLL(c):
                ratio = NU / sum(c)
                um = [u + ratio for u in mg_u]
                cm = [ci + 1 for ci in c]
                return 2 * (ll([a + b for a, b in zip(um, cm)]) - ll(um) - ll(cm))
            want_o = MLL(mg_o)
            want_d = None if t in case.get("_unobserved", ()) else [MLL(h) for h in draws_h[t]]
            if want_d is not None and (len(draws_h[t]) != J or any(sum(h) != Nobs for h in draws_h[t])):
                bad.append(f"{t}: expected {J} resampled catalogs of {Nobs} events, got "
                           f"{[sum(h) for h in draws_h[t]]}")
        if not close(r["observed"], want_o):
            bad.append(f"{t}: observed {r['observed']!r} != documented {want_o!r}")
        if want_d is None:
            if len(r["dist"]) != J:
                bad.append(f"{t}: distribution length {len(r['dist'])} != {J} resampled catalogs")
        else:
            chk_dist(t, r["dist"], want_d)
        chk_quant(t, r)
        if t in ("rm", "mll", "mllfull") and draws_h[t] and not (t == "mllfull" and case.get("noisy_edges")):
            # (full_calculation draws raw magnitudes and numpy.histogram compares them with the raw edges: an event inside
            # the round-off band below an edge is then counted one bin lower than in the union histogram)
            # "resampling from the union histogram": never an event in a bin the union histogram leaves empty, and the
            # pooled bin totals are Binomial(J*N_obs, Lambda_U(k)/N_U) (two-sided tail below 1e-12 = not that law)
            M = sum(sum(h) for h in draws_h[t])
            for k in range(K):
                T = sum(h[k] for h in draws_h[t])
                if mg_u[k] == 0:
                    if T:
                        bad.append(f"{t}: {T} resampled event(s) in magnitude bin {k} where the union histogram is empty")
                    continue
                tail = binom_two_sided(M, mg_u[k] / NU, T)
                if tail < 1e-12:
                    bad.append(f"{t}: {T} of {M} resampled events in bin {k}, union probability {mg_u[k]}/{NU}: "
                               f"binomial tail {tail:.1e} (not resampled from the union histogram)")
    return bad


def tie_checks(case, out, draws_h):
    """exact tie semantics (C09) on the RETURNED statistics: every documented statistic is a function of the catalog's
    gridded counts, so a synthetic (or resampled) catalog with the same counts as the observation must get the SAME float
    as the observed statistic, and catalogs with equal counts the same float among themselves - otherwise the catalog does
    not count on both sides of the quantile as #{D_j >= D_obs}/J, #{D_j <= D_obs}/J demand (a statistic that is computed along
    two code paths which round differently breaks this although each value is right to rounding)."""
    bad = []
    C, K = case["C"], case["K"]
    G = [grid_of(s, C, K) for s in case["sims"]]
    O = grid_of(case["obs"], C, K)
    if not case["obs"]:
        return bad
    sp = lambda g: tuple(sum(g[i]) for i in range(C))
    mg = lambda g: tuple(sum(g[i][k] for i in range(C)) for k in range(K))
    for t, r in out.items():
        if not isinstance(r, dict) or t == "n" or r["status"] not in ("normal", "undersampled") or r["observed"] is None:
            continue
        if t in ("s", "pl"):
            if r["status"] != "normal":
                continue                     # the undersampled statistic is computed over the sampled cells only
            keys = [sp(g) for g in G]
            okey = sp(O)
            idx = [j for j in range(len(G)) if t == "pl" or sum(keys[j]) > 0]
        elif t == "m":
            keys = [mg(g) for g in G]
            okey = mg(O)
            idx = [j for j in range(len(G)) if sum(keys[j]) > 0]
        else:
            if t in case.get("_unobserved", ()) or not draws_h.get(t) or len(draws_h[t]) != len(r["dist"]):
                continue
            keys = [tuple(h) for h in draws_h[t]]
            okey = mg(O)
            idx = list(range(len(keys)))
            if t == "rm":
                idx = [j for j in idx if sum(keys[j]) > 0]
        if len(idx) != len(r["dist"]):
            continue                         # reported by the oracle as a wrong distribution length
        first = {}
        for pos, j in enumerate(idx):
            d = r["dist"][pos]
            if keys[j] == okey and d != r["observed"]:
                bad.append(f"{t}: catalog {j} has the same gridded counts as the observation but its statistic {d!r} is not "
                           f"the observed statistic {r['observed']!r}: it does not tie, the quantile loses it on one side")
                break
            if keys[j] in first and first[keys[j]][1] != d:
                bad.append(f"{t}: catalogs {first[keys[j]][0]} and {j} have the same gridded counts but the statistics "
                           f"{first[keys[j]][1]!r} and {d!r}")
                break
            first.setdefault(keys[j], (j, d))
    return bad


def draws_independent(case, draws, draws_h):
    """the J resampled catalogs of one test are J draws, not copies of one: two recorded value SEQUENCES that are
    identical although the probability of that, (sum_k p_k^2)^N for independent resampling from the union histogram, is
    below 1e-12, are reported (a generator re-seeded inside the loop, one draw reused for every catalog, ...)"""
    bad = []
    NU = sum(len(s) for s in case["sims"])
    if NU == 0:
        return bad
    mg_u = [0] * case["K"]
    for sm in case["sims"]:
        for e in sm:
            mg_u[e[1]] += 1
    coll = sum((u / NU) ** 2 for u in mg_u)                 # P(two independent draws of ONE event fall in the same bin)
    for t in ("rm", "mll", "mllfull"):
        seqs = draws.get(t) or []
        hs = draws_h.get(t) or []
        if len(seqs) < 2 or len(hs) != len(seqs):
            continue
        if any("idx" not in q for q in seqs):
            continue
        N = len(seqs[0]["idx"])
        if N == 0 or coll >= 1.0 or N * math.log(coll) > math.log(1e-12):
            continue
        same = sum(1 for a, b in zip(hs, hs[1:]) if a == b and len(a) and sum(a) == N)
        # identical HISTOGRAMS of neighbouring draws: each pair has probability <= P(same sequence up to order) ... use the
        # exact sequences for the verdict (probability coll^N each), histograms only as the cheap pre-filter
        if same:
            ident = sum(1 for a, b in zip(seqs, seqs[1:]) if a["idx"] == b["idx"])
            if ident:
                bad.append(f"{t}: {ident} pair(s) of consecutive resampled catalogs are the SAME sequence of {N} values "
                           f"(probability {coll:.3g}^{N} each for independent draws): the resampled catalogs are not independent draws")
    return bad


def binom_two_sided(M, p, T):
    """min(P(X <= T), P(X >= T)) for X ~ Binomial(M, p); 1.0 when T is within 5 standard deviations (not computed)"""
    if p >= 1.0:
        return 1.0 if T == M else 0.0
    mu, sd = M * p, math.sqrt(M * p * (1 - p))
    if abs(T - mu) <= 5 * sd + 1:
        return 1.0
    lp, lq = math.log(p), math.log1p(-p)

    def pmf(i):
        return math.exp(math.lgamma(M + 1) - math.lgamma(i + 1) - math.lgamma(M - i + 1) + i * lp + (M - i) * lq)
    if T < mu:
        return math.fsum(pmf(i) for i in range(0, T + 1))
    return math.fsum(pmf(i) for i in range(T, M + 1))


# ----------------------------------------------------------------------------- model side
def parse_model(s):
    if s == "noresult":
        return None
    st, ob, q, d = s.split("|")
    obs = None if ob == "none" else (-math.inf if ob == "-inf" else unbits(ob))
    if q == "sentinel":
        qq = "sentinel"
    else:
        a, b = q.split(",")
        if a == "none" and b == "none":
            qq = "none"
        else:
            qq = [tuple(map(int, a.split(":"))), tuple(map(int, b.split(":")))]
    dist = [] if d == "-" else [(-math.inf if x == "-inf" else unbits(x)) for x in d.split(",")]
    return dict(status=st, observed=obs, quantile=qq, dist=dist)


def signalled(r):
    """the property's "signal it explicitly (status 'not-valid' or no result) instead of a numeric quantile": no result at
    all, or a result with status 'not-valid' whose quantile is not a pair of probabilities ((None, None) or the sentinel
    (-1, -1)) and whose observed statistic is None / nan.  WHICH of these forms a test uses is incidental."""
    if r is None:
        return True
    if isinstance(r, tuple):
        return False
    return r["status"] == "not-valid" and r["quantile"] in ("none", "sentinel") and \
        (r["observed"] is None or (isinstance(r["observed"], float) and math.isnan(r["observed"])))


def same_result(impl, model):
    """property-level equality of an implementation result and a model result"""
    if signalled(impl) and signalled(model):
        return True          # both signal an undefined statistic; the form of the signal is incidental
    if impl is None or model is None:
        return impl is None and model is None
    if impl["status"] != model["status"]:
        return False
    io_, mo = impl["observed"], model["observed"]
    if io_ is None or (isinstance(io_, float) and math.isnan(io_)):
        if mo is not None:
            return False
    elif mo is None or not close(io_, mo):
        return False
    if len(impl["dist"]) != len(model["dist"]) or not all(close(a, b) for a, b in zip(impl["dist"], model["dist"])):
        return False
    iq, mq = impl["quantile"], model["quantile"]
    if isinstance(iq, str) or isinstance(mq, str):
        return iq == mq
    # near ties: a distribution entry within rounding of the observed statistic may fall on either side
    band = sum(1 for x in impl["dist"] if close(x, io_, 1e-8))
    n = len(impl["dist"])
    for k in (0, 1):
        if mq[k][1] != n or abs(iq[k] * n - mq[k][0]) > band + 1e-6:
            return False
        if band == 0 and iq[k] != mq[k][0] / mq[k][1]:
            return False
    return True


OPS = dict(s="c10_s", pl="c10_pl", m="c10_m", rm="c10_rm", mll="c10_mll", mllfull="c10_mll")
OPS_OUT = dict(m="c10_mo", rm="c10_rmo", mll="c10_mllo", mllfull="c10_mllo")


def queue_model(drv, case, draws_h, only=None):
    """one driver request per test of the step (`only`), plus the mean rates"""
    C, K = case["C"], case["K"]
    want = (lambda t: True) if only is None else (lambda t: t in only)
    sims = ";".join(flat(grid_of(s, C, K)) for s in case["sims"])
    obs = flat(grid_of(case["obs"], C, K))
    nout = len(case.get("obs_out") or [])
    if nout:
        # observation with events below the first magnitude edge: the `...Out` models (count matrix + their number)
        idx = {"rates": drv.ask(f"c10_rates {C} {K} {sims}")}
        if want("n"):
            idx["n"] = drv.ask(f"c10_no {C} {K} {sims} {obs} {nout}")
        for t, op in OPS_OUT.items():
            if not want(t):
                continue
            if t == "m":
                idx[t] = drv.ask(f"{op} {C} {K} {sims} {obs} {nout}")
            else:
                d = ";".join(",".join(map(str, h)) for h in draws_h.get(t, [])) or "-"
                idx[t] = drv.ask(f"{op} {C} {K} {sims} {obs} {d} {nout}")
        return idx
    idx = {"rates": drv.ask(f"c10_rates {C} {K} {sims}")}
    if want("n"):
        idx["n"] = drv.ask(f"c10_n {C} {K} {sims} {obs}")
    for t, op in OPS.items():
        if not want(t):
            continue
        if t in ("rm", "mll", "mllfull"):
            d = ";".join(",".join(map(str, h)) for h in draws_h.get(t, [])) or "-"
            idx[t] = drv.ask(f"{op} {C} {K} {sims} {obs} {d}")
        else:
            idx[t] = drv.ask(f"{op} {C} {K} {sims} {obs}")
    return idx


def queue_resample(run, drv, pending, case, out, draws_h, mags):
    """Soft64 model of the resampling step (Model/Resample.lean) on the uniform numbers the legacy global RandomState
    yields after `numpy.random.seed(seed)`: J times `random_sample(N_obs)`.  Bit-for-bit agreement with the recorded
    draws is a STATISTIC of how tightly the present code is modelled (a rewrite that draws differently but still from
    the union histogram is judged by the property-level oracle, not by this)."""
    K, J = case["K"], len(case["sims"])
    Nobs = len(case["obs"])
    NU = sum(len(s) for s in case["sims"])
    if Nobs == 0 or NU == 0 or J * Nobs > 300:
        return
    mg_u = [0] * K
    for sm in case["sims"]:
        for e in sm:
            mg_u[e[1]] += 1
    mtxt = ",".join(f"{Fraction(float(m)).numerator}/{Fraction(float(m)).denominator}" for m in mags)
    for t in ("rm", "mll"):
        r = out.get(t)
        if not isinstance(r, dict) or len(draws_h.get(t, [])) != J:
            continue
        rs = numpy.random.RandomState(case["seed"])
        us = [rs.random_sample(Nobs) for _ in range(J)]
        utxt = ";".join(",".join(f"{int(u * 2 ** 53)}/9007199254740992" for u in row) for row in us)
        i = drv.ask(f"c10_resample {mtxt} {','.join(map(str, mg_u))} {utxt}")
        pending.append(("resample", dict(case, test=t), i, draws_h[t]))


def queue_resample_full(run, drv, pending, case, out, draws_h, mags):
    """Model of the resampling step of MLL_magnitude_test(full_calculation=True) (Model/ResampleFull.lean): Lambda_u = the
    raw magnitudes of the synthetic catalogs in iteration order, each with the bin the gridded counts put it in;
    numpy.random.choice(Lambda_u, size=N_obs) = Lambda_u[randint(0, len, N_obs)] of the legacy global RandomState after
    numpy.random.seed(seed), J times.  STATISTIC (identical histograms), plus the decidable premise alignedOK."""
    K, J = case["K"], len(case["sims"])
    Nobs = len(case["obs"])
    NU = sum(len(s) for s in case["sims"])
    r = out.get("mllfull")
    if Nobs == 0 or NU == 0 or J * Nobs > 300 or NU > 400 or not isinstance(r, dict) or len(draws_h.get("mllfull", [])) != J:
        return
    lam = []
    for sm in case["sims"]:
        for e in sm:
            m = Fraction(float(raw_magnitude(case, e)))
            lam.append(f"{m.numerator}/{m.denominator}@{e[1]}")
    rs = numpy.random.RandomState(case["seed"])
    idx = [rs.randint(0, NU, size=Nobs) for _ in range(J)]
    mtxt = ",".join(f"{Fraction(float(m)).numerator}/{Fraction(float(m)).denominator}" for m in mags)
    i = drv.ask(f"c10_resample_full {mtxt} {','.join(lam)} {';'.join(','.join(map(str, row)) for row in idx)}")
    mg_u = [0] * K
    for sm in case["sims"]:
        for e in sm:
            mg_u[e[1]] += 1
    pending.append(("resample_full", dict(case, test="mllfull"), i, draws_h["mllfull"], mg_u))


# ----------------------------------------------------------------------------- calibration test
def ks_exact(qs):
    s = sorted(qs)
    n = len(s)
    return max([Fraction(0)] + [max(Fraction(i + 1, n) - x, x - Fraction(i, n)) for i, x in enumerate(s)])


def check_calibration(run, drv, pending, case, raw):
    """calibration_test on the results of this case: skip rule + exact KS distance"""
    from csep.core import catalog_evaluations as ce
    results = [raw[t] for t in case["order"] if t in raw and t != "n" and raw[t] is not None]
    usable = [r for r in results if not (r.status != "not-valid" and r.quantile[0] is None)]
    if not usable or all(r.status == "not-valid" for r in usable):
        return
    for d1 in (False, True):
        idx = 0 if d1 else 1
        try:
            with quiet():
                cr = ce.calibration_test(usable, delta_1=d1)
        except Exception as e:
            run.oracle_failure(dict(case, calib=True), f"calibration_test raised {type(e).__name__}: {e}")
            return
        want = [float(r.quantile[idx]) for r in usable if r.status != "not-valid"]
        got = [float(x) for x in cr.test_distribution]
        run.count("calibration")
        if got != want:
            run.oracle_failure(dict(case, calib=True), f"calibration sample {got} != quantiles of the valid results {want}")
            continue
        ks = ks_exact([Fraction(x) for x in got])
        if not close(float(cr.observed_statistic), float(ks), 1e-12):
            run.oracle_failure(dict(case, calib=True), f"calibration KS distance {cr.observed_statistic!r} != {float(ks)!r}")
        enc = []
        for r in usable:
            if r.status == "not-valid":
                enc.append("not-valid/sentinel" if r.quantile[0] == -1 else "not-valid/none/none")
            else:
                # k/n with n = distribution length (C09): recover k exactly
                n = len(r.test_distribution)
                ks_ = [round(float(q) * n) for q in r.quantile]
                enc.append(f"{r.status}/{ks_[0]}:{n}/{ks_[1]}:{n}")
        i = drv.ask(f"c10_calib {'1' if d1 else '0'} {','.join(enc)}")
        j = drv.ask("c10_ks " + ",".join(f"{Fraction(x).numerator}/{Fraction(x).denominator}" for x in got))
        pending.append(("calib", case, i, j, got, float(cr.observed_statistic)))


# ----------------------------------------------------------------------------- one case
def seg_equal(a, b):
    """the same result from an in-memory and a streamed forecast, to rounding (the order in which a storage mode
    accumulates floats is incidental)"""
    if isinstance(a, tuple) or isinstance(b, tuple):
        return isinstance(a, tuple) and isinstance(b, tuple) and a[1] == b[1]
    if a is None or b is None:
        return a is None and b is None
    if "observed" not in a or not isinstance(a.get("dist"), list):
        return repr(a) == repr(b)
    if a["status"] != b["status"] or len(a["dist"]) != len(b["dist"]):
        return False
    def cl(x, y):
        if isinstance(x, (int, float)) and isinstance(y, (int, float)):
            return close(float(x), float(y))
        return x == y
    if not cl(a["observed"], b["observed"]) or not all(cl(x, y) for x, y in zip(a["dist"], b["dist"])):
        return False
    qa, qb = a["quantile"], b["quantile"]
    if isinstance(qa, str) or isinstance(qb, str):
        return qa == qb
    if a["observed"] is None or isinstance(a["observed"], int):
        return list(qa) == list(qb)
    band = sum(1 for x in a["dist"] if close(x, a["observed"], 1e-8))     # near ties may fall on either side
    n = max(1, len(a["dist"]))
    return all((x is None and y is None) or (x is not None and y is not None and abs(x - y) * n <= band + 1e-6)
               for x, y in zip(qa, qb))


def raised_inside_csep(e):
    """True when a frame of the csep package is on the exception's traceback (pyCSEP raised, not the harness)"""
    import traceback
    return any(os.sep + "csep" + os.sep in fr.filename for fr in traceback.extract_tb(e.__traceback__))


def check_case(run, drv, pending, case):
    tmpdir = tempfile.mkdtemp(prefix="c10_", dir=os.environ.get("TMPDIR", "/tmp"))
    try:
        segs, mags = run_impl(case, case["mode"], tmpdir)
        other = None
        if case.get("both_modes") and not (case.get("premut") and case["mode"] == "stream-nostore"):
            m2 = "stream-store" if case["mode"].startswith("memory") else "memory"
            other = run_impl(case, m2, tmpdir)[0]
    except Exception as e:
        # building the region / catalogs / forecast, the in-place changes and the passes are calls of the library on inputs
        # inside the quantifier: an exception raised there is a deviation with this case as replay, not a harness error
        if not raised_inside_csep(e):
            raise
        run.case(dict(C=case["C"], K=case["K"], J=len(case["sims"]), kind=case["kind"], mode=case["mode"]), None)
        run.oracle_failure({k: v for k, v in case.items()}, f"pyCSEP raised {type(e).__name__}: {e} while the case was set up / run "
                                                             f"(outside the per-test guards)")
        return
    finally:
        shutil.rmtree(tmpdir, ignore_errors=True)
    full_case = case
    slim = {k: v for k, v in full_case.items()}
    C, K = case["C"], case["K"]
    viewA = effective_case(case)
    nontriv = any(isinstance(r, dict) and r["status"] in ("normal", "undersampled") and r["dist"]
                  for sg in segs for t, r in sg["out"].items() if t != "n")
    pm = full_case.get("premut")
    sess = full_case.get("session") or {}
    big = len(full_case["obs"]) > 5000 or any(len(x) > 5000 for x in full_case["sims"])
    key = (C, K, tuple(flat(grid_of(x, C, K)) for x in full_case["sims"]), flat(grid_of(case["obs"], C, K)), case["mode"],
           len(case.get("obs_out") or []), str(pm and (pm["pre"], pm["mut"], pm["where"], pm["subset"], pm["k0"], pm["ix0"])),
           str(sess.get("obsmut")), str(sess.get("B") and sess["B"]["tests"]), str(full_case.get("fc_filter")))
    run.case(dict(C=C, K=K, J=len(case["sims"]), kind=case["kind"], mode=case["mode"],
                  n_obs=len(case["obs"]), n_obs_below_min_mag=len(case.get("obs_out") or []),
                  sizes=[len(x) for x in viewA["sims"]][:12],
                  premut=pm and dict(pre=pm["pre"], mut=pm["mut"], where=pm["where"], subset=pm["subset"]),
                  session=[(sg["who"], sg["tests"], bool(sg["obsmut"])) for sg in segs]),
             key if nontriv else None)
    run.count("obs:" + case["kind"])
    run.count("mode:" + case["mode"])
    if case.get("obs_region"):
        run.count("obs-region:equal-copy")
    run.count("call-form:" + case.get("call_form", "kw"))
    if case.get("user_catalogs") and case["mode"].startswith("memory"):
        run.count("user-catalog-subclass" + (":with-carried-filters" if case.get("fc_filter") else ""))
    if case.get("errstate"):
        run.count("errstate:" + case["errstate"])
    if case.get("obs_is_member") is not None:
        run.count("observation-is-a-catalog-of-the-forecast")
    if case.get("bad_first") and not case.get("premut"):
        run.count("rejected-call-first:" + case["bad_first"])
    for k_, n_ in COPY_NOTES.items():
        run.count(k_, n_)
    COPY_NOTES.clear()
    if case.get("noisy_edges"):
        run.count("noisy-magnitude-edges")
    if case.get("fc_filter"):
        run.count("forecast-carries-filter:" + case["mode"])
    if sess.get("B"):
        run.count("session:second-forecast-on-shared-region")
    if sess.get("obsmut"):
        run.count("session:observation-changed-in-place:" + sess["obsmut"]["kind"])
    if sess.get("repeat"):
        run.count("session:repeated-tests")
    if pm:
        changed = [len(a) for a in viewA["sims"]] != [len(a) for a in full_case["sims"]]
        run.count(f"premut:{pm['mut']}:{pm['where']}:{case['mode']}" + (":sizes-changed" if changed else ""))
        run.count("premut-pre:" + pm["pre"])
    rawA = {}
    for k, sg in enumerate(segs):
        view, out = sg["view"], sg["out"]
        where = f"[step {k}: forecast {sg['who']}, tests {sg['tests']}" + (", after the observed catalog was changed in place" if sg["obsmut"] else "") + "] "
        for t, r in out.items():
            if isinstance(r, tuple):
                run.count(f"{t}:error:{r[1]}")
            elif r is None:
                run.count(f"{t}:noresult")
            else:
                run.count(f"{t}:{r['status']}")
        # known finding: the resampled tests need a bin width and fail on a single magnitude bin
        for t in ("rm", "mll"):
            r = out.get(t)
            if isinstance(r, tuple) and K == 1 and r[1] == "IndexError" and view["obs"]:
                run.oracle_failure(slim, f"{t}: IndexError on a region with a single magnitude bin",
                                   signature="resampled-magnitude-test:single-magnitude-bin")
        draws_h, uninterp = {}, set()
        lam_view = [float(raw_magnitude(view, e)) for sm in view["sims"] for e in sm]
        mg_view = [sum(1 for sm in view["sims"] for e in sm if e[1] == k) for k in range(K)]
        for t in ("rm", "mll", "mllfull"):
            try:
                draws_h[t] = [hist_of_draw(v, mags, K, lam_view, mg_view) for v in sg["draws"].get(t, [])]
            except Exception as e:      # the harness cannot interpret the recording: NEVER a verdict
                draws_h[t] = []
                uninterp.add(t)
                run.count("draws-uninterpretable:" + t)
        # a rewrite may draw through another generator object (numpy.random.default_rng, a RandomState instance): the
        # resampled catalogs are then not observable here; the deterministic parts of the result are still judged
        unobs = set(t for t in ("rm", "mll", "mllfull") if isinstance(out.get(t), dict) and out[t]["dist"]
                    and not draws_h.get(t))
        for t in unobs - uninterp:
            run.count("draws-not-observable:" + t)
        view = dict(view, _unobserved=sorted(unobs))
        try:
            msgs = oracle(view, out, draws_h, None) + draws_independent(view, sg["draws"], draws_h) + tie_checks(view, out, draws_h)
            # the forecast's cached mean rates after EVERY test of the step (a test that leaves a scale factor or a
            # divided array behind shows here and in the next test)
            seen = set()
            for t, rates in sg["rates_after"].items():
                if rates is not None:
                    for m in oracle(view, {}, {}, rates):
                        if m not in seen:
                            seen.add(m)
                            msgs.append(f"after {t}: " + m)
        except Exception as e:      # an output of an unexpected type / shape: a deviation, not a harness crash
            msgs = [f"outputs cannot be interpreted: {type(e).__name__}: {e}"]
        for msg in msgs + list(sg["draws"].get("_side", [])):
            run.oracle_failure(slim, where + msg)
        if other is not None and k < len(other):
            for t in out:
                a, b = out[t], other[k]["out"].get(t)
                if t in ("rm", "mll", "mllfull") and isinstance(a, dict) and isinstance(b, dict) and \
                        (not full_case.get("seed_arg", True) or t in unobs):
                    # called without seed (or drawing through a generator the harness does not see): only the
                    # deterministic part of the result is comparable between the two storage modes
                    a, b = dict(a, dist=[], quantile="-"), dict(b, dist=[], quantile="-")
                if not seg_equal(a, b):
                    run.oracle_failure(slim, where + f"{t}: in-memory and streamed forecasts give different results: {a} vs {b}")
        if big:
            continue          # > 65535 events per bin: judged by the oracle (the driver line would be megabytes)
        last_rates = None
        for t in sg["tests"]:
            if sg["rates_after"].get(t) and "error" not in sg["rates_after"][t]:
                last_rates = sg["rates_after"][t]
        try:
            idx = queue_model(drv, view, draws_h, only=set(out))
            pending.append(("case", view, idx, out, last_rates, slim))
            queue_resample(run, drv, pending, view, out, draws_h, mags)
            queue_resample_full(run, drv, pending, view, out, draws_h, mags)
        except Exception as e:
            run.oracle_failure(slim, where + f"outputs cannot be handed to the model: {type(e).__name__}: {e}")
        if sg["who"] == "A":
            rawA.update(sg["raw"])
    if other is not None:
        run.count("both-modes")
    if not big:
        try:
            check_calibration(run, drv, pending, viewA, rawA)
        except Exception as e:
            run.oracle_failure(slim, f"calibration_test inputs/outputs cannot be interpreted: {type(e).__name__}: {e}")


def flush(run, drv, pending):
    res = drv.run()
    rl = run.extra.setdefault("resample_layer", dict(
        note="Soft64 model of probs / numpy.random.choice / bin centres / numpy.histogram on the regenerated uniform "
             "numbers against the recorded draws (statistic); centres_ok = decidable premise of resample_is_bincount",
        cases=0, bitexact=0, centres_ok=0))
    for item in pending:
        if item[0] == "resample":
            _, case, i, hs = item
            body, ok = res[i].split("|")
            model = [[int(x) for x in h.split(",")] for h in body.split(";")] if body else []
            rl["cases"] += 1
            rl["bitexact"] += int(model == hs)
            rl["centres_ok"] += int(ok == "true")
            if ok != "true":
                # a bin centre that numpy.histogram counts in ANOTHER bin: the resampled catalog would differ from the draw
                run.mismatch(dict(case, op="c10_resample"), hs, res[i])
            continue
        if item[0] == "resample_full":
            _, case, i, hs, mg_u = item
            rf = run.extra.setdefault("resample_full_layer", dict(
                note="model of Lambda_u[randint] + numpy.histogram (Model/ResampleFull.lean) on the regenerated integers "
                     "against the recorded draws of MLL_magnitude_test(full_calculation=True) (statistic); aligned = "
                     "decidable premise of full_resample_is_bincount (false on noisy-edge cases with band events)",
                cases=0, identical=0, aligned=0, union_equal=0))
            body, ok, un = res[i].split("|")
            model = [[int(x) for x in h.split(",")] for h in body.split(";")] if body else []
            rf["cases"] += 1
            rf["identical"] += int(model == hs)
            rf["aligned"] += int(ok == "true")
            rf["union_equal"] += int([int(x) for x in un.split(",")] == mg_u)
            continue
        if item[0] == "calib":
            _, case, i, j, got, ks = item
            sel = [] if res[i] == "-" else res[i].split(",")
            ok = len(sel) == len(got) and all(":" in s and int(s.split(":")[0]) / int(s.split(":")[1]) == g
                                              for s, g in zip(sel, got))
            if not ok or not close(float(Fraction(res[j])), ks, 1e-12):
                run.mismatch(dict(case, calib=True), [got, ks], [res[i], res[j]])
            continue
        _, case, idx, out, rates = item[:5]
        replay_case = item[5] if len(item) > 5 else case
        C, K = case["C"], case["K"]
        NU = sum(len(s) for s in case["sims"])
        # number test
        r = out.get("n")
        if isinstance(r, dict) and "n" in idx:
            d, o, q = res[idx["n"]].split("|")
            md = [] if d == "-" else [int(x) for x in d.split(",")]
            qa, qb = q.split(",")

            def fr(s):
                a, b = s.split(":")
                return int(a) / int(b)
            if md != r["dist"] or int(o) != r["observed"] or [fr(qa), fr(qb)] != r["quantile"]:
                run.mismatch(replay_case, r, res[idx["n"]])
        # mean rates
        if rates is not None:
            sp, mg, tot = res[idx["rates"]].split("|")
            msp = [] if sp == "-" else [unbits(x) for x in sp.split(",")]
            mmg = [] if mg == "-" else [unbits(x) for x in mg.split(",")]
            if not (len(msp) == len(rates["spatial"]) and all(close(a, b, 1e-12) for a, b in zip(msp, rates["spatial"]))
                    and len(mmg) == len(rates["mag"]) and all(close(a, b, 1e-12) for a, b in zip(mmg, rates["mag"]))
                    and close(unbits(tot), rates["total"], 1e-12)):
                run.mismatch(replay_case, rates, res[idx["rates"]])
        for t in OPS:
            if t not in out or t not in idx:
                continue   # test not run on this case (S / PL with observed events outside the magnitude range)
            if case.get("obs_out") and not case["obs"]:
                continue   # sub-class obs-all-below-min-magnitude: judged by the oracle alone (see AWAITING_DECISION)
            r = out.get(t)
            if isinstance(r, tuple):
                continue   # exceptions are judged by the oracle
            if t in ("rm", "mll", "mllfull") and NU == 0:
                continue
            if t in case.get("_unobserved", ()):
                continue   # the draws were not observable: the model has no input for the distribution
            m = parse_model(res[idx[t]])
            if not same_result(r, m):
                run.mismatch(dict(replay_case, test=t), r, res[idx[t]])


def validate_lgamma(run, rng, n=300):
    """trusted base: the driver's Float loggamma(x+1) against math.lgamma (not a property verdict)"""
    drv, xs = Driver(), []
    for _ in range(n):
        x = rng.choice([0.0, 1.0, 0.5, 2.0]) if rng.random() < 0.1 else rng.uniform(0, 10.0 ** rng.randint(0, 5))
        xs.append(x)
        drv.ask(f"c10_lgamma1 {bits(x)}")
    worst = 0.0
    for x, o in zip(xs, drv.run()):
        want = math.lgamma(x + 1.0)
        err = abs(unbits(o) - want) / max(1.0, abs(want))
        worst = max(worst, err)
    run.extra["lgamma1_max_rel_err"] = worst
    if worst > 1e-12:
        raise RuntimeError(f"driver loggamma disagrees with math.lgamma: rel err {worst}")


def run(run, rng, tier):
    drv, pending = Driver(), []
    validate_lgamma(run, rng)
    # corpus first
    cdir = os.path.join(os.path.dirname(os.path.dirname(os.path.abspath(__file__))), "corpus", "C10")
    if os.path.isdir(cdir):
        import json
        for fn in sorted(os.listdir(cdir)):
            if fn.endswith(".json"):
                check_case(run, drv, pending, _from_json(json.load(open(os.path.join(cdir, fn)))))
                run.count("corpus")
    for _ in range(1 if tier == "quick" else 4):
        check_case(run, drv, pending, gen_big_case(rng))
        run.count("big-counts")
    n = 900 if tier == "quick" else 9000
    for i in range(n):
        check_case(run, drv, pending, gen_case(rng, tier))
        if len(pending) >= 400:
            flush(run, drv, pending)
            drv, pending = Driver(), []
    flush(run, drv, pending)
    run.assumptions.append("events are generated strictly inside their cell and magnitude bin; edge behaviour is C01/C02")


def _from_json(c):
    c = dict(c.get("case", c))
    c.pop("calib", None)
    c.pop("test", None)
    c["cells"] = [tuple(x) for x in c["cells"]]
    c["sims"] = [[tuple(e) for e in s] for s in c["sims"]]
    c["obs"] = [tuple(e) for e in c["obs"]]
    if c.get("obs_out"):
        c["obs_out"] = [tuple(e) for e in c["obs_out"]]
    if c.get("premut"):
        c["premut"] = dict(c["premut"], repl=[[tuple(e) for e in r] for r in c["premut"]["repl"]])
    return c


def replay(run, payload):
    drv, pending = Driver(), []
    check_case(run, drv, pending, _from_json(payload))
    flush(run, drv, pending)
