"""Source translator (DESIGN §1.4, third tie): Python source of selected pure/numeric pyCSEP functions -> Lean 4 definitions.

On every run, for each entry of TARGETS, the function is read with `ast` from the tree under test and a Lean definition is
emitted into lean/PycsepVerif/GeneratedSrc.lean (namespace `Src`). The translation is a TYPED shallow embedding: TARGETS
states the type of every parameter (the specialisation); the translator infers the type of every intermediate expression
and picks the operation of lean/PycsepVerif/PyPrelude.lean / Soft64 / RealOps that numpy / CPython apply at these types.
Statements: assignment -> `let`, `if` -> `if … then … else …` (assigned variables threaded as a tuple, or the continuation
duplicated when a branch returns / raises), `return` ends, `raise` -> `Except.error`, `x[mask] = v` on an elementwise value
-> `if mask then v else x`, `for v in <list>` without exits -> `List.foldl`, `with numpy.errstate(...)` -> its body,
`x = f(…)` with `f` a translated function that can raise -> `match … | .error e => .error e | .ok x => …`,
`r = EvaluationResult(); r.field = v` (classes named in TARGETS.records) -> one variable per stored field,
`return None` next to value returns -> `Option` result (`none` / `some v`). Conditions that are constant under the
specialisation (`tol is None`, `os.name == "nt"`, `issubclass(v.dtype.type, numpy.floating)`) select the live branch; the
dropped branch is named in the header comment of the definition.

Specialisation keys of a TARGETS entry beyond `params`: `expr_params` (expressions on object parameters that are parameters
of the definition, e.g. `catalog.spatial_magnitude_counts()`), `opaque` / `opaque_consts` (library functions / constants passed
as parameters), `ret` (declared result type: finite values embed into `ELL`, `numpy.nan` is `none`), `slice_result` (backward
slice of an expression), `slice_call` (backward slice of the arguments of the unique call of a function), `records`, `statics`,
`shapes`, `extended_log`, `callees`, `self_calls`, `static_exprs`, `for_body` (the body of one `for` loop is the definition;
`free_params` = variables of the enclosing function it reads; local lambdas / str constants of that function are inlined),
`checked_datetime`, `objects` (the object layer: values are trees `JsonTree.PyObj`, exceptions `Py.ErrX`, raising operations
inside expressions are bound in front of the statement in source order), `checked_index` (text records: `line[k]`, `float(s)`,
`int(s)` raise), `slice_keep_all` / `slice_extra` (keep every statement but the call statement / append variables to the result).
`real_from` (a dotted function name: from the first statement that calls it, float64 scalars are embedded exactly and the
operations are those of the real layer).

Anything else raises Untranslatable(function, lineno, reason): nothing is guessed and no statement is skipped silently.
Every numpy / stdlib call accepted is in CALLS / METHODS / ATTRS below, with the prelude operation it maps to.

lean/PycsepVerif/Source/Cxx.lean proves `Src.<f> = <hand model>` for all inputs; harness/src_tie.py runs `Src.<f>` against the
real function (validation of this translator and of the prelude, which are trusted).
"""
import ast
import hashlib
import json
import os
from fractions import Fraction


class Untranslatable(Exception):
    def __init__(self, function, lineno, reason):
        super().__init__(f"{function}:{lineno}: {reason}")
        self.function, self.lineno, self.reason = function, lineno, reason


# ----------------------------------------------------------------------------- types
class Ty:
    """kind: f64 int nat bool real ereal list datetime timedelta none str tuple ; elem = one element of an array the
    function treats elementwise ; item = element type of a list / tuple of types"""

    def __init__(self, kind, elem=False, item=None):
        self.kind, self.elem, self.item = kind, elem, item

    def __eq__(self, o):
        return isinstance(o, Ty) and (self.kind, self.item) == (o.kind, o.item)

    def __hash__(self):
        return hash((self.kind, str(self.item)))

    def __repr__(self):
        s = self.kind + ("~" if self.elem else "")
        return s + (f"[{self.item}]" if self.item is not None else "")

    def with_elem(self, e):
        return Ty(self.kind, e, self.item)

    def lean(self):
        k = self.kind
        if k in ("f64", "q"):
            return "Rat"
        if k == "int":
            return "Int"
        if k == "nat":
            return "Nat"
        if k == "bool":
            return "Bool"
        if k == "real":
            return "α"
        if k == "ereal":
            return "ELL α"
        if k == "list":
            return f"List {_paren(self.item.lean())}"
        if k == "datetime":
            return "Py.Datetime"
        if k == "timedelta":
            return "Int"
        if k == "tuple":
            return " × ".join(_paren(t.lean()) for t in self.item)
        if k == "string":
            return "List Char"
        if k == "pyobj":
            return "JsonTree.PyObj"
        if k == "fbits":
            return "ResultJson.F64"
        if k == "optstr":
            return "Option String"
        if k == "strint":
            return "(List Char ⊕ Int)"
        if k == "attrs":
            ts_ = list(self.item.values())
            return ts_[0].lean() if len(ts_) == 1 else " × ".join(_paren(t_.lean()) for t_ in ts_)
        if k == "option":
            return f"Option {_paren(self.item.lean())}"
        if k == "ma":
            return f"List ({self.item.lean()} × Bool)"
        if k == "idxarr":
            return "List Nat"
        raise ValueError(f"type {self} has no Lean representation")

    def uses_real(self):
        if self.kind in ("real", "ereal"):
            return True
        if self.kind in ("list", "option", "ma"):
            return self.item.uses_real()
        if self.kind == "tuple":
            return any(t.uses_real() for t in self.item)
        return False


def _paren(s):
    return s if (" " not in s) else f"({s})"


F64 = Ty("f64")
Q = Ty("q")                        # a float64 value read at the EXACT layer: arithmetic on it is rational arithmetic
F64E = Ty("f64", elem=True)        # one element of a float64 array treated elementwise
INT = Ty("int")
NAT = Ty("nat")
BOOL = Ty("bool")
REAL = Ty("real")
REALE = Ty("real", elem=True)
NATE = Ty("nat", elem=True)
EREAL = Ty("ereal")
NONE = Ty("none")
STR = Ty("str")            # a string constant known under the specialisation (no Lean value)
FBITS = Ty("fbits")        # a float64 number given by its bit pattern (ResultJson.F64: NaN or the 64 bits), never computed with
OPTSTR = Ty("optstr")      # a str or None


def OBJ_ATTRS(**fields):
    """an object read only through the named attributes (`poly.origin`): the tuple of their values"""
    return Ty("attrs", item=dict(fields))


PYOBJ = Ty("pyobj")        # an arbitrary Python value as a tree (Model/JsonTree.lean `PyObj`): the object layer
STRING = Ty("string")      # a string value: the list of its characters
STRINT = Ty("strint")      # a variable that holds a str on one path and an int on another: `Sum.inl s` / `Sum.inr n`
DATETIME = Ty("datetime")
TIMEDELTA = Ty("timedelta")


UNUSED = Ty("unused")
RECORD = Ty("record")      # an object parameter whose attribute stores are tracked (`self._scale = val`)
OBJECT = Ty("object")      # a pyCSEP object parameter, read only through spec["expr_params"]


def LIST(t):
    return Ty("list", item=t)


def TUPLE(*ts):
    return Ty("tuple", item=tuple(ts))


def OPTION(t):
    return Ty("option", item=t)


def MA(t):
    """numpy.ma.MaskedArray (flat): one element is (data, mask)"""
    return Ty("ma", item=t)


IDXARR = Ty("idxarr")      # an index array (numpy.nonzero(a)[0])


class _NeedOptional(Exception):
    """a live `return None` next to value returns: the function is re-translated with an `Option` result"""


class Val:
    """translated expression: Lean text + type; `static` holds a Python value when the expression is constant under the
    specialisation (then `code` may be None)"""
    NOSTATIC = object()

    def __init__(self, code, ty, static=NOSTATIC, lit=None):
        self.code, self.ty, self.static, self.lit = code, ty, static, lit

    @property
    def is_static(self):
        return self.static is not Val.NOSTATIC


def _finite_f(v):
    return v == v and v not in (float("inf"), float("-inf"))


def str_lit(t):
    """Lean list of the characters of a Python string"""
    def ch(c):
        if c == "'":
            return "'\\''"
        if c == "\\":
            return "'\\\\'"
        if not (32 <= ord(c) < 127):
            raise ValueError("non-printable character in a string literal")
        return f"'{c}'"
    return "([" + ", ".join(ch(c) for c in t) + "] : List Char)"


def rat_lit(fr):
    fr = Fraction(fr)
    if fr.denominator == 1:
        return f"({fr.numerator} : Rat)"
    return f"(({fr.numerator} : Rat) / {fr.denominator})"


# ----------------------------------------------------------------------------- accepted library surface (documentation table)
# name in the source -> (prelude / Lean operation, at which types). The dispatch code below implements exactly these rows.
CALLS = {
    "numpy.asarray / numpy.asanyarray / numpy.array (typed array or element)": "identity",
    "numpy.floor (f64)": "Py.np_floor = Soft64.ffloor",
    "numpy.nonzero(a) (a : list nat) ; a[numpy.nonzero(b)]": "Py.nonzeroIdx ; Py.gather",
    "numpy.abs / numpy.absolute / abs (f64)": "Py.np_abs = Soft64.fabs",
    "numpy.finfo(v.dtype).eps (v : f64)": "Py.finfo_eps64 = Soft64.eps64",
    "issubclass(v.dtype.type, numpy.floating)": "static: True for f64, False for int",
    "numpy.clip (f64, bounds f64 / int)": "Py.np_clip",
    "numpy.nan_to_num (f64)": "Py.np_nan_to_num (identity on finite values)",
    "numpy.where(c, a, b) (elementwise)": "Py.np_where",
    "numpy.round (f64)": "Py.np_round = Soft64.fround",
    "numpy.arange(start, stop, step) (f64)": "Py.np_arange",
    "numpy.arange(a, b) (ints)": "Py.range (int64 array a .. b-1)",
    "numpy.ma.masked_where(cond, a) (list bool, list real)": "Py.ma_masked_where: elements (data, mask)",
    "numpy.exp / numpy.log / unary minus (masked real array)": "Py.ma_exp / Py.ma_log (domain x <= 0 masked) / Py.ma_neg; "
    "masked slots keep the input data",
    "scalar - ma ; ndarray * ma": "Py.ma_scalar_sub / Py.ma_arr_mul: masked slots carry the first operand's data",
    "ma.data ; ma.ravel() ; ma.shape": "Py.ma_data ; identity ; [Py.size ma]",
    "numpy.zeros(a.shape) (flat a)": "Py.np_zeros (float64 zeros; real layer if the function is specialised there)",
    "numpy.nonzero(a)[0] ; y[idx] = c (idx an index array)": "index array ; Py.put",
    "numpy.unique(numpy.nonzero(a)) (flat a)": "Py.np_unique (ascending distinct values) of the index array",
    "<object parameter>.<method>() named in TARGETS.expr_params": "a parameter of the definition",
    "numpy.sqrt(int) ; numpy.power(int, 2)": "RealOps.sqrt of the converted value ; Py.ipow · 2",
    "a[mask] (mask a boolean array)": "Py.compress",
    "with numpy.errstate(...):": "the body (errstate only controls warnings)",
    "nat * ereal ; ereal / real": "Py.enatMul ; Py.edivFin",
    "real == real": "Py.req (≤ both ways; NaN outside the model)",
    "numpy.nan returned in an Option position of TARGETS.ret": "none",
    "numpy.pi / numpy.cos named in TARGETS.opaque_consts / opaque": "opaque constant / function parameter",
    "<float literal> ** <small int literal> (exact)": "the literal value",
    "r = <Class>() for a class named in TARGETS.records ; r.f = v ; r.f": "a record object: each stored field is a variable",
    "x = f(a, …) with f a translated function that can raise": "match … | .error e => error e | .ok x => …",
    "f(array, …) for f specialised on ONE element of that parameter": "List.map, or Py.mapUniform when f can raise (only if no "
    "raise of f sits under an element-dependent condition)",
    "numpy.any(list bool)": "Py.np_any",
    "a[idx] (idx an integer array)": "List.map (Py.getF a ·) idx (negative indices as in Python; IndexError not modelled)",
    "a[rows, cols] (a : 2-D float64 as list of rows; two integer index arrays)": "Py.get2",
    "a.astype(bool) / a.astype(numpy.int64) (list f64)": "x ≠ 0 / Py.truncF per element",
    "numpy.where(cond) (one argument, flat bool array)": "Py.whereIdx (index array of the True positions)",
    "a parameter of a callee left to its constant default": "the constant",
    "d['key'] (d the dict a translated function returns)": "the component of the tuple in key order",
    "map(f, (a, b)) unpacked ; numpy.concatenate([a, b])": "(f a, f b) ; a ++ b",
    "numpy.max / numpy.min (list f64)": "Py.np_max / Py.np_min (fold from the first element; empty array: ValueError not modelled)",
    "arithmetic / comparisons on values typed `q` in TARGETS (float64 read at the EXACT layer)": "Rat + - * / (no rounding)",
    "numpy.sum(a[, axis=0|1]) (flat / 2-D `q` array as list of rows)": "Py.qsum ; List.map Py.qsum (axis=1) ; Py.qsumAxis0",
    "numpy.copy(a)": "identity",
    "datetime (< <= > >=) datetime ; datetime + datetime.timedelta(days)": "comparison of the microsecond counts ; Py.Datetime.addTd",
    "self.m(e) for m in TARGETS.self_calls, returned": "`some e`; `return self` without such a call is `none`",
    "x // 1 ; x % 1 (x float64)": "Py.np_floor ; Py.fmod1 (both exact)",
    "calendar.isleap(y) (y an integer-valued float)": "Py.isleapF",
    "datetime.timedelta(seconds=t) / (microseconds=t) (t float64)": "Py.timedeltaOfSecondsF / Py.timedeltaOfMicrosecondsF (CPython's rounding)",
    "return f(…) with f a translated function that can raise": "f's result, exception included",
    "string values (TARGETS type STRING): literals, `a + b`, `a == b`, `'c' in s`, `s[k] == 'c'` (k literal)":
        "List Char: literal list, ++, decide (=), List.contains, Py.strAt? (outside the string: unequal to every character)",
    "x = datetime.datetime.strptime(s, fmt).replace(tzinfo=datetime.timezone.utc)": "Py.strptimeUtc (ValueError propagates)",
    "a[:, :k] ; a[:, k] (2-D array as list of rows, k literal)": "List.map (List.take k) ; List.map (Py.getF · k)",
    "numpy.sort(numpy.unique(x, return_index=True[, axis=0])[1][, kind='stable'])": "Py.firstIdx (indices of the first occurrences)",
    "x = datetime.datetime(y, m, d, H, M, S) (TARGETS.checked_datetime)": "Py.mkDatetimeChecked (ValueError outside the ranges)",
    "a call of a raising translated function nested in the right-hand side of an assignment": "evaluated first, in a temporary",
    "TARGETS.for_body": "the body of one `for` statement as a function of its loop variables",
    "try: x = f(…); return x / except: pass (f a raising translated function)": "match f … | .ok x => ok x | .error _ => <the rest>",
    "object layer (TARGETS.objects): values typed PYOBJ are trees `JsonTree.PyObj`; exceptions are `Py.ErrX`": "see PyPrelude",
    "{'k': v, …} ; d['k'] ; d.get('k', default) ; x.tolist() ; list(x) (objects)":
        "PyObj.dict (PyKVs.ofList …) ; Py.obj_item ; Py.obj_get ; Py.obj_tolist ; Py.obj_list (raising ones evaluated first, in order)",
    "try: x = e1 / except E: x = e2 (objects)": "Py.tryCatch",
    "try: x = e1 / except: raise E(…) (objects; bare except / except Exception)": "Py.tryRaise (every exception becomes E; `other` stays)",
    "x is None ; x is not None (x : PYOBJ)": "JsonTree.PyObj.isNone x ; its negation",
    "TARGETS.checked_index: line[k] (list of str, k ≥ 0 literal) ; float(s) ; int(s) (s a str)":
        "Py.list_item (IndexError) ; Py.float_str ; Py.int_str (ValueError; text outside the text layer: `other`)",
    "try: x = e1 / except ValueError: x = e2 (checked_index)": "Py.tryCatch … Py.Err.valueError …",
    "try: x = s.decode(…) / except: pass (s a str)": "nothing (str has no .decode; the AttributeError is swallowed)",
    "not s (s a str value)": "List.isEmpty s",
    "a variable that is a str on one path of an `if` and an int on the other": "List Char ⊕ Int",
    "continue (TARGETS.for_body)": "the result `none`; the end of the body is `some …`",
    "f(a) where `f = lambda x: body` is assigned once at the top of the enclosing function (for_body) ; a str constant so assigned":
        "body with x bound to a ; the constant",
    "datetime.datetime.strptime(s, fmt).timestamp() (checked_index; fmt with %z)": "Py.strptime_timestamp (ValueError; formats / offsets outside the text model: `other`)",
    "round(x) (x : float64, one argument)": "Soft64.roundHalfEven x (an int)",
    "numpy.compress(numpy.not_equal(d, 0), d[, axis=-1]) ; scipy.stats.rankdata(x) (float64 arrays)":
        "Py.compress_ne0 (the non-zero entries, in order) ; Py.rankdata (average ranks, exact halves: PairedTests.rankdata2 / 2)",
    "b * x (b a bool array, x a float64 array)": "Py.bool_mul elementwise (True*x = x, False*x = 0)",
    "numpy.sum(a[, axis=0]) (a a 1-D float64 array) ; a.sum() (int array)": "Py.np_sum_f64 = FloatSum.pairwiseSum 64 ; Py.sumInt",
    "_, c = numpy.unique(r, return_counts=True)": "Py.unique_counts r (occurrences of the distinct values, ascending)",
    "warnings.warn(…) as a statement": "nothing",
    "'lit' in s ; s.replace('a', 'b') (s a str value, literals of more than one character)": "ReaderText.hasInfix ; ReaderText.replaceAll",
    "d = {} ; d['k'] = v … ; return d": "one variable per key; the result is the tuple of the values, keys in the order of their first store",
    "try: x = f(…) / except (E1, E2): msg = …; raise E(msg) (f a raising translated function)": "Py.reraise: E1 / E2 become E, other exceptions pass",
    "TARGETS.real_from='numpy.sqrt'": "from the first statement that calls it, float64 scalars are embedded (Py.rOfRat) and operations are real",
    "a and f(x) / a or f(x) where the later operand can raise": "if a then <f x> else ok false (resp. if !a … else ok true): evaluated only when reached",
    "TARGETS.slice_keep_all / slice_extra": "every statement but the call statement is kept / further variables appended to the result",
    "[a, b, …] ; [f(x) for x in obj] ; numpy.array(obj) (objects)":
        "the list of trees ; Py.obj_mapM obj (fun x => …) (iteration and f can raise) ; Py.obj_nparray (float lists / rectangular float rows; else `other`)",
    "if c: <assignments> [else: …] (objects)": "match (if c then <branch : Except> else …) with | .error e => error e | .ok vars => …",
    "float(x) (x : FBITS) ; str(x) (x : OPTSTR) (objects)": "PyObj.pyFloat x ; PyObj.str (Py.optstr_str x)",
    "obj.attr for a value typed OBJ_ATTRS(attr=…)": "the component",
    "numpy.sort(a) (list f64 / list int)": "Py.np_sort (ascending; stable merge sort by ≤)",
    "numpy.searchsorted(a, v[, side='left'|'right']) (a, v of one dtype)": "Py.searchsorted_left / _right (count of the "
    "leading elements < v / ≤ v: numpy's binary search result when a is ascending)",
    "return None next to value returns": "Option result: none / some v",
    "max / min (f64, int)": "Py.fmax / Py.fmin ; Int max / min",
    "len(list)": "Py.size",
    "int(x) (f64 -> int ; nat -> nat)": "Py.truncF ; identity",
    "float(int)": "Py.i2f",
    "sum([... for i in range(a, b)]) (ints)": "Py.sumInt (List.map … (Py.range a b))",
    "calendar.isleap": "Py.isleap = Time.isLeap",
    "calendar.monthrange(y, m)[1]": "Py.monthrangeDays = Time.daysInMonth",
    "datetime.datetime(y,m,d,H,M,S,us)": "Py.mkDatetime",
    "datetime.datetime.fromtimestamp(t, datetime.timezone.utc) (t : f64)": "Py.fromtimestampUtc = Time.fromTimestamp",
    "str(dt.tzinfo) != 'UTC' / == 'UTC'": "Py.Datetime.tzStrIsUTC",
    "numpy.log (real -> real ; real, extended=True -> ELL)": "RealOps.log ; Py.elog",
    "numpy.exp / numpy.sqrt (real)": "RealOps.exp / RealOps.sqrt",
    "numpy.sum / sum (list real ; list ereal)": "Py.rsum ; Py.esum (left fold)",
    "numpy.power(x, 2) / x ** 2 / numpy.square (real)": "Py.rsq",
    "scipy.special.loggamma(n + 1) (n : nat)": "Py.loggammaSucc = RealOps.logFact",
    "poisson.cdf(0, r) / scipy.stats.poisson.cdf(0, r) (real)": "Py.poissonCdf0 = exp(-r)",
    "scipy.stats.<dist>.cdf / .ppf / .sf passed as parameters (see TARGETS.opaque)": "opaque function parameter",
}
METHODS = {
    "x.astype(numpy.int64) (f64)": "Py.truncF",
    "x.ravel() (list / element)": "identity (arrays are flat lists)",
    "x.sum() (list real)": "Py.rsum",
    "dt.replace(tzinfo=datetime.timezone.utc)": "Py.Datetime.replaceUtc",
}
ATTRS = {
    "a.size (list)": "Py.size",
    "a.data (plain float64 array, used as an arithmetic operand)": "identity (the buffer is read back as the same array)",
    "a.shape (list, 1-D)": "[Py.size a]",
    "dt.tzinfo is None": "Py.Datetime.tzIsNone",
    "dt.year .. dt.microsecond": "Py.Datetime.year .. .microsecond (Time.fields)",
    "td.days / td.seconds / td.microseconds": "Py.tdDays / Py.tdSeconds / Py.tdMicroseconds",
    "td.total_seconds()": "Py.tdTotalSeconds",
    "a[i] (list f64, i int, negative allowed)": "Py.getF",
    "t[k] (t a fixed-size tuple, k a literal)": "the k-th component",
    "a[i] (list real)": "Py.getA",
    "a[::-1]": "List.reverse",
}
BINOPS = {
    "f64 (+ - * /) f64": "Soft64.fadd fsub fmul fdiv (int operands converted with Py.i2f; literals exactly)",
    "int (+ - *) int": "Int + - *",
    "int / int": "Py.intTrueDiv",
    "int // int, int % int": "Py.floorDiv, Py.pyMod",
    "int ** int": "Py.ipow",
    "real (+ - * /) real": "RealOps.add sub mul div (int literals / counts with RealOps.ofNat, Py.rOfInt)",
    "ereal - real": "Py.esubFin",
    "ereal * nat": "Py.emulNat",
    "list ∘ list / list ∘ scalar (real)": "List.zipWith / List.map of the scalar operation",
    "comparisons": "decide (· < ·) on Rat / Int (int vs f64: Py.i2f first); RealOps.lt / RealOps.le on the real layer",
    "bool & | and or not ~": "&& || !",
}


LEAN_RESERVED = {"end", "at", "from", "then", "else", "if", "let", "have", "fun", "do", "in", "with", "match", "open", "by",
                 "show", "def", "theorem", "where", "instance", "structure", "class", "namespace", "section", "variable",
                 "universe", "import", "for", "return", "mut", "this", "Type", "Prop", "Sort", "deriving", "macro", "syntax",
                 "notation", "local", "private", "protected", "partial", "unsafe", "using", "calc", "suffices", "obtain",
                 "exact", "nomatch", "nofun", "true", "false", "max", "min", "id", "x_", "y_", "n_"}


def mangle(name):
    """Python identifier -> Lean identifier (reserved words and names the translator itself uses get a trailing `'`)"""
    if not name.isidentifier():
        import re as _re
        name = _re.sub(r"\W+", "_", name).strip("_")
    return name + "'" if name in LEAN_RESERVED or name.startswith("_") else name


def dotted(node):
    """a.b.c of Name / Attribute chains, else None"""
    if isinstance(node, ast.Name):
        return node.id
    if isinstance(node, ast.Attribute):
        b = dotted(node.value)
        return None if b is None else b + "." + node.attr
    return None


class Fn:
    """translation of one function under one specialisation"""

    def __init__(self, tr, spec, node, relfile, optional=False):
        self.tr, self.spec, self.node, self.relfile = tr, spec, node, relfile
        self.optional = optional        # some live `return None`: the result type is `Option …`
        self.objects = bool(spec.get("objects"))     # object layer: values are PyObj trees, exceptions are Py.ErrX
        self.err = "Py.ErrX" if self.objects else "Py.Err"
        self.has_continue = False
        self.real_mode = False
        self.dictrec_keys = {}
        self.pending = []               # raising operations of the statement being translated: (temporary, Except-valued code)
        self.dict_keys = None           # keys of the dict literal the function returns (as a tuple in key order)
        self.elem_depth = 0             # > 0 while translating under a condition that depends on one array element
        self.nonuniform_raise = False   # some raise depends on the element (then array-level calls are not translated)
        self.name = spec["func"]
        self.notes = []
        self.uses_real = False
        self.raises = False
        self.ret_ty = None
        self.tmp = 0
        self.param_vals = {}

    def find_callee(self, fn):
        """the TARGETS entry a call of `fn` means: TARGETS.callees of this function (method calls on self), else the
        translator's resolution by name / import"""
        if fn is not None and fn in self.spec.get("callees", {}):
            return next(t for t in self.tr.targets if t["lean"] == self.spec["callees"][fn])
        return self.tr.callee(self.relfile, fn)

    # ---------------------------------------------------------------- errors
    def bad(self, node, why):
        raise Untranslatable(self.name, getattr(node, "lineno", self.node.lineno), why)

    # ---------------------------------------------------------------- coercions
    def to_f64(self, v, node):
        if v.ty.kind == "f64":
            return v.code
        if v.ty.kind in ("int", "nat"):
            if v.lit is not None:
                if abs(v.lit) > 2 ** 53:
                    self.bad(node, "integer literal beyond 2^53 in float arithmetic")
                return rat_lit(v.lit)
            if v.ty.kind == "nat":
                return f"(Py.i2f (({v.code} : Nat) : Int))"
            return f"(Py.i2f {v.code})"
        if v.ty.kind == "bool":
            return f"(if {v.code} then (1 : Rat) else 0)"
        self.bad(node, f"cannot use {v.ty} as float64")

    def to_pyobj(self, v, node):
        if v.ty.kind == "pyobj":
            return v.code
        if v.ty.kind == "str" and v.is_static and isinstance(v.static, str):
            return f"(JsonTree.PyObj.str {json.dumps(v.static)})"
        if v.ty.kind == "none":
            return "JsonTree.PyObj.none"
        if v.ty.kind == "list" and v.ty.item.kind == "pyobj":
            return f"(JsonTree.PyObj.list (JsonTree.PyList.ofList {v.code}))"
        self.bad(node, f"cannot use {v.ty} as a Python object of the object layer")

    def raising(self, code, ty):
        """a prelude operation that can raise, inside an expression: evaluated first (in source order), in a temporary"""
        if not self.raises:
            self.bad(self.node, "raising operation in a definition declared not to raise")
        tmp = self.fresh("v")
        self.pending.append((tmp, code))
        return Val(tmp, ty)

    def to_string(self, v, node):
        if v.ty.kind == "string":
            return v.code
        if v.ty.kind == "str" and v.is_static and isinstance(v.static, str):
            try:
                return str_lit(v.static)
            except ValueError as ex:
                self.bad(node, str(ex))
        self.bad(node, f"cannot use {v.ty} as a string value")

    def to_q(self, v, node):
        """operand of exact-layer arithmetic: the rational a float64 / int denotes"""
        if v.ty.kind == "q":
            return v.code
        if v.lit is not None and v.ty.kind in ("int", "nat", "f64"):
            return rat_lit(Fraction(v.lit))
        if v.ty.kind == "nat":
            return f"((({v.code} : Nat) : Int) : Rat)"
        if v.ty.kind == "int":
            return f"(({v.code} : Int) : Rat)"
        self.bad(node, f"cannot use {v.ty} at the exact layer")

    def to_real(self, v, node):
        self.uses_real = True
        k = v.ty.kind
        if k == "real":
            return v.code
        if v.lit is not None and k in ("int", "nat", "f64"):
            fr = Fraction(v.lit)
            if fr == 0:
                return "(RealOps.zero : α)"
            if fr == 1:
                return "(RealOps.one : α)"
            if fr.denominator == 1 and fr > 0:
                return f"(RealOps.ofNat {fr.numerator} : α)"
            if fr.denominator == 1:
                return f"(RealOps.neg (RealOps.ofNat {-fr.numerator}) : α)"
            if isinstance(v.lit, float):
                # a float literal of the real layer stands for the decimal it is written as
                fr = Fraction(repr(v.lit))
            num = "RealOps.one" if abs(fr.numerator) == 1 else f"(RealOps.ofNat {abs(fr.numerator)})"
            s = f"(RealOps.div {num} (RealOps.ofNat {fr.denominator}) : α)"
            return s if fr > 0 else f"(RealOps.neg {s} : α)"
        if k == "nat":
            return f"(RealOps.ofNat {v.code} : α)"
        if k == "int":
            return f"(Py.rOfInt {v.code} : α)"
        if k == "bool":
            return f"(if {v.code} then (RealOps.one : α) else RealOps.zero)"
        self.bad(node, f"cannot use {v.ty} in the real layer")

    def to_int(self, v, node):
        if v.ty.kind == "int":
            return v.code
        if v.ty.kind == "nat":
            return f"(({v.code} : Nat) : Int)"
        if v.ty.kind == "bool":
            return f"(if {v.code} then (1 : Int) else 0)"
        self.bad(node, f"cannot use {v.ty} as int")

    def to_bool(self, v, node):
        if v.ty.kind == "bool":
            return v.code
        self.bad(node, f"condition of type {v.ty} (truthiness of non-bool values is not translated)")

    def coerce(self, v, ty, node):
        """value `v` stored into / merged with a variable of type `ty`"""
        if v.ty == ty:
            return v.code
        if ty.kind == "f64":
            return self.to_f64(v, node)
        if ty.kind == "q":
            return self.to_q(v, node)
        if ty.kind == "string":
            return self.to_string(v, node)
        if ty.kind == "pyobj":
            return self.to_pyobj(v, node)
        if ty.kind == "strint" and v.ty.kind in ("string", "int"):
            return f"(Sum.inl {v.code})" if v.ty.kind == "string" else f"(Sum.inr {v.code})"
        if ty.kind == "real":
            return self.to_real(v, node)
        if ty.kind == "int" and v.ty.kind == "nat":
            return self.to_int(v, node)
        self.bad(node, f"cannot store {v.ty} where {ty} is expected")

    # ---------------------------------------------------------------- expressions
    def expr(self, e, env):
        ep = self.spec.get("expr_params")
        if ep and isinstance(e, (ast.Attribute, ast.Call, ast.BinOp, ast.Subscript)):
            src = ast.unparse(e)
            if src in ep:       # an expression on object parameters that is a parameter of the specialisation
                nm, ty = ep[src]
                if ty.uses_real():
                    self.uses_real = True
                r = Val(nm, ty)
                r.src_expr = src
                return r
        se_ = self.spec.get("static_exprs")
        if se_ and isinstance(e, ast.Call) and ast.unparse(e) in se_:
            v_ = se_[ast.unparse(e)]        # a test that is constant under the specialisation (e.g. an isinstance check)
            return Val("true" if v_ else "false", BOOL, static=v_)
        m = getattr(self, "e_" + type(e).__name__, None)
        if m is None:
            self.bad(e, f"expression {type(e).__name__} is not translated")
        return m(e, env)

    def e_Constant(self, e, env):
        v = e.value
        if v is None:
            return Val(None, NONE, static=None)
        if isinstance(v, bool):
            return Val("true" if v else "false", BOOL, static=v)
        if isinstance(v, int):
            return Val(f"({v} : Int)", INT, lit=v)
        if isinstance(v, float):
            if v != v or v in (float("inf"), float("-inf")):
                self.bad(e, "non-finite float literal")
            return Val(rat_lit(Fraction(v)), F64, lit=v)
        if isinstance(v, str):
            return Val(None, STR, static=v)
        self.bad(e, f"constant {v!r}")

    def e_Name(self, e, env):
        if e.id in env:
            return env[e.id]
        lc = self.spec.get("local_consts", {})
        if e.id in lc:
            return Val(None, STR, static=lc[e.id])     # a str constant assigned once in the enclosing function
        c = self.tr.module_const(self.relfile, e.id)
        if c is not None:
            return c
        self.bad(e, f"unknown name {e.id}")

    def e_UnaryOp(self, e, env):
        v = self.expr(e.operand, env)
        if isinstance(e.op, ast.USub):
            if v.lit is not None:
                return Val(rat_lit(Fraction(-v.lit)) if v.ty.kind == "f64" else f"({-v.lit} : Int)", v.ty.with_elem(False),
                           lit=-v.lit)
            if v.ty.kind == "f64":
                return Val(f"(-{v.code})", v.ty)      # negation is exact
            if v.ty.kind == "int":
                return Val(f"(-{v.code})", v.ty)
            if v.ty.kind == "real":
                self.uses_real = True
                return Val(f"(RealOps.neg {v.code})", v.ty)
            if v.ty.kind == "list" and v.ty.item.kind == "real":
                self.uses_real = True
                return Val(f"(List.map (fun x_ => RealOps.neg x_) {v.code})", v.ty)
            if v.ty.kind == "ma" and v.ty.item.kind == "real":
                self.uses_real = True
                return Val(f"(Py.ma_neg {v.code})", v.ty)
            self.bad(e, f"unary minus on {v.ty}")
        if isinstance(e.op, (ast.Not, ast.Invert)):
            if v.is_static and isinstance(e.op, ast.Not):
                return Val("true" if not v.static else "false", BOOL, static=not v.static)
            if v.ty.kind == "string" and isinstance(e.op, ast.Not):
                return Val(f"(List.isEmpty {v.code})", BOOL)       # truth value of a str: non-empty
            return Val(f"(!{self.to_bool(v, e)})", v.ty)
        self.bad(e, f"unary operator {type(e.op).__name__}")

    def arith(self, op, a, b, node):
        """scalar binary arithmetic on two Vals (not lists)"""
        ka, kb = a.ty.kind, b.ty.kind
        elem = a.ty.elem or b.ty.elem
        name = type(op).__name__
        if name == "Add" and {ka, kb} <= {"string", "str"} and "string" in (ka, kb):
            return Val(f"({self.to_string(a, node)} ++ {self.to_string(b, node)})", STRING)
        if name == "Mult" and (ka, kb) in (("bool", "f64"), ("f64", "bool")):
            bb, xx = (a, b) if ka == "bool" else (b, a)
            return Val(f"(Py.bool_mul {bb.code} {xx.code})", Ty("f64", elem))      # True * x = x, False * x = 0 (x finite)
        if "q" in (ka, kb):
            # exact layer (TARGETS types a float64 array as `q`): no rounding, the hand model's arithmetic
            sym = {"Add": "+", "Sub": "-", "Mult": "*", "Div": "/"}.get(name)
            if sym is None:
                self.bad(node, f"{name} at the exact layer")
            return Val(f"({self.to_q(a, node)} {sym} {self.to_q(b, node)})", Ty("q", elem))
        if "ereal" in (ka, kb):
            self.uses_real = True
            if ka == "ereal" and kb in ("real", "int", "nat", "f64") and name == "Sub":
                return Val(f"(Py.esubFin {a.code} {self.to_real(b, node)})", Ty("ereal", elem))
            if ka == "ereal" and kb == "nat" and name == "Mult":
                return Val(f"(Py.emulNat {a.code} {b.code})", Ty("ereal", elem))
            if ka == "nat" and kb == "ereal" and name == "Mult":
                return Val(f"(Py.enatMul {a.code} {b.code})", Ty("ereal", elem))
            if ka == "ereal" and kb in ("real", "nat", "int") and name == "Div":
                return Val(f"(Py.edivFin {a.code} {self.to_real(b, node)})", Ty("ereal", elem))
            self.bad(node, f"{name} on {a.ty}, {b.ty}")
        if "real" in (ka, kb):
            self.uses_real = True
            if name == "Pow":
                if b.lit == 2:
                    return Val(f"(Py.rsq {self.to_real(a, node)})", Ty("real", elem))
                self.bad(node, "power with an exponent other than the literal 2 in the real layer")
            f = {"Add": "add", "Sub": "sub", "Mult": "mul", "Div": "div"}.get(name)
            if f is None:
                self.bad(node, f"{name} in the real layer")
            return Val(f"(RealOps.{f} {self.to_real(a, node)} {self.to_real(b, node)})", Ty("real", elem))
        if name == "Pow" and ka == "f64" and a.lit is not None and kb == "int" and b.lit is not None and 0 <= b.lit <= 8:
            val = float(a.lit) ** b.lit     # CPython's float power of two literals; accepted only when exact
            if not _finite_f(val) or Fraction(val) != Fraction(a.lit) ** b.lit:
                self.bad(node, "float literal power that is not exact")
            return Val(rat_lit(Fraction(val)), F64, lit=val)
        if ka == "f64" and b.lit == 1 and kb in ("int", "f64") and name in ("FloorDiv", "Mod"):
            # x // 1 and x % 1 on a finite float are exact: floor(x) and x - floor(x)
            return Val(f"(Py.np_floor {a.code})" if name == "FloorDiv" else f"(Py.fmod1 {a.code})", Ty("f64", elem))
        if "f64" in (ka, kb):
            f = {"Add": "fadd", "Sub": "fsub", "Mult": "fmul", "Div": "fdiv"}.get(name)
            if f is None:
                self.bad(node, f"{name} on float64")
            if a.lit is not None and b.lit is not None:
                # both operands are literals: CPython's own float arithmetic (IEEE binary64) gives the value
                import operator
                val = {"fadd": operator.add, "fsub": operator.sub, "fmul": operator.mul, "fdiv": operator.truediv}[f](
                    float(a.lit), float(b.lit))
                if val != val or val in (float("inf"), float("-inf")):
                    self.bad(node, "non-finite constant")
                return Val(rat_lit(Fraction(val)), F64, lit=val)
            return Val(f"(Soft64.{f} {self.to_f64(a, node)} {self.to_f64(b, node)})", Ty("f64", elem))
        if ka in ("int", "nat") and kb in ("int", "nat"):
            if ka == "nat" and kb == "nat" and name in ("Add", "Mult"):
                return Val(f"({a.code} {'+' if name == 'Add' else '*'} {b.code})", Ty("nat", elem))
            if ka == "nat" and b.lit is not None and b.lit >= 0 and name in ("Add", "Mult"):
                return Val(f"({a.code} {'+' if name == 'Add' else '*'} {b.lit})", Ty("nat", elem))
            x, y = self.to_int(a, node), self.to_int(b, node)
            if a.lit is not None and b.lit is not None and name in ("Add", "Sub", "Mult", "Pow"):
                val = {"Add": a.lit + b.lit, "Sub": a.lit - b.lit, "Mult": a.lit * b.lit,
                       "Pow": a.lit ** b.lit if 0 <= b.lit <= 64 else None}[name]
                if val is not None:
                    return Val(f"({val} : Int)", INT, lit=val)
            if name in ("Add", "Sub", "Mult"):
                # commutative integer operations are canonicalised (operands ordered by text): a harmless reordering of
                # the source does not change the definition. Float operations are never reordered.
                if name in ("Add", "Mult") and y < x:
                    x, y = y, x
                return Val(f"({x} {'+-*'[('Add', 'Sub', 'Mult').index(name)]} {y})", Ty("int", elem))
            if name == "Div":
                return Val(f"(Py.intTrueDiv {x} {y})", Ty("f64", elem))
            if name == "FloorDiv":
                return Val(f"(Py.floorDiv {x} {y})", Ty("int", elem))
            if name == "Mod":
                return Val(f"(Py.pyMod {x} {y})", Ty("int", elem))
            if name == "Pow":
                return Val(f"(Py.ipow {x} {y})", Ty("int", elem))
        if ka == "bool" and kb == "bool" and name in ("BitAnd", "BitOr"):
            return Val(f"({a.code} {'&&' if name == 'BitAnd' else '||'} {b.code})", Ty("bool", elem))
        if name == "Add" and ka == "timedelta" and kb == "timedelta":
            return Val(f"({a.code} + {b.code})", TIMEDELTA)
        if name == "Add" and ka == "datetime" and kb == "timedelta":
            return Val(f"(Py.Datetime.addTd {a.code} {b.code})", DATETIME)
        if name == "Sub" and ka == "datetime" and kb == "datetime":
            return Val(f"(Py.Datetime.sub {a.code} {b.code})", TIMEDELTA)
        # `1 - y` style with bool masks (observations > 0) in the real layer is handled by to_real on bools
        self.bad(node, f"{name} on {a.ty}, {b.ty}")

    def lifted(self, op, a, b, node):
        """arithmetic with numpy broadcasting over (flat) lists"""
        la, lb = a.ty.kind == "list", b.ty.kind == "list"
        if "ma" in (a.ty.kind, b.ty.kind):
            # numpy.ma binary operations: masked slots of the result carry the FIRST operand's data (PyPrelude)
            name = type(op).__name__
            self.uses_real = True
            if b.ty.kind == "ma" and b.ty.item.kind == "real" and name == "Sub" and a.ty.kind in ("real", "int", "nat", "f64"):
                return Val(f"(Py.ma_scalar_sub {self.to_real(a, node)} {b.code})", b.ty)
            if b.ty.kind == "ma" and b.ty.item.kind == "real" and name == "Mult" and la and a.ty.item.kind == "real":
                return Val(f"(Py.ma_arr_mul {a.code} {b.code})", b.ty)
            self.bad(node, f"{name} on {a.ty}, {b.ty} (masked arrays: only `scalar - ma` and `ndarray * ma`)")
        if not la and not lb:
            return self.arith(op, a, b, node)
        if la and not lb and a.ty.item.kind == "list":
            r = self.lifted(op, Val("r_", a.ty.item), b, node)        # 2-D array (list of rows) with a scalar
            return Val(f"(List.map (fun r_ => {r.code}) {a.code})", LIST(r.ty.with_elem(False)))
        if la and lb:
            r = self.arith(op, Val("x_", a.ty.item), Val("y_", b.ty.item), node)
            return Val(f"(List.zipWith (fun x_ y_ => {r.code}) {a.code} {b.code})", LIST(r.ty.with_elem(False)))
        if la:
            r = self.arith(op, Val("x_", a.ty.item), b, node)
            return Val(f"(List.map (fun x_ => {r.code}) {a.code})", LIST(r.ty.with_elem(False)))
        r = self.arith(op, a, Val("y_", b.ty.item), node)
        return Val(f"(List.map (fun y_ => {r.code}) {b.code})", LIST(r.ty.with_elem(False)))

    def e_BinOp(self, e, env):
        a, b = self.expr(e.left, env), self.expr(e.right, env)
        return self.lifted(e.op, a, b, e)

    def compare(self, op, a, b, node):
        name = type(op).__name__
        if name in ("Is", "IsNot"):
            if b.ty.kind == "none":
                if a.ty.kind == "none":
                    r = True
                elif a.ty.kind == "tzinfo":
                    code = f"(Py.Datetime.tzIsNone {a.code})"
                    return Val(code if name == "Is" else f"(!{code})", BOOL)
                elif a.ty.kind == "pyobj":
                    code = f"(JsonTree.PyObj.isNone {a.code})"      # a value of the object layer: None is one of its kinds
                    return Val(code if name == "Is" else f"(!{code})", BOOL)
                else:
                    r = False   # a value whose type under the specialisation is not Optional
                r = r if name == "Is" else not r
                return Val("true" if r else "false", BOOL, static=r)
            self.bad(node, "`is` is translated only against None")
        if name in ("In", "NotIn") and b.ty.kind == "string" and a.ty.kind == "str" and a.is_static and len(a.static) > 1:
            code = f"(ReaderText.hasInfix {str_lit(a.static)} {b.code})"        # 'lit' in s: substring test
            return Val(code if name == "In" else f"(!{code})", BOOL)
        if name in ("In", "NotIn") and b.ty.kind == "string" and a.ty.kind == "str" and a.is_static and len(a.static) == 1:
            code = f"(List.contains {b.code} {str_lit(a.static)[2:-14].strip()})"
            return Val(code if name == "In" else f"(!{code})", BOOL)
        if {a.ty.kind, b.ty.kind} <= {"string", "str"} and "string" in (a.ty.kind, b.ty.kind) and name in ("Eq", "NotEq"):
            code = f"(decide ({self.to_string(a, node)} = {self.to_string(b, node)}))"
            return Val(code if name == "Eq" else f"(!{code})", BOOL)
        if a.ty.kind == "char?" and b.ty.kind == "str" and b.is_static and len(b.static) == 1 and name in ("Eq", "NotEq"):
            code = f"({a.code} == some {str_lit(b.static)[2:-14].strip()})"
            return Val(code if name == "Eq" else f"(!{code})", BOOL)
        if a.is_static and b.is_static and a.ty.kind == b.ty.kind == "str":
            r = {"Eq": a.static == b.static, "NotEq": a.static != b.static}.get(name)
            if r is None:
                self.bad(node, "string comparison other than == / !=")
            return Val("true" if r else "false", BOOL, static=r)
        if a.ty.kind == "tzstr" and b.ty.kind == "str" and b.static == "UTC" and name in ("Eq", "NotEq"):
            code = f"(Py.Datetime.tzStrIsUTC {a.code})"
            return Val(code if name == "Eq" else f"(!{code})", BOOL)
        sym = {"Lt": "<", "LtE": "≤", "Gt": ">", "GtE": "≥", "Eq": "=", "NotEq": "≠"}.get(name)
        if sym is None:
            self.bad(node, f"comparison {name}")
        ka, kb = a.ty.kind, b.ty.kind
        elem = a.ty.elem or b.ty.elem
        if "real" in (ka, kb):
            self.uses_real = True
            x, y = self.to_real(a, node), self.to_real(b, node)
            code = {"Lt": f"(RealOps.lt {x} {y})", "LtE": f"(RealOps.le {x} {y})", "Gt": f"(RealOps.lt {y} {x})",
                    "GtE": f"(RealOps.le {y} {x})"}.get(name)
            if code is None and name == "Eq":
                code = f"(Py.req {x} {y})"
            if code is None:
                self.bad(node, "`!=` in the real layer")
            return Val(code, Ty("bool", elem))
        if "q" in (ka, kb):
            return Val(f"(decide ({self.to_q(a, node)} {sym} {self.to_q(b, node)}))", Ty("bool", elem))
        if ka == "datetime" and kb == "datetime" and name in ("Lt", "LtE", "Gt", "GtE"):
            # both aware or both naive (a mixed comparison raises TypeError: not modelled)
            return Val(f"(decide ({a.code}.us {sym} {b.code}.us))", BOOL)
        if "f64" in (ka, kb):
            return Val(f"(decide ({self.to_f64(a, node)} {sym} {self.to_f64(b, node)}))", Ty("bool", elem))
        if ka == "nat" and kb == "nat" or (ka == "nat" and b.lit is not None and b.lit >= 0):
            rhs = b.code if kb == "nat" else str(b.lit)
            return Val(f"(decide ({a.code} {sym} {rhs}))", Ty("bool", elem))
        if ka in ("int", "nat") and kb in ("int", "nat"):
            return Val(f"(decide ({self.to_int(a, node)} {sym} {self.to_int(b, node)}))", Ty("bool", elem))
        self.bad(node, f"comparison of {a.ty} with {b.ty}")

    def e_Compare(self, e, env):
        if len(e.ops) != 1:
            self.bad(e, "chained comparison")
        a, b = self.expr(e.left, env), self.expr(e.comparators[0], env)
        if a.ty.kind == "list" and b.ty.kind != "list" and not isinstance(e.ops[0], (ast.Is, ast.IsNot)):
            r = self.compare(e.ops[0], Val("x_", a.ty.item), b, e)
            return Val(f"(List.map (fun x_ => {r.code}) {a.code})", LIST(BOOL))
        return self.compare(e.ops[0], a, b, e)

    def e_BoolOp(self, e, env):
        is_and = isinstance(e.op, ast.And)
        vals = []
        for i_, x_ in enumerate(e.values):
            save, self.pending = self.pending, []
            try:
                v_ = self.expr(x_, env)
                mine = self.pending
            finally:
                self.pending = save
            if mine and i_ > 0:
                # short circuit: the raising operations of this operand happen only if the earlier operands are all
                # true (`and`) / all false (`or`)
                if any(p.is_static for p in vals) or v_.ty.kind != "bool":
                    self.bad(e, "raising operand of and / or after a constant operand, or not a bool")
                guard = " && ".join(self.to_bool(p, e) if is_and else f"(!{self.to_bool(p, e)})" for p in vals)
                inner = self.wrap_pending(mine, f"(Except.ok {self.to_bool(v_, e)})")
                v_ = self.raising(f"(if ({guard}) then {inner} else (Except.ok {'false' if is_and else 'true'}))", BOOL)
            else:
                self.pending.extend(mine)
            vals.append(v_)
        # Python semantics of `and` / `or` with constants known under the specialisation
        out = []
        for i, v in enumerate(vals):
            last = i == len(vals) - 1
            if v.is_static and not last:
                truth = bool(v.static)
                if is_and and not truth:
                    return v if v.ty.kind != "bool" else Val("false", BOOL, static=False)
                if (not is_and) and truth:
                    return v
                self.notes.append(f"line {e.lineno}: `{ast.unparse(e.values[i])}` is {v.static!r} under the specialisation: "
                                  f"`{ast.unparse(e)}` is its remaining operand(s)")
                continue        # neutral element: dropped (`None or x` is `x`, `True and x` is `x`)
            out.append(v)
        if len(out) == 1:
            return out[0]
        codes = [self.to_bool(v, e) for v in out]
        return Val("(" + (" && " if is_and else " || ").join(codes) + ")", Ty("bool", any(v.ty.elem for v in out)))

    def e_IfExp(self, e, env):
        c = self.expr(e.test, env)
        if c.is_static:
            return self.expr(e.body if c.static else e.orelse, env)
        a, b = self.expr(e.body, env), self.expr(e.orelse, env)
        if a.ty != b.ty:
            self.bad(e, f"conditional expression with branches of type {a.ty} and {b.ty}")
        return Val(f"(if {self.to_bool(c, e)} then {a.code} else {b.code})", a.ty)

    def e_Tuple(self, e, env):
        vs = [self.expr(x, env) for x in e.elts]
        return Val("(" + ", ".join(v.code for v in vs) + ")", TUPLE(*[v.ty.with_elem(False) for v in vs]))

    def e_Dict(self, e, env):
        if not e.keys and not self.objects:
            return Val(None, Ty("dictrec"), static="dictrec")      # `{}`: filled by constant-key stores (block1), returned as a tuple
        # a dict literal with constant string keys is returned as the tuple of its values, keys listed in the header
        keys = [k.value if isinstance(k, ast.Constant) else None for k in e.keys]
        if any(not isinstance(k, str) for k in keys):
            self.bad(e, "dict with non-literal keys")
        if self.objects:
            vs = [self.to_pyobj(self.expr(x, env), e) for x in e.values]
            return Val("(JsonTree.PyObj.dict (JsonTree.PyKVs.ofList [" + ", ".join(
                f"({json.dumps(k_)}, {v_})" for k_, v_ in zip(keys, vs)) + "]))", PYOBJ)
        vs = [self.expr(x, env) for x in e.values]
        self.notes.append(f"line {e.lineno}: dict result as tuple in key order {keys}")
        r = Val("(" + ", ".join(v.code for v in vs) + ")", TUPLE(*[v.ty.with_elem(False) for v in vs]))
        r.dict_keys = keys
        self.dict_keys = keys
        return r

    def e_List(self, e, env):
        if not self.objects:
            self.bad(e, "list literal outside the object layer")
        vs = [self.to_pyobj(self.expr(x, env), e) for x in e.elts]
        return Val("[" + ", ".join(vs) + "]", LIST(PYOBJ))

    def e_ListComp(self, e, env):
        if len(e.generators) != 1 or e.generators[0].ifs or e.generators[0].is_async:
            self.bad(e, "list comprehension with filters / several generators")
        g = e.generators[0]
        it = self.expr(g.iter, env)
        if self.objects and it.ty.kind == "pyobj" and isinstance(g.target, ast.Name):
            # [f(x) for x in obj]: iterating can raise, f can raise; the first exception ends the comprehension
            env2 = dict(env)
            env2[g.target.id] = Val(mangle(g.target.id), PYOBJ)
            save, self.pending = self.pending, []
            try:
                body = self.expr(e.elt, env2)
                inner = self.wrap_pending(self.pending, f"(Except.ok {self.to_pyobj(body, e)})")
            finally:
                self.pending = save
            return self.raising(f"(Py.obj_mapM {it.code} (fun {mangle(g.target.id)} => {inner}))", LIST(PYOBJ))
        if it.ty.kind != "list" or not isinstance(g.target, ast.Name):
            self.bad(e, "comprehension over a non-list")
        env2 = dict(env)
        env2[g.target.id] = Val(mangle(g.target.id), it.ty.item)
        body = self.expr(e.elt, env2)
        return Val(f"(List.map (fun {mangle(g.target.id)} => {body.code}) {it.code})", LIST(body.ty.with_elem(False)))

    def e_Attribute(self, e, env):
        d = dotted(e)
        ep = self.spec.get("expr_params", {})
        if d in ep:
            nm, ty = ep[d]
            if ty.uses_real():
                self.uses_real = True
            return Val(nm, ty)
        st = self.spec.get("statics", {})
        if d in st:
            if isinstance(st[d], int) and not isinstance(st[d], bool):
                return Val(f"({st[d]} : Int)", INT, lit=st[d])
            return Val(None, STR if isinstance(st[d], str) else INT, static=st[d])
        if d in ("datetime.timezone.utc",):
            return Val(None, Ty("utc"), static="utc")
        if isinstance(e.value, ast.Name) and e.value.id in env and env[e.value.id].ty.kind == "record":
            key = f"{e.value.id}.{e.attr}"
            if key not in env:
                self.bad(e, f"field {key} is read before it is stored")
            return env[key]
        oc = self.spec.get("opaque_consts", {})
        if d in oc:
            nm, ty = oc[d]
            if ty.uses_real():
                self.uses_real = True
            return Val(nm, ty)
        if d in ("numpy.nan", "np.nan"):
            return Val(None, Ty("nan"), static="nan")     # only as a returned value in an Option position (TARGETS.ret)
        if e.attr == "eps" and isinstance(e.value, ast.Call) and dotted(e.value.func) in ("numpy.finfo", "np.finfo") \
                and len(e.value.args) == 1 and isinstance(e.value.args[0], ast.Attribute) and e.value.args[0].attr == "dtype":
            v = self.expr(e.value.args[0].value, env)
            if v.ty.kind == "f64" or (v.ty.kind == "list" and v.ty.item.kind == "f64"):
                return Val("Py.finfo_eps64", F64)
            self.bad(e, f"finfo(...).eps of {v.ty}")
        v = self.expr(e.value, env)
        a = e.attr
        if v.ty.kind == "attrs":
            names_ = list(v.ty.item)
            if a not in names_:
                self.bad(e, f"attribute .{a} of an object specialised to the attributes {names_}")
            i_, n_ = names_.index(a), len(names_)
            code_ = v.code if n_ == 1 else v.code + "".join([".2"] * i_) + (".1" if i_ < n_ - 1 else "")
            return Val(code_, v.ty.item[a])
        if v.ty.kind == "list" and a == "size":
            return Val(f"(Py.size {v.code})", INT)
        if v.ty.kind == "list" and a == "shape":
            sh = self.spec.get("shapes", {})
            if isinstance(e.value, ast.Name) and e.value.id in sh and env.get(e.value.id) is self.param_vals.get(e.value.id):
                return Val(sh[e.value.id], LIST(NAT))      # the shape of an n-d array parameter is a parameter itself
            r = Val(f"[Py.size {v.code}]", LIST(INT))
            r.shape1 = f"(Py.size {v.code})"               # shape of a flat array: (n,)
            return r
        if v.ty.kind == "ma" and a == "shape":
            r = Val(f"[Py.size {v.code}]", LIST(INT))
            r.shape1 = f"(Py.size {v.code})"
            return r
        if v.ty.kind == "ma" and a == "data":
            return Val(f"(Py.ma_data {v.code})", LIST(v.ty.item))
        if v.ty.kind == "list" and a == "data" and v.ty.item.kind in ("real", "f64"):
            # ndarray.data is the buffer (memoryview) of a float64 array; as an operand of numpy arithmetic it is read back
            # (buffer protocol) as the same array
            return v
        if v.ty.kind == "datetime":
            if a == "tzinfo":
                return Val(v.code, Ty("tzinfo"))
            if a in ("year", "month", "day", "hour", "minute", "second", "microsecond"):
                return Val(f"(Py.Datetime.{a} {v.code})", INT)
        if v.ty.kind == "timedelta" and a in ("days", "seconds", "microseconds"):
            return Val(f"(Py.td{a.capitalize()} {v.code})", INT)
        self.bad(e, f"attribute .{a} of {v.ty}")

    def e_Subscript(self, e, env):
        if isinstance(e.value, ast.Name) and e.value.id in env and env[e.value.id].ty.kind == "fieldrec" \
                and isinstance(e.slice, ast.Constant) and isinstance(e.slice.value, str):
            key_ = f"{e.value.id}[{e.slice.value!r}]"
            if key_ not in env:
                self.bad(e, f"unknown field {key_}")
            return env[key_]
        v = self.expr(e.value, env)
        s = e.slice
        if self.spec.get("checked_index") and v.ty.kind == "list" and v.ty.item.kind == "string" \
                and isinstance(s, ast.Constant) and isinstance(s.value, int) and not isinstance(s.value, bool) and s.value >= 0:
            return self.raising(f"(Py.list_item {v.code} {s.value})", STRING)       # IndexError beyond the end
        if v.ty.kind == "pyobj":
            if isinstance(s, ast.Constant) and isinstance(s.value, str):
                return self.raising(f"(Py.obj_item {v.code} {json.dumps(s.value)})", PYOBJ)      # d['key']: KeyError / TypeError
            self.bad(e, "subscript of an object other than a constant string key")
        if v.ty.kind == "string":
            i = self.expr(s, env) if not isinstance(s, ast.Slice) else None
            if i is not None and i.lit is not None and isinstance(i.lit, int):
                # one character; outside the string (IndexError in Python) it compares unequal to every character
                return Val(f"(Py.strAt? {v.code} ({i.lit} : Int))", Ty("char?"))
            self.bad(e, "subscript of a string other than a literal index")
        if v.ty.kind == "tuple" and isinstance(s, ast.Constant) and isinstance(s.value, int) and not isinstance(s.value, bool) \
                and 0 <= s.value < len(v.ty.item):
            i, n = s.value, len(v.ty.item)      # t[k] of a fixed-size tuple / point
            return Val(f"{v.code}" + "".join([".2"] * i) + (".1" if i < n - 1 else ""), v.ty.item[i])
        if getattr(v, "dict_keys", None) and isinstance(s, ast.Constant) and isinstance(s.value, str):
            # d['key'] of a dict returned by a translated function (a tuple in key order)
            if s.value not in v.dict_keys:
                self.bad(e, f"key {s.value!r} is not one of {v.dict_keys}")
            i, n = v.dict_keys.index(s.value), len(v.dict_keys)
            return Val(f"{v.code}" + "".join([".2"] * i) + (".1" if i < n - 1 else ""), v.ty.item[i])
        if isinstance(s, ast.Slice):
            if s.lower is None and s.upper is None and isinstance(s.step, ast.UnaryOp) and isinstance(s.step.op, ast.USub) \
                    and isinstance(s.step.operand, ast.Constant) and s.step.operand.value == 1 and v.ty.kind == "list":
                return Val(f"(List.reverse {v.code})", v.ty)
            self.bad(e, "slice other than [::-1]")
        if isinstance(s, ast.Tuple) and len(s.elts) == 2 and v.ty.kind == "list" and v.ty.item.kind == "list" \
                and isinstance(s.elts[0], ast.Slice) and s.elts[0].lower is None and s.elts[0].upper is None \
                and s.elts[0].step is None:
            c = s.elts[1]
            if isinstance(c, ast.Slice):
                if c.lower is None and c.step is None and isinstance(c.upper, ast.Constant) and isinstance(c.upper.value, int) \
                        and c.upper.value >= 0:
                    return Val(f"(List.map (fun r_ => List.take {c.upper.value} r_) {v.code})", v.ty)      # a[:, :k]
                self.bad(e, "column slice other than a[:, :k]")
            ci = self.expr(c, env)
            if ci.lit is not None and isinstance(ci.lit, int) and v.ty.item.item.kind in ("f64", "q"):
                return Val(f"(List.map (fun r_ => Py.getF r_ ({ci.lit} : Int)) {v.code})", LIST(v.ty.item.item))   # a[:, k]
            self.bad(e, "column subscript other than a[:, k] with a literal k")
        if isinstance(s, ast.Tuple) and len(s.elts) == 2 and v.ty.kind == "list" and v.ty.item.kind == "list" \
                and v.ty.item.item.kind in ("f64", "q"):
            r, c = self.expr(s.elts[0], env), self.expr(s.elts[1], env)
            if r.ty.kind == "list" and r.ty.item.kind == "int" and c.ty.kind == "list" and c.ty.item.kind == "int":
                return Val(f"(Py.get2 {v.code} {r.code} {c.code})", LIST(v.ty.item.item))     # a[rows, cols] for two index arrays
            self.bad(e, f"2-D subscript with {r.ty}, {c.ty}")
        i = self.expr(s, env)
        if v.ty.kind == "list" and i.ty.kind == "list" and i.ty.item.kind in ("int", "nat") and v.ty.item.kind in ("f64", "int", "nat"):
            get = "Py.getF" if v.ty.item.kind == "f64" else "Py.getA"
            ic = self.to_int(Val("i_", i.ty.item), e)
            return Val(f"(List.map (fun i_ => {get} {v.code} {ic}) {i.code})", v.ty)      # a[idx] for an integer array idx
        if v.ty.kind == "list" and i.ty.kind == "list" and i.ty.item.kind == "bool":
            return Val(f"(Py.compress {i.code} {v.code})", v.ty)      # a[mask] for a boolean array mask
        if v.ty.kind == "monthrange" and i.lit == 1:
            return Val(v.code, INT)
        if v.ty.kind == "list" and i.ty.kind in ("idxtuple", "idxarr"):
            return Val(f"(Py.gather {v.code} {i.code})", v.ty)
        if v.ty.kind == "idxtuple" and i.lit == 0:
            return Val(v.code, IDXARR)          # numpy.nonzero(a)[0] of a flat array
        if v.ty.kind == "list" and i.ty.kind in ("int", "nat"):
            ic = self.to_int(i, e)
            if v.ty.item.kind in ("f64", "q"):
                return Val(f"(Py.getF {v.code} {ic})", Ty(v.ty.item.kind, i.ty.elem))
            if v.ty.item.kind == "int":
                return Val(f"(Py.getA {v.code} {ic})", Ty("int", i.ty.elem))
            if v.ty.item.kind in ("real", "nat"):
                if v.ty.item.kind == "real":
                    self.bad(e, "indexing an array of the real layer")
                return Val(f"(Py.getA {v.code} {ic})", Ty(v.ty.item.kind, i.ty.elem))
        self.bad(e, f"subscript of {v.ty} with {i.ty}")

    # ---------------------------------------------------------------- calls
    def e_Call(self, e, env):
        fn = dotted(e.func)
        args = e.args
        kw = {k.arg: k.value for k in e.keywords}
        A = lambda i: self.expr(args[i], env)
        np_ = lambda *names: fn in [p + n for n in names for p in ("numpy.", "np.")]
        if fn in self.spec.get("records", ()) and not args and not kw:
            return Val(None, Ty("record"), static="record")       # a fresh result object: only its stored fields are read
        ll = self.spec.get("local_lambdas", {})
        if fn in ll and fn not in env and not kw:
            lam = ll[fn]
            la = lam.args
            if la.vararg or la.kwarg or la.kwonlyargs or la.defaults or len(la.args) != len(args):
                self.bad(e, f"call of the local lambda {fn} with other than its positional parameters")
            env2 = dict(env)
            for p_, a_ in zip(la.args, args):
                env2[p_.arg] = self.expr(a_, env)          # the body with the parameters bound to the arguments
            note_ = f"`{fn}` is the local lambda of line {lam.lineno}: its calls are its body with the parameters bound"
            if note_ not in self.notes:
                self.notes.append(note_)
            return self.expr(lam.body, env2)
        if isinstance(e.func, ast.Attribute) and e.func.attr == "timestamp" and not args and not kw \
                and isinstance(e.func.value, ast.Call) and dotted(e.func.value.func) == "datetime.datetime.strptime" \
                and len(e.func.value.args) == 2 and not e.func.value.keywords and self.spec.get("checked_index"):
            s_, f_ = self.expr(e.func.value.args[0], env), self.expr(e.func.value.args[1], env)
            if s_.ty.kind != "string" or not (f_.is_static and isinstance(f_.static, str)):
                self.bad(e, "strptime(…).timestamp() of other than a string value and a constant format")
            return self.raising(f"(Py.strptime_timestamp {s_.code} {str_lit(f_.static)})", F64)
        if fn == "round" and len(args) == 1 and not kw:
            v = A(0)
            if v.ty.kind == "f64" and not v.ty.elem:
                return Val(f"(Soft64.roundHalfEven {v.code})", INT)      # round(float) -> int: to nearest, ties to even, exact
            self.bad(e, f"round() of {v.ty}")
        # ---- expressions that are parameters of the specialisation (e.g. `catalog.spatial_magnitude_counts()`) ----
        ep = self.spec.get("expr_params", {})
        if ep:
            src = ast.unparse(e)
            if src in ep:
                nm, ty = ep[src]
                if ty.uses_real():
                    self.uses_real = True
                return Val(nm, ty)
        # ---- opaque function parameters (e.g. scipy cdf's) ----
        opq = self.spec.get("opaque", {})
        if fn in opq:
            o = opq[fn]
            vs = [self.expr(a, env) for a in args]
            fixed = o.get("fixed_kw", {})
            for k_, node_ in kw.items():
                if k_ not in fixed or not isinstance(node_, ast.Constant) or node_.value != fixed[k_]:
                    self.bad(e, f"opaque {fn}: keyword {k_} other than the fixed {fixed}")
            if len(vs) != len(o["args"]):
                self.bad(e, f"opaque {fn}: expected {len(o['args'])} positional arguments")
            if len(vs) == 1 and vs[0].ty.kind == "list" and vs[0].ty.item == o["args"][0] and not kw:
                # a one-argument opaque function applied to an array: elementwise
                if o["ret"].uses_real():
                    self.uses_real = True
                return Val(f"(List.map (fun x_ => {o['lean']} x_) {vs[0].code})", LIST(o["ret"]))
            codes = [self.coerce(v, t, e) for v, t in zip(vs, o["args"])]
            if o["ret"].uses_real():
                self.uses_real = True
            return Val(f"({o['lean']} " + " ".join(codes) + ")", o["ret"].with_elem(any(v.ty.elem for v in vs)))
        # ---- other translated targets ----
        callee = self.find_callee(fn)
        if callee is not None and fn is not None:
            vs = [self.expr(a, env) for a in args]
            return self.tr.call(self, callee, vs, kw, e, env)
        if np_("asarray", "asanyarray", "array") and len(args) == 1:
            v = A(0)
            if self.objects and (v.ty.kind == "pyobj" or (v.ty.kind == "list" and v.ty.item.kind == "pyobj")) and not kw:
                return self.raising(f"(Py.obj_nparray {self.to_pyobj(v, e)})", PYOBJ)
            if "dtype" in kw and not (dotted(kw["dtype"]) in ("numpy.float64", "np.float64") and
                                      (v.ty.kind in ("f64", "real") or (v.ty.kind == "list" and v.ty.item.kind in ("f64", "real")))):
                self.bad(e, "asarray with a dtype other than float64 on a float array")
            if v.ty.kind in ("list", "f64", "real", "nat", "int"):
                return v
            self.bad(e, f"asarray of {v.ty}")
        if np_("nonzero") and len(args) == 1 and not kw:
            v = A(0)
            if v.ty.kind == "list" and v.ty.item.kind == "nat":
                return Val(f"(Py.nonzeroIdx {v.code})", Ty("idxtuple"))
            self.bad(e, f"nonzero of {v.ty}")
        if np_("floor") and len(args) == 1:
            v = A(0)
            if v.ty.kind == "f64":
                return Val(f"(Py.np_floor {v.code})", v.ty)
            self.bad(e, f"floor of {v.ty}")
        if (np_("abs", "absolute") or fn == "abs") and len(args) == 1:
            v = A(0)
            if v.ty.kind == "f64":
                return Val(f"(Py.np_abs {v.code})", v.ty)
            if v.ty.kind == "list" and v.ty.item.kind == "f64":
                return Val(f"(List.map (fun x_ => Py.np_abs x_) {v.code})", v.ty)
            if v.ty.kind == "int":
                return Val(f"(Int.ofNat (Int.natAbs {v.code}))", v.ty)
            if v.ty.kind == "real" and not v.ty.elem:
                self.uses_real = True
                return Val(f"(Py.rabs {v.code})", v.ty)
            self.bad(e, f"abs of {v.ty}")
        if np_("nan_to_num") and len(args) == 1 and not kw:
            v = A(0)
            if v.ty.kind == "f64":
                return Val(f"(Py.np_nan_to_num {v.code})", v.ty)
            self.bad(e, f"nan_to_num of {v.ty}")
        if np_("clip") and len(args) == 3 and not kw:
            v, lo, hi = A(0), A(1), A(2)
            if v.ty.kind == "f64":
                return Val(f"(Py.np_clip {v.code} {self.to_f64(lo, e)} {self.to_f64(hi, e)})", v.ty)
            self.bad(e, f"clip of {v.ty}")
        if np_("where") and len(args) == 1 and not kw:
            c = A(0)
            if c.ty.kind == "list" and c.ty.item.kind == "bool":
                return Val(f"(Py.whereIdx {c.code})", Ty("idxtuple"))
            self.bad(e, f"one-argument where of {c.ty}")
        if np_("where") and len(args) == 3:
            c, a, b = A(0), A(1), A(2)
            if c.ty.kind != "bool":
                self.bad(e, "where with a non-bool condition")
            ty = a.ty if a.ty == b.ty else (F64 if "f64" in (a.ty.kind, b.ty.kind) else None)
            if ty is None:
                self.bad(e, f"where with branches {a.ty}, {b.ty}")
            ty = ty.with_elem(c.ty.elem or a.ty.elem or b.ty.elem)
            return Val(f"(Py.np_where {c.code} {self.coerce(a, ty, e)} {self.coerce(b, ty, e)})", ty)
        if np_("round") and len(args) == 1 and not kw:
            v = A(0)
            if v.ty.kind == "f64":
                return Val(f"(Py.np_round {v.code})", v.ty)
            self.bad(e, f"round of {v.ty}")
        if np_("ma.masked_where") and len(args) == 2 and not kw:
            c, a = A(0), A(1)
            if c.ty.kind == "list" and c.ty.item.kind == "bool" and a.ty.kind == "list" and a.ty.item.kind == "real":
                self.uses_real = True
                return Val(f"(Py.ma_masked_where {c.code} {a.code})", MA(a.ty.item))
            self.bad(e, f"masked_where of {c.ty}, {a.ty}")
        if np_("zeros") and len(args) == 1 and not kw:
            v = A(0)
            if getattr(v, "shape1", None) is None:
                self.bad(e, "numpy.zeros of something other than the shape of a flat array")
            # float64 zeros: of the real layer when the function is specialised there
            if any(isinstance(t, Ty) and t.uses_real() for t in self.spec["params"].values()) or \
                    any(t.uses_real() for _, t in self.spec.get("expr_params", {}).values()):
                self.uses_real = True
                return Val(f"(Py.np_zeros {v.shape1} : List α)", LIST(REAL))
            return Val(f"(List.replicate ({v.shape1}).toNat (0 : Rat))", LIST(F64))
        if fn == "map" and len(args) == 2 and isinstance(args[1], ast.Tuple) and not kw:
            # map(f, (a, b, …)), to be unpacked into as many names: the tuple (f(a), f(b), …)
            vs = [self.expr(ast.copy_location(ast.Call(func=args[0], args=[x], keywords=[]), e), env) for x in args[1].elts]
            return Val("(" + ", ".join(v.code for v in vs) + ")", TUPLE(*[v.ty.with_elem(False) for v in vs]))
        if np_("concatenate") and len(args) == 1 and isinstance(args[0], (ast.List, ast.Tuple)) and not kw:
            vs = [self.expr(x, env) for x in args[0].elts]
            if vs and all(v.ty.kind == "list" and v.ty == vs[0].ty for v in vs):
                return Val("(" + " ++ ".join(v.code for v in vs) + ")", vs[0].ty)
            self.bad(e, "concatenate of something other than flat arrays of one dtype")
        if np_("max", "min", "amax", "amin") and len(args) == 1 and not kw:
            v = A(0)
            which = "max" if fn.split(".")[1] in ("max", "amax") else "min"
            if v.ty.kind == "list" and v.ty.item.kind == "f64":
                return Val(f"(Py.np_{which} {v.code})", F64)
            self.bad(e, f"{which} of {v.ty}")
        if np_("any") and len(args) == 1 and not kw:
            v = A(0)
            if v.ty.kind == "list" and v.ty.item.kind == "bool":
                return Val(f"(Py.np_any {v.code})", BOOL)
            self.bad(e, f"any of {v.ty}")
        if np_("compress") and len(args) == 2 and (not kw or (list(kw) == ["axis"] and isinstance(kw["axis"], ast.UnaryOp))) \
                and isinstance(args[0], ast.Call) and dotted(args[0].func) in ("numpy.not_equal", "np.not_equal") \
                and len(args[0].args) == 2 and ast.unparse(args[0].args[0]) == ast.unparse(args[1]) \
                and isinstance(args[0].args[1], ast.Constant) and args[0].args[1].value == 0:
            v = A(1)
            if v.ty.kind == "list" and v.ty.item.kind == "f64":
                return Val(f"(Py.compress_ne0 {v.code})", v.ty)     # numpy.compress(numpy.not_equal(d, 0), d): the non-zero entries
            self.bad(e, f"compress of {v.ty}")
        if fn == "scipy.stats.rankdata" and len(args) == 1 and not kw:
            v = A(0)
            if v.ty.kind == "list" and v.ty.item.kind == "f64":
                return Val(f"(Py.rankdata {v.code})", v.ty)         # average ranks: exact halves
            self.bad(e, f"rankdata of {v.ty}")
        if np_("unique") and len(args) == 1 and not kw:
            v = A(0)
            if v.ty.kind in ("idxtuple", "idxarr"):
                return Val(f"(Py.np_unique {v.code})", IDXARR)
            self.bad(e, f"unique of {v.ty}")
        if np_("sort") and len(args) == 1 and (not kw or (list(kw) == ["kind"] and isinstance(kw["kind"], ast.Constant)
                                                      and kw["kind"].value == "stable")) \
                and isinstance(args[0], ast.Subscript) and isinstance(args[0].slice, ast.Constant) and args[0].slice.value == 1 \
                and isinstance(args[0].value, ast.Call) and dotted(args[0].value.func) in ("numpy.unique", "np.unique"):
            u = args[0].value
            ukw = {k_.arg: k_.value for k_ in u.keywords}
            if len(u.args) == 1 and isinstance(ukw.get("return_index"), ast.Constant) and ukw["return_index"].value is True \
                    and set(ukw) <= {"return_index", "axis"} and (("axis" not in ukw) or (
                        isinstance(ukw["axis"], ast.Constant) and ukw["axis"].value == 0)):
                x = self.expr(u.args[0], env)
                rows = x.ty.kind == "list" and x.ty.item.kind == "list"
                if x.ty.kind == "list" and (("axis" in ukw) == rows):
                    # the indices of the first occurrences of the distinct values (rows, with axis=0), ascending
                    return Val(f"(Py.firstIdx {x.code})", IDXARR)
            self.bad(e, "sort(unique(...)[1]) in another form than unique(x, return_index=True[, axis=0]) of a flat array / of rows")
        if np_("sort") and len(args) == 1 and not kw:
            v = A(0)
            if v.ty.kind == "list" and v.ty.item.kind in ("f64", "int"):
                return Val(f"(Py.np_sort {v.code})", v.ty)
            self.bad(e, f"sort of {v.ty}")
        if np_("searchsorted") and len(args) == 2 and set(kw) <= {"side"}:
            side = "left"
            if "side" in kw:
                if not (isinstance(kw["side"], ast.Constant) and kw["side"].value in ("left", "right")):
                    self.bad(e, "searchsorted with a side that is not the literal 'left' / 'right'")
                side = kw["side"].value
            a, v = A(0), A(1)
            # numpy searches in result_type(a.dtype, v.dtype); translated only where that is the dtype of both
            if a.ty.kind == "list" and a.ty.item.kind in ("f64", "int"):
                if v.ty.kind == a.ty.item.kind:
                    return Val(f"(Py.searchsorted_{side} {a.code} {v.code})", Ty("int", v.ty.elem))
                if v.ty.kind == "list" and v.ty.item.kind == a.ty.item.kind:
                    return Val(f"(List.map (fun x_ => Py.searchsorted_{side} {a.code} x_) {v.code})", LIST(INT))
            self.bad(e, f"searchsorted of {a.ty} with {v.ty} (only an array and a value / array of the same dtype)")
        if np_("arange") and len(args) == 2 and not kw:
            a, b = A(0), A(1)
            if a.ty.kind in ("int", "nat") and b.ty.kind in ("int", "nat"):
                return Val(f"(Py.range {self.to_int(a, e)} {self.to_int(b, e)})", LIST(INT))
            self.bad(e, "two-argument arange of non-integers")
        if np_("arange") and len(args) == 3 and not kw:
            a, b, c = A(0), A(1), A(2)
            if "f64" in (a.ty.kind, b.ty.kind, c.ty.kind):
                return Val(f"(Py.np_arange {self.to_f64(a, e)} {self.to_f64(b, e)} {self.to_f64(c, e)})", LIST(F64))
            self.bad(e, "integer arange")
        if fn in ("max", "min") and len(args) == 2 and not kw:
            a, b = A(0), A(1)
            if "f64" in (a.ty.kind, b.ty.kind):
                return Val(f"(Py.f{fn} {self.to_f64(a, e)} {self.to_f64(b, e)})", F64)
            if a.ty.kind in ("int", "nat") and b.ty.kind in ("int", "nat"):
                if a.ty.kind == b.ty.kind == "nat":
                    return Val(f"({fn} {a.code} {b.code})", NAT)
                return Val(f"({fn} {self.to_int(a, e)} {self.to_int(b, e)})", INT)
            self.bad(e, f"{fn} of {a.ty}, {b.ty}")
        if fn == "list" and len(args) == 1 and not kw and self.objects:
            v = A(0)
            if v.ty.kind == "pyobj":
                return self.raising(f"(Py.obj_list {v.code})", PYOBJ)       # TypeError for a value that is not iterable
            self.bad(e, f"list() of {v.ty}")
        if fn == "len" and len(args) == 1:
            v = A(0)
            if v.ty.kind in ("list", "idxarr", "ma"):
                return Val(f"(Py.size {v.code})", INT)
            self.bad(e, f"len of {v.ty} (an elementwise parameter has no length here)")
        if fn == "int" and len(args) == 1:
            v = A(0)
            if v.ty.kind == "f64":
                return Val(f"(Py.truncF {v.code})", Ty("int", v.ty.elem))
            if v.ty.kind in ("int", "nat"):
                return v
            if v.ty.kind == "string" and self.spec.get("checked_index"):
                return self.raising(f"(Py.int_str {v.code})", INT)          # int('…'): ValueError
            self.bad(e, f"int() of {v.ty}")
        if fn == "float" and len(args) == 1 and self.objects:
            v = A(0)
            if v.ty.kind == "fbits":
                return Val(f"(JsonTree.PyObj.pyFloat {v.code})", PYOBJ)     # float(x) of a float64 number: the Python float
            self.bad(e, f"float() of {v.ty} in the object layer")
        if fn == "str" and len(args) == 1 and self.objects:
            v = A(0)
            if v.ty.kind == "optstr":
                return Val(f"(JsonTree.PyObj.str (Py.optstr_str {v.code}))", PYOBJ)   # str(x) of a str or None
            self.bad(e, f"str() of {v.ty} in the object layer")
        if fn == "float" and len(args) == 1:
            v = A(0)
            if v.ty.kind == "string" and self.spec.get("checked_index"):
                return self.raising(f"(Py.float_str {v.code})", F64)        # float('…'): ValueError
            if v.ty.kind in ("int", "nat", "f64"):
                return Val(self.to_f64(v, e), Ty("f64", v.ty.elem))
            if v.ty.kind == "real":
                return v
            self.bad(e, f"float() of {v.ty}")
        if fn == "issubclass" and len(args) == 2 and dotted(args[1]) in ("numpy.floating", "np.floating"):
            d = dotted(args[0])
            if d and d.endswith(".dtype.type"):
                v = self.expr(ast.parse(d[:-len(".dtype.type")], mode="eval").body, env)
                if v.ty.kind in ("f64", "int"):
                    r = v.ty.kind == "f64"
                    return Val("true" if r else "false", BOOL, static=r)
            self.bad(e, "issubclass on something other than <typed value>.dtype.type")
        if fn == "sum" and len(args) == 1:
            v = A(0)
            if v.ty.kind == "list" and v.ty.item.kind == "int":
                return Val(f"(Py.sumInt {v.code})", INT)
            if v.ty.kind == "list" and v.ty.item.kind == "real":
                self.uses_real = True
                return Val(f"(Py.rsum {v.code})", REAL)
            self.bad(e, f"sum of {v.ty}")
        if fn == "range" and len(args) == 2:
            a, b = A(0), A(1)
            return Val(f"(Py.range {self.to_int(a, e)} {self.to_int(b, e)})", LIST(INT))
        if fn == "calendar.isleap" and len(args) == 1:
            v = A(0)
            if v.ty.kind == "f64":
                return Val(f"(Py.isleapF {v.code})", BOOL)     # an integer-valued float year
            return Val(f"(Py.isleap {self.to_int(v, e)})", BOOL)
        if fn == "datetime.timedelta" and not args and list(kw) in (["seconds"], ["microseconds"]):
            v = self.expr(kw[list(kw)[0]], env)
            if v.ty.kind == "f64":
                return Val(f"(Py.timedeltaOf{list(kw)[0].capitalize()}F {v.code})", TIMEDELTA)
            self.bad(e, f"timedelta({list(kw)[0]}=…) of {v.ty}")
        if fn == "calendar.monthrange" and len(args) == 2:
            return Val(f"(Py.monthrangeDays {self.to_int(A(0), e)} {self.to_int(A(1), e)})", Ty("monthrange"))
        if fn == "datetime.timedelta" and ((len(args) == 3 and not kw) or (not args and len(kw) == 1 and
                                                                          list(kw)[0] in ("days", "hours", "minutes"))):
            unit = {"days": 86400000000, "hours": 3600000000, "minutes": 60000000}
            vs_ = [self.expr(x_, env) for x_ in (args or list(kw.values()))]
            if all(v_.lit is not None and isinstance(v_.lit, int) for v_ in vs_):
                tot = (vs_[0].lit * 86400000000 + vs_[1].lit * 1000000 + vs_[2].lit) if args else vs_[0].lit * unit[list(kw)[0]]
                return Val(f"({tot} : Int)", TIMEDELTA, lit=None)
            self.bad(e, "timedelta with non-literal arguments")
        if fn == "datetime.timedelta" and len(args) == 1 and not kw:
            v = A(0)
            if v.ty.kind in ("int", "nat"):
                return Val(f"((86400000000 : Int) * {self.to_int(v, e)})", TIMEDELTA)      # timedelta(days)
            self.bad(e, f"timedelta of {v.ty}")
        sc_ = self.spec.get("self_calls", {})
        if fn in sc_ and not kw:
            # `self.<method>(…)` that returns self after storing one argument (TARGETS.self_calls): stands for that argument
            r = Val(None, Ty("selfcall"))
            r.arg = self.expr(args[sc_[fn]], env)
            return r
        if fn == "datetime.datetime" and len(args) == 7 and not kw:
            return Val("(Py.mkDatetime " + " ".join(self.to_int(A(i), e) for i in range(7)) + ")", DATETIME)
        if fn == "datetime.datetime.fromtimestamp" and len(args) == 2 and dotted(args[1]) == "datetime.timezone.utc":
            v = A(0)
            if v.ty.kind == "f64":
                return Val(f"(Py.fromtimestampUtc {v.code})", DATETIME)
            self.bad(e, f"fromtimestamp of {v.ty}")
        if fn == "str" and len(args) == 1:
            v = A(0)
            if v.ty.kind == "tzinfo":
                return Val(v.code, Ty("tzstr"))
            self.bad(e, f"str() of {v.ty}")
        if np_("log", "exp", "sqrt") and len(args) == 1:
            v = A(0)
            f = fn.split(".")[1]
            self.uses_real = True
            ext = f == "log" and self.spec.get("extended_log", False)
            one = (lambda c: f"(Py.elog {c})") if ext else (lambda c: f"(RealOps.{f} {c})")
            rt = EREAL if ext else REAL
            if v.ty.kind == "real":
                return Val(one(v.code), rt.with_elem(v.ty.elem))
            if v.ty.kind in ("int", "nat") and f == "sqrt":
                return Val(one(self.to_real(v, e)), rt.with_elem(v.ty.elem))     # integer argument: converted to float64
            if v.ty.kind == "list" and v.ty.item.kind == "real":
                return Val(f"(List.map (fun x_ => {one('x_')}) {v.code})", LIST(rt))
            if v.ty.kind == "ma" and v.ty.item.kind == "real" and f in ("log", "exp") and not ext:
                return Val(f"(Py.ma_{f} {v.code})", v.ty)
            self.bad(e, f"{f} of {v.ty}")
        if np_("sum") and len(args) == 1 and set(kw) <= {"axis"} and (lambda v: v.ty.kind == "list" and (
                v.ty.item.kind == "q" or (v.ty.item.kind == "list" and v.ty.item.item.kind == "q")))(A(0)):
            # exact layer: the order of a sum is irrelevant
            v = A(0)
            ax = kw.get("axis")
            axv = ax.value if isinstance(ax, ast.Constant) else None
            if ax is not None and axv not in (0, 1):
                self.bad(e, "numpy.sum with a non-literal axis")
            if v.ty.item.kind == "q":
                if axv in (None, 0):
                    return Val(f"(Py.qsum {v.code})", Q)
                self.bad(e, "axis=1 of a flat array")
            if axv is None:
                return Val(f"(Py.qsum (List.map Py.qsum {v.code}))", Q)
            if axv == 1:
                return Val(f"(List.map Py.qsum {v.code})", LIST(Q))
            return Val(f"(Py.qsumAxis0 {v.code})", LIST(Q))
        if np_("copy") and len(args) == 1 and not kw:
            return A(0)         # a copy: values are immutable here
        if np_("sum") and len(args) == 1 and (not kw or (list(kw) == ["axis"] and isinstance(kw["axis"], ast.Constant)
                                                      and kw["axis"].value == 0 and A(0).ty.kind == "list"
                                                      and A(0).ty.item.kind != "list")):
            v = A(0)
            return self.sum_of(v, e)
        if (np_("power") and len(args) == 2) or (np_("square") and len(args) == 1):
            v = A(0)
            if np_("power") and A(1).lit != 2:
                self.bad(e, "numpy.power with an exponent other than the literal 2")
            if v.ty.kind in ("int", "nat"):
                return Val(f"(Py.ipow {self.to_int(v, e)} (2 : Int))", Ty("int", v.ty.elem))
            self.uses_real = True
            if v.ty.kind == "real":
                return Val(f"(Py.rsq {v.code})", v.ty)
            if v.ty.kind == "list" and v.ty.item.kind == "real":
                return Val(f"(List.map (fun x_ => Py.rsq x_) {v.code})", v.ty)
            self.bad(e, f"square of {v.ty}")
        if fn == "scipy.special.loggamma" and len(args) == 1:
            a = args[0]
            if isinstance(a, ast.BinOp) and isinstance(a.op, ast.Add) and isinstance(a.right, ast.Constant) and a.right.value == 1:
                v = self.expr(a.left, env)
                self.uses_real = True
                if v.ty.kind == "nat":
                    return Val(f"(Py.loggammaSucc {v.code} : α)", REAL.with_elem(v.ty.elem))
                if v.ty.kind == "list" and v.ty.item.kind == "nat":
                    return Val(f"(List.map (fun n_ => (Py.loggammaSucc n_ : α)) {v.code})", LIST(REAL))
            self.bad(e, "loggamma of something other than <count> + 1")
        if fn in ("poisson.cdf", "scipy.stats.poisson.cdf") and len(args) == 2 and isinstance(args[0], ast.Constant) \
                and args[0].value == 0 and not kw:
            v = A(1)
            self.uses_real = True
            if v.ty.kind == "real":
                return Val(f"(Py.poissonCdf0 {v.code})", v.ty)
            if v.ty.kind == "list" and v.ty.item.kind == "real":
                return Val(f"(List.map (fun x_ => Py.poissonCdf0 x_) {v.code})", v.ty)
            self.bad(e, f"poisson.cdf(0, {v.ty})")
        # ---- methods ----
        if isinstance(e.func, ast.Attribute):
            m = e.func.attr
            recv = self.expr(e.func.value, env)
            if m == "astype" and len(args) == 1 and dotted(args[0]) == "bool" and recv.ty.kind == "list" \
                    and recv.ty.item.kind == "f64":
                return Val(f"(List.map (fun x_ => decide (x_ ≠ (0 : Rat))) {recv.code})", LIST(BOOL))
            if m == "astype" and len(args) == 1 and dotted(args[0]) in ("numpy.int64", "np.int64", "int"):
                if recv.ty.kind == "list" and recv.ty.item.kind == "f64":
                    return Val(f"(List.map (fun x_ => Py.truncF x_) {recv.code})", LIST(INT))
                if recv.ty.kind == "f64":
                    return Val(f"(Py.truncF {recv.code})", Ty("int", recv.ty.elem))
                self.bad(e, f"astype(int64) of {recv.ty}")
            if m == "tolist" and not args and not kw and recv.ty.kind == "pyobj":
                return self.raising(f"(Py.obj_tolist {recv.code})", PYOBJ)  # AttributeError for a value without .tolist
            if m == "get" and len(args) == 2 and not kw and recv.ty.kind == "pyobj" and isinstance(args[0], ast.Constant) \
                    and isinstance(args[0].value, str):
                d_ = self.expr(args[1], env)
                return self.raising(f"(Py.obj_get {recv.code} {json.dumps(args[0].value)} {self.to_pyobj(d_, e)})", PYOBJ)
            if m == "ravel" and not args:
                if recv.ty.kind in ("list", "ma") or recv.ty.elem:
                    return recv
                self.bad(e, f"ravel of {recv.ty}")
            if m == "sum" and not args and not kw:
                return self.sum_of(recv, e)
            if m == "replace" and len(args) == 2 and not kw and recv.ty.kind == "string":
                a_, b_ = self.expr(args[0], env), self.expr(args[1], env)
                if not (a_.is_static and isinstance(a_.static, str) and a_.static and b_.is_static and isinstance(b_.static, str)):
                    self.bad(e, "str.replace with other than two literals (the first non-empty)")
                return Val(f"(ReaderText.replaceAll {str_lit(a_.static)} {str_lit(b_.static)} {recv.code})", STRING)
            if m == "replace" and not args and list(kw) == ["tzinfo"] and dotted(kw["tzinfo"]) == "datetime.timezone.utc" \
                    and recv.ty.kind == "datetime":
                return Val(f"(Py.Datetime.replaceUtc {recv.code})", DATETIME)
            if m == "total_seconds" and not args and recv.ty.kind == "timedelta":
                return Val(f"(Py.tdTotalSeconds {recv.code})", F64)
        self.bad(e, f"call of {fn or ast.dump(e.func)[:60]} is not in the accepted table")

    def embed(self, node, ty, env, at):
        if ty.kind == "tuple":
            if not (isinstance(node, ast.Tuple) and len(node.elts) == len(ty.item)):
                self.bad(at, f"returned value is not a literal tuple of {len(ty.item)} elements")
            return "(" + ", ".join(self.embed(x, t, env, at) for x, t in zip(node.elts, ty.item)) + ")"
        v = self.expr(node, env)
        if ty.kind == "option":
            if v.ty.kind == "nan":
                return "none"
            if v.ty.kind in ("object", "record") and self.spec.get("self_calls"):
                return "none"       # `return self` without a call of the methods of TARGETS.self_calls
            if v.ty.kind == "selfcall":
                return f"(some {self.embed_val(v.arg, ty.item, at)})"
            return f"(some {self.embed_val(v, ty.item, at)})"
        return self.embed_val(v, ty, at)

    def embed_val(self, v, ty, at):
        if v.ty.kind == "nan" or (v.is_static and v.code is None):
            self.bad(at, f"{v.ty} returned where {ty} is declared")
        if ty.kind == "ereal":
            self.uses_real = True
            if v.ty.kind == "ereal":
                return v.code
            return f"(ELL.fin {self.to_real(v, at)})"
        return self.coerce(v, ty, at)

    def sum_of(self, v, e):
        if v.ty.kind == "list" and v.ty.item.kind == "real":
            self.uses_real = True
            return Val(f"(Py.rsum {v.code})", REAL)
        if v.ty.kind == "list" and v.ty.item.kind == "ereal":
            self.uses_real = True
            return Val(f"(Py.esum {v.code})", EREAL)
        if v.ty.kind == "list" and v.ty.item.kind == "nat":
            return Val(f"(List.sum {v.code})", NAT)
        if v.ty.kind == "list" and v.ty.item.kind == "f64" and not v.ty.elem:
            return Val(f"(Py.np_sum_f64 {v.code})", F64)        # numpy.sum of a contiguous float64 array: the pairwise float sum
        if v.ty.kind == "list" and v.ty.item.kind == "int":
            return Val(f"(Py.sumInt {v.code})", INT)
        self.bad(e, f"sum of {v.ty}")

    # ---------------------------------------------------------------- statements (continuation passing)
    def fresh(self, base):
        self.tmp += 1
        return f"{base}_{self.tmp}"

    @staticmethod
    def has_exit(stmts):
        """does a statement list contain a `return` / `raise` (the `raise` of the handler in `try: x = e / except: raise E`
        is part of that statement's own meaning, Py.tryRaise, and does not count)"""
        def walk(n):
            if isinstance(n, ast.Try) and len(n.body) == 1 and isinstance(n.body[0], ast.Assign) and len(n.handlers) == 1 \
                    and len(n.handlers[0].body) == 1 and isinstance(n.handlers[0].body[0], ast.Raise) \
                    and not n.orelse and not n.finalbody:
                return False
            if isinstance(n, (ast.Return, ast.Raise, ast.Continue)):
                return True
            return any(walk(c) for c in ast.iter_child_nodes(n))
        return any(walk(s) for s in stmts)

    @staticmethod
    def assigned(stmts):
        out = []
        for s in stmts:
            for n in ast.walk(s):
                tg = []
                if isinstance(n, ast.Assign):
                    tg = n.targets
                elif isinstance(n, (ast.AugAssign, ast.AnnAssign)):
                    tg = [n.target]
                elif isinstance(n, ast.For):
                    tg = [n.target]
                for t in tg:
                    if isinstance(t, ast.Subscript) and isinstance(t.value, ast.Name) and isinstance(t.slice, ast.Constant) \
                            and isinstance(t.slice.value, str):
                        key_ = f"{t.value.id}[{t.slice.value!r}]"
                        if key_ not in out:
                            out.append(key_)        # a field of a structured record (`line['second'] -= 60.`)
                        continue
                    while isinstance(t, ast.Subscript):
                        t = t.value
                    if isinstance(t, ast.Attribute) and isinstance(t.value, ast.Name):
                        if f"{t.value.id}.{t.attr}" not in out:
                            out.append(f"{t.value.id}.{t.attr}")    # a field of a record object (`result.quantile = …`)
                        continue
                    for nm in ([t] if isinstance(t, ast.Name) else (t.elts if isinstance(t, ast.Tuple) else [])):
                        if isinstance(nm, ast.Name) and nm.id not in out:
                            out.append(nm.id)
        return out

    @staticmethod
    def reads(node):
        """names read by a node; a field `name.attr` of a plain name counts as `name.attr` (and as `name`)"""
        out = set()
        for n in ast.walk(node):
            if isinstance(n, ast.Name) and isinstance(n.ctx, ast.Load):
                out.add(n.id)
            if isinstance(n, ast.Attribute) and isinstance(n.ctx, ast.Load) and isinstance(n.value, ast.Name):
                out.add(f"{n.value.id}.{n.attr}")
        return out

    def ret(self, code):
        if self.optional:
            code = f"(some {code})"
        return f"(Except.ok {code})" if self.raises else code

    def block(self, stmts, env, k, ind):
        """Lean term for `stmts` followed by the continuation k(env). Raising operations met while translating the first
        statement's expressions (self.pending) are bound in front of it, in the order met."""
        if not stmts:
            return k(env)
        outer, mine = self.pending, []
        self.pending = mine
        try:
            text = self.block1(stmts, env, k, ind)
        finally:
            self.pending = outer
        pad = "  " * ind
        for tmp, code in reversed(mine):
            text = f"{pad}match {code} with\n{pad}| .error e_ => (Except.error e_)\n{pad}| .ok {tmp} =>\n{text}"
        return text

    def wrap_pending(self, pend, inner):
        """Except-valued term: the pending raising operations, then `inner` (an Except-valued term)"""
        for tmp, code in reversed(pend):
            inner = f"(match {code} with | .error e_ => (Except.error e_) | .ok {tmp} => {inner})"
        return inner

    def block1(self, stmts, env, k, ind):
        s, rest = stmts[0], stmts[1:]
        pad = "  " * ind
        go = lambda env2: self.block(rest, env2, k, ind)
        if isinstance(s, ast.Expr) and isinstance(s.value, ast.Constant) and isinstance(s.value.value, str):
            return go(env)      # docstring
        if isinstance(s, ast.Pass):
            return go(env)
        if isinstance(s, ast.If) and not s.orelse and all(isinstance(b_, ast.Expr) and isinstance(b_.value, ast.Call)
                                                          and dotted(b_.value.func) == "warnings.warn" for b_ in s.body):
            save_, self.pending = self.pending, []
            self.expr(s.test, env)          # the condition must be translatable and must not raise
            if self.pending:
                self.bad(s, "raising condition of an if that only warns")
            self.pending = save_
            self.notes.append(f"line {s.lineno}: `if {ast.unparse(s.test)}: warnings.warn(…)` has no effect on the result")
            return go(env)
        if isinstance(s, ast.Expr) and isinstance(s.value, ast.Call) and dotted(s.value.func) == "warnings.warn":
            self.notes.append(f"line {s.lineno}: `warnings.warn(…)` has no effect on the result")
            return go(env)
        if self.spec.get("real_from") and not self.real_mode and any(
                isinstance(n, ast.Call) and dotted(n.func) == self.spec["real_from"] for n in ast.walk(s)):
            # declared switch of layer: from this statement on the float64 scalars are read as the real numbers they denote
            self.real_mode = True
            self.uses_real = True
            env = dict(env)
            for nm_, v_ in list(env.items()):
                if isinstance(v_, Val) and v_.ty.kind == "f64" and not v_.ty.elem and v_.code is not None:
                    env[nm_] = Val(f"(Py.rOfRat {v_.code} : α)", REAL)
            self.notes.append(f"line {s.lineno}: from `{self.spec['real_from']}` on, the real layer: the float64 scalars computed so far are "
                              f"embedded exactly (Py.rOfRat), the remaining operations are real operations")
            go = lambda env2: self.block(rest, env2, k, ind)
        if isinstance(s, ast.Assign) and len(s.targets) == 1 and isinstance(s.targets[0], ast.Tuple) \
                and len(s.targets[0].elts) == 2 and all(isinstance(t_, ast.Name) for t_ in s.targets[0].elts) \
                and s.targets[0].elts[0].id == "_" and isinstance(s.value, ast.Call) \
                and dotted(s.value.func) in ("numpy.unique", "np.unique") and len(s.value.args) == 1 \
                and [k_.arg for k_ in s.value.keywords] == ["return_counts"] \
                and isinstance(s.value.keywords[0].value, ast.Constant) and s.value.keywords[0].value.value is True:
            v = self.expr(s.value.args[0], env)
            if not (v.ty.kind == "list" and v.ty.item.kind == "f64"):
                self.bad(s, f"unique counts of {v.ty}")
            # _, c = numpy.unique(r, return_counts=True): the numbers of occurrences of the distinct values, in ascending order of value
            return self.bind(s.targets[0].elts[1].id, Val(f"(Py.unique_counts {v.code})", LIST(INT)), env, go, pad, s)
        if isinstance(s, ast.Continue):
            if not self.has_continue:
                self.bad(s, "continue outside a loop body that is the definition (TARGETS.for_body)")
            return pad + self.ret("none")       # this pass of the loop produces nothing
        if isinstance(s, ast.Assign) and len(s.targets) == 1 and isinstance(s.targets[0], ast.Subscript) \
                and isinstance(s.targets[0].value, ast.Name) and s.targets[0].value.id in env \
                and env[s.targets[0].value.id].ty.kind == "dictrec" and isinstance(s.targets[0].slice, ast.Constant) \
                and isinstance(s.targets[0].slice.value, str):
            # d['k'] = v on a dict that started as `{}`: one variable per key, keys in the order of their first store
            dn, key_ = s.targets[0].value.id, s.targets[0].slice.value
            v = self.expr(s.value, env)
            if v.is_static or v.ty.kind not in ("int", "f64", "string", "bool", "real", "nat"):
                self.bad(s, f"store of {v.ty} into a dict built by stores")
            keys_ = self.dictrec_keys.setdefault(dn, [])
            if key_ not in keys_:
                keys_.append(key_)
            env2 = dict(env)
            nm_ = mangle(f"{dn}[{key_!r}]")
            env2[f"{dn}[{key_!r}]"] = Val(nm_, v.ty.with_elem(False))
            return f"{pad}let {nm_} := {v.code};\n" + self.block(rest, env2, k, ind)
        if isinstance(s, ast.Return) and isinstance(s.value, ast.Name) and s.value.id in env \
                and env[s.value.id].ty.kind == "dictrec":
            dn = s.value.id
            keys_ = self.dictrec_keys.get(dn, [])
            if not keys_:
                self.bad(s, "an empty dict is returned")
            vs = [env[f"{dn}[{k_!r}]"] for k_ in keys_]
            self.notes.append(f"line {s.lineno}: dict result as tuple in key order {keys_}")
            self.dict_keys = keys_
            rt = TUPLE(*[v_.ty for v_ in vs]) if len(vs) > 1 else vs[0].ty
            if self.ret_ty is not None and self.ret_ty != rt:
                self.bad(s, f"return types differ: {self.ret_ty} and {rt}")
            self.ret_ty = rt
            return pad + self.ret("(" + ", ".join(v_.code for v_ in vs) + ")")
        if isinstance(s, ast.Return):
            if s.value is None:
                self.bad(s, "bare return")
            if isinstance(s.value, ast.Call):
                cal = self.find_callee(dotted(s.value.func))
                if cal is not None and (self.tr.results.get(cal["lean"]) or {}).get("raises", False) and self.raises \
                        and not self.optional and "ret" not in self.spec:
                    # return f(…) with f a translated function that can raise: its result, exception included
                    vs = [self.expr(a_, env) for a_ in s.value.args]
                    kw_ = {k_.arg: k_.value for k_ in s.value.keywords}
                    v = self.tr.call(self, cal, vs, kw_, s.value, env, allow_raise=True)
                    rt = v.ty.with_elem(False)
                    if self.ret_ty is not None and self.ret_ty != rt:
                        self.bad(s, f"return types differ: {self.ret_ty} and {rt}")
                    self.ret_ty = rt
                    return pad + v.code
            if "ret" in self.spec:
                # declared result type (TARGETS.ret): every returned value is embedded into it (finite -> ELL.fin,
                # numpy.nan in an Option position -> none, a value there -> some)
                self.ret_ty = self.spec["ret"]
                return pad + self.ret(self.embed(s.value, self.spec["ret"], env, s))
            v = self.expr(s.value, env)
            if v.ty.kind == "none":
                # `return None` in live code: Optional result (`none`); the value returns become `some …`
                if not self.optional:
                    raise _NeedOptional()
                return pad + (f"(Except.ok none)" if self.raises else "none")
            if v.is_static and v.code is None:
                self.bad(s, f"return of a {v.ty} constant")
            if v.ty.kind not in ("pyobj", "string", "f64", "q", "int", "nat", "bool", "real", "ereal", "list", "tuple", "datetime", "timedelta",
                                 "option"):
                self.bad(s, f"return of {v.ty}")
            rt = v.ty.with_elem(False)
            if self.optional and rt.kind == "option":
                self.bad(s, "return of an Optional value from a function that also returns None itself")
            if self.ret_ty is None:
                self.ret_ty = rt
            elif self.ret_ty != rt:
                if self.ret_ty.kind == "f64" and v.ty.kind in ("int",) and v.lit is not None:
                    return pad + self.ret(self.to_f64(v, s))
                self.bad(s, f"return types differ: {self.ret_ty} and {rt}")
            return pad + self.ret(v.code)
        if isinstance(s, ast.Raise):
            exc = dotted(s.exc.func) if isinstance(s.exc, ast.Call) else dotted(s.exc) if s.exc is not None else None
            kind = {"ValueError": "valueError", "IndexError": "indexError", "AssertionError": "assertionError"}.get(exc, "other")
            if self.objects:
                kind = {"ValueError": "valueError", "KeyError": "keyError", "TypeError": "typeError",
                        "AttributeError": "attributeError"}.get(exc, "other")
            if self.elem_depth > 0:
                self.nonuniform_raise = True
            return f"{pad}(Except.error {self.err}.{kind})"
        if isinstance(s, ast.Assign):
            if len(s.targets) != 1:
                self.bad(s, "multiple assignment targets")
            t = s.targets[0]
            sv = s.value
            # a call of a raising translated function nested inside the expression is evaluated first, in a temporary
            inner = [n for n in ast.walk(sv) if n is not sv and isinstance(n, ast.Call)
                     and ((lambda c_: c_ is not None and (self.tr.results.get(c_["lean"]) or {}).get("raises", False))(
                         self.find_callee(dotted(n.func)))
                          or (self.spec.get("checked_datetime") and dotted(n.func) == "datetime.datetime" and len(n.args) == 6))]
            if len(inner) == 1 and self.raises:
                tmpn = self.fresh("h")

                class _Rep(ast.NodeTransformer):
                    def visit_Call(self_, n_):
                        if n_ is inner[0]:
                            return ast.copy_location(ast.Name(id=tmpn, ctx=ast.Load()), n_)
                        return self_.generic_visit(n_)
                pre = ast.copy_location(ast.Assign(targets=[ast.Name(id=tmpn, ctx=ast.Store())], value=inner[0]), s)
                new = ast.copy_location(ast.Assign(targets=s.targets, value=_Rep().visit(sv)), s)
                ast.fix_missing_locations(pre), ast.fix_missing_locations(new)
                return self.block([pre, new] + rest, env, k, ind)
            if self.spec.get("checked_datetime") and isinstance(t, ast.Name) and isinstance(sv, ast.Call) \
                    and dotted(sv.func) == "datetime.datetime" and len(sv.args) == 6 and not sv.keywords:
                # x = datetime.datetime(y, m, d, H, M, S): ValueError for fields outside the calendar / clock ranges
                if not self.raises:
                    self.bad(s, "datetime constructor in a definition declared not to raise")
                codes = [self.to_int(self.expr(a_, env), s) for a_ in sv.args]
                tmp = self.fresh("r")
                env2 = dict(env)
                env2[t.id] = Val(mangle(t.id), DATETIME)
                return (f"{pad}match (Py.mkDatetimeChecked " + " ".join(codes) + f" (0 : Int)) with\n"
                        f"{pad}| .error e_ => (Except.error e_)\n{pad}| .ok {tmp} =>\n"
                        f"{pad}  let {mangle(t.id)} := {tmp};\n" + self.block(rest, env2, k, ind + 1))
            if isinstance(t, ast.Name) and isinstance(sv, ast.Call) and isinstance(sv.func, ast.Attribute) \
                    and sv.func.attr == "replace" and not sv.args and [k_.arg for k_ in sv.keywords] == ["tzinfo"] \
                    and dotted(sv.keywords[0].value) == "datetime.timezone.utc" and isinstance(sv.func.value, ast.Call) \
                    and dotted(sv.func.value.func) == "datetime.datetime.strptime" and len(sv.func.value.args) == 2 \
                    and not sv.func.value.keywords:
                # x = datetime.datetime.strptime(s, fmt).replace(tzinfo=datetime.timezone.utc): ValueError propagates
                if not self.raises:
                    self.bad(s, "strptime in a definition declared not to raise")
                a_, f_ = [self.expr(x_, env) for x_ in sv.func.value.args]
                tmp = self.fresh("r")
                env2 = dict(env)
                env2[t.id] = Val(mangle(t.id), DATETIME)
                return (f"{pad}match (Py.strptimeUtc {self.to_string(a_, s)} {self.to_string(f_, s)}) with\n"
                        f"{pad}| .error e_ => (Except.error e_)\n{pad}| .ok {tmp} =>\n"
                        f"{pad}  let {mangle(t.id)} := {tmp};\n" + self.block(rest, env2, k, ind + 1))
            if isinstance(s.value, ast.Call) and isinstance(t, ast.Name):
                cal = self.find_callee(dotted(s.value.func))
                if cal is not None and (self.tr.results.get(cal["lean"]) or {}).get("raises", False):
                    # x = f(…) with f a translated function that can raise: the exception propagates
                    if not self.raises:
                        self.bad(s, "call of a raising function in a definition declared not to raise")
                    vs = [self.expr(a_, env) for a_ in s.value.args]
                    kw_ = {k_.arg: k_.value for k_ in s.value.keywords}
                    v = self.tr.call(self, cal, vs, kw_, s.value, env, allow_raise=True)
                    tmp = self.fresh("r")
                    env2 = dict(env)
                    env2[t.id] = Val(mangle(t.id), v.ty)
                    return (f"{pad}match {v.code} with\n{pad}| .error e_ => (Except.error e_)\n{pad}| .ok {tmp} =>\n"
                            f"{pad}  let {mangle(t.id)} := {tmp};\n" + self.block(rest, env2, k, ind + 1))
            v = self.expr(s.value, env)
            if isinstance(t, ast.Name):
                return self.bind(t.id, v, env, go, pad, s)
            if isinstance(t, ast.Tuple) and all(isinstance(x, ast.Name) for x in t.elts) and v.ty.kind == "tuple" \
                    and len(v.ty.item) == len(t.elts):
                tmp = self.fresh("t")
                env2 = dict(env)
                out = f"{pad}let {tmp} := {v.code};\n"
                n = len(t.elts)
                for i, x in enumerate(t.elts):
                    proj = tmp + "".join([".2"] * i) + (".1" if i < n - 1 else "")
                    env2[x.id] = Val(mangle(x.id), v.ty.item[i])
                    out += f"{pad}let {mangle(x.id)} := {proj};\n"
                return out + self.block(rest, env2, k, ind)
            if isinstance(t, ast.Attribute) and isinstance(t.value, ast.Name) and t.value.id in env \
                    and env[t.value.id].ty.kind == "record":
                # a field of a record object: a variable named `obj.field`
                key = f"{t.value.id}.{t.attr}"
                if v.is_static and v.code is None:
                    self.bad(s, f"store of a {v.ty} constant into {key}")
                nm = mangle(f"{t.value.id}_{t.attr}")
                env2 = dict(env)
                env2[key] = Val(nm, v.ty, lit=v.lit)
                return f"{pad}let {nm} := {v.code};\n" + self.block(rest, env2, k, ind)
            if isinstance(t, ast.Subscript) and isinstance(t.value, ast.Name):
                # x[mask] = v on an elementwise value: if mask then v else x
                name = t.value.id
                if name not in env:
                    self.bad(s, f"masked assignment to unknown {name}")
                cur = env[name]
                mask = self.expr(t.slice, env)
                if cur.ty.kind == "list" and mask.ty.kind in ("idxarr", "idxtuple") and v.ty.kind != "list":
                    # a[idx] = scalar for an index array
                    newv = self.coerce(v, cur.ty.item, s)
                    return self.bind(name, Val(f"(Py.put {cur.code} {mask.code} {newv})", cur.ty), env, go, pad, s)
                if not (cur.ty.elem and mask.ty.kind == "bool" and mask.ty.elem):
                    self.bad(s, f"subscript assignment {name}[{mask.ty}] on {cur.ty}: only boolean masks on elementwise values")
                newv = self.coerce(v, cur.ty, s)
                return self.bind(name, Val(f"(if {mask.code} then {newv} else {cur.code})", cur.ty), env, go, pad, s)
            self.bad(s, "assignment target")
        if isinstance(s, (ast.AugAssign, ast.Assign)) and (lambda t_: isinstance(t_, ast.Subscript) and isinstance(t_.value, ast.Name)
                and t_.value.id in env and env[t_.value.id].ty.kind == "fieldrec" and isinstance(t_.slice, ast.Constant)
                and isinstance(t_.slice.value, str))(s.target if isinstance(s, ast.AugAssign) else s.targets[0]):
            t_ = s.target if isinstance(s, ast.AugAssign) else s.targets[0]
            key_ = f"{t_.value.id}[{t_.slice.value!r}]"
            fty = self.field_types[key_]
            v = self.expr(s.value, env)
            if isinstance(s, ast.AugAssign):
                v = self.arith(s.op, env[key_], v, s)
            if v.ty.kind == "f64" and fty.kind == "int":
                v = Val(f"(Py.truncF {v.code})", INT)        # numpy casts the float into the integer field (truncation)
            code = self.coerce(v, fty, s)
            env2 = dict(env)
            nm_ = mangle(key_)
            env2[key_] = Val(nm_, fty)
            return f"{pad}let {nm_} := {code};\n" + self.block(rest, env2, k, ind)
        if isinstance(s, ast.AugAssign) and isinstance(s.target, ast.Name):
            cur = self.expr(s.target, env)
            v = self.lifted(s.op, cur, self.expr(s.value, env), s)
            return self.bind(s.target.id, v, env, go, pad, s)
        if isinstance(s, ast.If):
            c = self.expr(s.test, env)
            if c.is_static:
                live, dead = (s.body, s.orelse) if c.static else (s.orelse, s.body)
                if dead:
                    self.notes.append(f"line {s.lineno}: `{ast.unparse(s.test)}` is {bool(c.static)} under the specialisation; "
                                      f"the other branch (line {dead[0].lineno}) is not part of the definition")
                else:
                    self.notes.append(f"line {s.lineno}: `{ast.unparse(s.test)}` is {bool(c.static)} under the specialisation")
                return self.block(list(live) + rest, env, k, ind)
            cc = self.to_bool(c, s)
            if self.has_exit(s.body) or self.has_exit(s.orelse):
                self.elem_depth += 1 if c.ty.elem else 0
                a = self.block(list(s.body) + rest, dict(env), k, ind + 1)
                b = self.block(list(s.orelse) + rest, dict(env), k, ind + 1)
                self.elem_depth -= 1 if c.ty.elem else 0
                return f"{pad}if {cc} then\n{a}\n{pad}else\n{b}"
            na, nb = self.assigned(list(s.body)), self.assigned(list(s.orelse))
            # a name assigned in one branch only and undefined before is local to that branch (any later use is an
            # unknown name and stops the translation)
            names = [nm for nm in self.assigned(list(s.body) + list(s.orelse)) if nm in env or (nm in na and nm in nb)]
            if not names:
                self.bad(s, "if statement without effect on variables")
            ends = []

            def branch(body):
                def kk(env_end):
                    for nm in names:
                        if nm not in env_end:
                            self.bad(s, f"{nm} is assigned in one branch only and undefined before")
                    ends.append({nm: env_end[nm] for nm in names})
                    return ""
                # first pass to learn the types at the end of the branch
                self.block(list(body), dict(env), kk, ind + 1)
            save = (self.tmp, list(self.notes))
            branch(s.body), branch(s.orelse)
            self.tmp, self.notes = save
            tys = {}
            for nm in names:
                ta, tb = ends[0][nm].ty, ends[1][nm].ty
                if {ta.kind, tb.kind} <= {"str", "string"}:
                    tys[nm] = STRING     # a string that depends on the branch taken: a value
                elif {ta.kind, tb.kind} == {"string", "int"}:
                    tys[nm] = STRINT     # a str on one path, an int on the other
                elif ta == tb:
                    tys[nm] = ta.with_elem(ta.elem or tb.elem)
                elif {ta.kind, tb.kind} <= {"real", "nat", "int"} and "real" in (ta.kind, tb.kind):
                    tys[nm] = Ty("real", ta.elem or tb.elem)     # int(n_obs) in one branch, numpy.sum(float array) in the other
                else:
                    self.bad(s, f"{nm} has type {ta} in one branch and {tb} in the other")

            def emit(body):
                def kk(env_end):
                    vals = [self.coerce(env_end[nm], tys[nm], s) for nm in names]
                    tup = "(" + ", ".join(vals) + ")" if len(vals) > 1 else vals[0]
                    return "  " * (ind + 1) + (f"(Except.ok {tup})" if self.objects else tup)
                return self.block(list(body), dict(env), kk, ind + 1)
            a, b = emit(s.body), emit(s.orelse)
            env2 = dict(env)
            if self.objects:
                # object layer: the statements of a branch can raise; the branch is an Except-valued term
                tmp = self.fresh("br")
                out = (f"{pad}match (if {cc} then\n{a}\n{pad}else\n{b}) with\n{pad}| .error e_ => (Except.error e_)\n"
                       f"{pad}| .ok {tmp} =>\n")
                n = len(names)
                for i, nm in enumerate(names):
                    proj = tmp if n == 1 else tmp + "".join([".2"] * i) + (".1" if i < n - 1 else "")
                    env2[nm] = Val(mangle(nm), tys[nm])
                    out += f"{pad}let {mangle(nm)} := {proj};\n"
            elif len(names) == 1:
                env2[names[0]] = Val(mangle(names[0]), tys[names[0]])
                out = f"{pad}let {mangle(names[0])} := (if {cc} then\n{a}\n{pad}else\n{b});\n"
            else:
                tmp = self.fresh("br")
                out = f"{pad}let {tmp} := (if {cc} then\n{a}\n{pad}else\n{b});\n"
                n = len(names)
                for i, nm in enumerate(names):
                    proj = tmp + "".join([".2"] * i) + (".1" if i < n - 1 else "")
                    env2[nm] = Val(mangle(nm), tys[nm])
                    out += f"{pad}let {mangle(nm)} := {proj};\n"
            return out + self.block(rest, env2, k, ind)
        if isinstance(s, ast.Try) and not s.orelse and not s.finalbody and len(s.handlers) == 1 \
                and s.handlers[0].type is None and all(isinstance(h_, ast.Pass) for h_ in s.handlers[0].body) \
                and len(s.body) == 2 and isinstance(s.body[0], ast.Assign) and isinstance(s.body[1], ast.Return) \
                and isinstance(s.body[0].value, ast.Call) and len(s.body[0].targets) == 1 \
                and isinstance(s.body[0].targets[0], ast.Name) and isinstance(s.body[1].value, ast.Name) \
                and s.body[1].value.id == s.body[0].targets[0].id:
            # try: x = f(…); return x / except: pass — the value if f returns, the following statements if f raises
            cal = self.find_callee(dotted(s.body[0].value.func))
            if cal is None or not (self.tr.results.get(cal["lean"]) or {}).get("raises", False) or not self.raises:
                self.bad(s, "try around something other than a call of a raising translated function")
            vs = [self.expr(a_, env) for a_ in s.body[0].value.args]
            kw_ = {k_.arg: k_.value for k_ in s.body[0].value.keywords}
            v = self.tr.call(self, cal, vs, kw_, s.body[0].value, env, allow_raise=True)
            rt = v.ty.with_elem(False)
            if self.ret_ty is not None and self.ret_ty != rt:
                self.bad(s, f"return types differ: {self.ret_ty} and {rt}")
            self.ret_ty = rt
            tmp = self.fresh("r")
            return (f"{pad}match {v.code} with\n{pad}| .ok {tmp} => (Except.ok {tmp})\n{pad}| .error _ =>\n"
                    + self.block(rest, env, k, ind + 1))
        if isinstance(s, ast.Try) and not s.orelse and not s.finalbody and len(s.handlers) == 1 and len(s.body) == 1 \
                and isinstance(s.body[0], ast.Assign) and len(s.body[0].targets) == 1 \
                and isinstance(s.body[0].targets[0], ast.Name) and s.handlers[0].type is None \
                and all(isinstance(h_, ast.Pass) for h_ in s.handlers[0].body) \
                and isinstance(s.body[0].value, ast.Call) and isinstance(s.body[0].value.func, ast.Attribute) \
                and s.body[0].value.func.attr == "decode" and isinstance(s.body[0].value.func.value, ast.Name) \
                and s.body[0].value.func.value.id in env and env[s.body[0].value.func.value.id].ty.kind == "string":
            # try: x = s.decode(…) / except: pass, s a str: str has no .decode — AttributeError, caught; nothing happens
            self.notes.append(f"line {s.lineno}: `{ast.unparse(s.body[0].value)}` on a str raises AttributeError, which the bare "
                              f"`except: pass` swallows: no effect")
            return go(env)
        if (self.objects or self.spec.get("checked_index")) and isinstance(s, ast.Try) and not s.orelse and not s.finalbody and len(s.handlers) == 1 \
                and len(s.body) == 1 and isinstance(s.body[0], ast.Assign) and len(s.handlers[0].body) == 1 \
                and isinstance(s.handlers[0].body[0], ast.Assign) and dotted(s.handlers[0].type) in (
                    "AttributeError", "KeyError", "TypeError", "ValueError") \
                and isinstance(s.body[0].targets[0], ast.Name) and isinstance(s.handlers[0].body[0].targets[0], ast.Name) \
                and s.body[0].targets[0].id == s.handlers[0].body[0].targets[0].id:
            # try: x = e1 / except E: x = e2 — e2 is evaluated iff e1 raises E; another exception of e1 propagates
            name = s.body[0].targets[0].id
            terms = []
            tys_ = []
            for ex in (s.body[0].value, s.handlers[0].body[0].value):
                save, self.pending = self.pending, []
                v_ = self.expr(ex, env)
                tys_.append(v_.ty.with_elem(False))
                terms.append(self.wrap_pending(self.pending, f"(Except.ok {self.to_pyobj(v_, s) if self.objects else v_.code})"))
                self.pending = save
            if not self.objects and (tys_[0] != tys_[1] or tys_[0].kind not in ("int", "f64", "string")):
                self.bad(s, f"try / except assigning {tys_[0]} and {tys_[1]}")
            kind = {"ValueError": "valueError", "KeyError": "keyError", "TypeError": "typeError",
                    "AttributeError": "attributeError"}[dotted(s.handlers[0].type)]
            if not self.objects and kind != "valueError":
                self.bad(s, f"handler of {dotted(s.handlers[0].type)} outside the object layer")
            v = self.raising(f"(Py.tryCatch {terms[0]} {self.err}.{kind} {terms[1]})", PYOBJ if self.objects else tys_[0])
            return self.bind(name, v, env, go, pad, s)
        if self.objects and isinstance(s, ast.Try) and not s.orelse and not s.finalbody and len(s.handlers) == 1 \
                and len(s.body) == 1 and isinstance(s.body[0], ast.Assign) and len(s.body[0].targets) == 1 \
                and isinstance(s.body[0].targets[0], ast.Name) and len(s.handlers[0].body) == 1 \
                and isinstance(s.handlers[0].body[0], ast.Raise) and s.handlers[0].body[0].exc is not None \
                and (s.handlers[0].type is None or dotted(s.handlers[0].type) in ("Exception", "BaseException")):
            # try: x = e1 / except: raise E(...) — every exception of e1 becomes E (`other` = not modelled stays)
            ex_ = s.handlers[0].body[0].exc
            exc = dotted(ex_.func) if isinstance(ex_, ast.Call) else dotted(ex_)
            kind = {"ValueError": "valueError", "KeyError": "keyError", "TypeError": "typeError",
                    "AttributeError": "attributeError"}.get(exc)
            if kind is None:
                self.bad(s, f"handler raises {exc}")
            save, self.pending = self.pending, []
            try:
                v_ = self.expr(s.body[0].value, env)
                term = self.wrap_pending(self.pending, f"(Except.ok {self.to_pyobj(v_, s)})")
            finally:
                self.pending = save
            v = self.raising(f"(Py.tryRaise {term} {self.err}.{kind})", PYOBJ)
            return self.bind(s.body[0].targets[0].id, v, env, go, pad, s)
        if isinstance(s, ast.Try) and not self.objects and not s.orelse and not s.finalbody and len(s.handlers) == 1 \
                and len(s.body) == 1 and isinstance(s.body[0], ast.Assign) and len(s.body[0].targets) == 1 \
                and isinstance(s.body[0].targets[0], ast.Name) and isinstance(s.body[0].value, ast.Call) \
                and s.handlers[0].type is not None and s.handlers[0].body \
                and isinstance(s.handlers[0].body[-1], ast.Raise) and s.handlers[0].body[-1].exc is not None \
                and all(isinstance(h_, ast.Assign) and len(h_.targets) == 1 and isinstance(h_.targets[0], ast.Name)
                        for h_ in s.handlers[0].body[:-1]):
            # try: x = f(…) / except (E1, E2): msg = …; raise E(msg) — f a translated raising function: its exceptions of the
            # named classes become E; the handler's assignments only build the message
            hty = s.handlers[0].type
            names_ = [dotted(t_) for t_ in (hty.elts if isinstance(hty, ast.Tuple) else [hty])]
            kinds = {"ValueError": "valueError", "IndexError": "indexError", "AssertionError": "assertionError"}
            frm = [kinds[n_] for n_ in names_ if n_ in kinds]
            rest_names = [n_ for n_ in names_ if n_ not in kinds]
            if any(n_ not in ("TypeError", "KeyError", "AttributeError") for n_ in rest_names):
                self.bad(s, f"handler of {rest_names}")
            msg_names = {h_.targets[0].id for h_ in s.handlers[0].body[:-1]}
            ex_ = s.handlers[0].body[-1].exc
            exc = dotted(ex_.func) if isinstance(ex_, ast.Call) else dotted(ex_)
            to = kinds.get(exc, "other")
            cal = self.find_callee(dotted(s.body[0].value.func))
            if cal is None or not (self.tr.results.get(cal["lean"]) or {}).get("raises", False) or not self.raises:
                self.bad(s, "try around something other than a call of a raising translated function")
            vs = [self.expr(a_, env) for a_ in s.body[0].value.args]
            kw_ = {k_.arg: k_.value for k_ in s.body[0].value.keywords}
            v = self.tr.call(self, cal, vs, kw_, s.body[0].value, env, allow_raise=True)
            if rest_names:
                self.notes.append(f"line {s.lineno}: {', '.join(rest_names)} cannot come out of `{cal['func']}` as translated "
                                  f"(its exceptions are {self.err}); only {[n_ for n_ in names_ if n_ in kinds]} is re-raised")
            if msg_names & set(env):
                self.bad(s, "the handler assigns a variable of the function")
            lst = "[" + ", ".join(f"{self.err}.{k_}" for k_ in frm) + "]"
            v2 = self.raising(f"(Py.reraise {v.code} {lst} {self.err}.{to})", v.ty.with_elem(False))
            return self.bind(s.body[0].targets[0].id, v2, env, go, pad, s)
        if isinstance(s, ast.With):
            for it in s.items:
                if not (isinstance(it.context_expr, ast.Call) and dotted(it.context_expr.func) in ("numpy.errstate", "np.errstate")
                        and it.optional_vars is None):
                    self.bad(s, "with statement other than numpy.errstate(...) (which only controls warnings)")
            return self.block(list(s.body) + rest, env, k, ind)
        if isinstance(s, ast.For):
            if s.orelse or self.has_exit(s.body) or not isinstance(s.target, ast.Name) or \
                    any(isinstance(n, (ast.Break, ast.Continue)) for x in s.body for n in ast.walk(x)):
                self.bad(s, "for loop with exits / else / tuple target")
            it = self.expr(s.iter, env)
            if it.ty.kind != "list":
                self.bad(s, f"for loop over {it.ty}")
            names = [n for n in self.assigned(s.body)]
            if len(names) != 1 or names[0] not in env:
                self.bad(s, "for loop must update exactly one already defined variable")
            nm = names[0]
            env_in = dict(env)
            env_in[s.target.id] = Val(mangle(s.target.id), it.ty.item)
            env_in[nm] = Val(mangle(nm), env[nm].ty)

            def kk(env_end):
                if env_end[nm].ty != env[nm].ty:
                    self.bad(s, f"loop variable {nm} changes type")
                return "  " * (ind + 1) + env_end[nm].code
            body = self.block(list(s.body), env_in, kk, ind + 1)
            v = Val(f"(List.foldl (fun {mangle(nm)} {mangle(s.target.id)} =>\n{body}) {env[nm].code} {it.code})", env[nm].ty)
            return self.bind(nm, v, env, go, pad, s)
        self.bad(s, f"statement {type(s).__name__} is not translated")

    def bind(self, name, v, env, go, pad, node):
        if v.is_static and v.code is None:
            env2 = dict(env)
            env2[name] = v
            return go(env2)
        if v.ty.kind == "selfcall":
            env2 = dict(env)
            env2[name] = v
            return go(env2)
        if v.ty.kind in ("idxtuple", "idxarr"):
            env2 = dict(env)
            env2[name] = Val(mangle(name), v.ty)
            return f"{pad}let {mangle(name)} := {v.code};\n" + go(env2)
        if v.ty.kind in ("tzinfo", "tzstr", "monthrange", "utc", "unused"):
            self.bad(node, f"variable of helper type {v.ty}")
        env2 = dict(env)
        # a literal keeps its literal-ness (so that later mixed arithmetic converts it exactly)
        env2[name] = Val(mangle(name), v.ty, lit=v.lit)
        if getattr(v, "dict_keys", None):
            env2[name].dict_keys = v.dict_keys
        if getattr(v, "src_expr", None):
            env2[name].src_expr = v.src_expr      # a plain copy of an expression parameter
        return f"{pad}let {mangle(name)} := {v.code};\n" + go(env2)

    # ---------------------------------------------------------------- whole function
    def translate(self):
        spec, node = self.spec, self.node
        params = spec["params"]
        argnames = [a.arg for a in node.args.args]
        if node.args.vararg or node.args.kwarg or node.args.kwonlyargs:
            self.bad(node, "*args / **kwargs")
        missing = [a for a in argnames if a not in params]
        if missing:
            self.bad(node, f"parameters {missing} have no specialisation in TARGETS")
        extra = [p for p in params if p not in argnames and not p.startswith("@")]
        if extra:
            self.bad(node, f"TARGETS names parameters {extra} the function does not have")
        env, lean_params = {}, []
        for a in argnames:
            t = params[a]
            if isinstance(t, dict) and "fields" in t:
                # one row of a numpy structured array: every field is a parameter; a store casts to the field's dtype
                env[a] = Val(None, Ty("fieldrec"), static="fieldrec")
                self.field_types = getattr(self, "field_types", {})
                for key_, ty_ in t["fields"].items():
                    k_ = f"{a}[{key_!r}]"
                    env[k_] = Val(mangle(f"{a}_{key_}"), ty_)
                    self.field_types[k_] = ty_
                    lean_params.append((mangle(f"{a}_{key_}"), ty_))
                continue
            if isinstance(t, dict):   # static value
                v = t["static"]
                env[a] = Val(None, NONE if v is None else (BOOL if isinstance(v, bool) else
                                                           Ty("statictuple") if isinstance(v, tuple) else STR), static=v)
                if isinstance(v, bool):
                    env[a] = Val("true" if v else "false", BOOL, static=v)
                continue
            if t.kind == "none":
                env[a] = Val(None, NONE, static=None)
                continue
            if t.kind == "record":
                env[a] = Val(None, t, static="record")
                continue
            if t.kind in ("unused", "object"):
                # unused: not read by the sliced statements; object: only read through the expressions of
                # spec["expr_params"] (any other use stops the translation)
                env[a] = Val(f"<{a}>", t)
                continue
            env[a] = Val(mangle(a), t)
            self.param_vals[a] = env[a]
            lean_params.append((mangle(a), t))
            if a in spec.get("shapes", {}):
                lean_params.append((spec["shapes"][a], LIST(NAT)))
        for src_, (nm_, ty_) in spec.get("opaque_consts", {}).items():
            lean_params.insert(0, (nm_, ty_))
            self.notes.append(f"`{src_}` is the opaque constant parameter `{nm_}` : {ty_}")
        for src_, (nm_, ty_) in spec.get("expr_params", {}).items():
            lean_params.append((nm_, ty_))
            self.notes.append(f"`{src_}` is the parameter `{nm_}` : {ty_}")
        self.notes.extend(getattr(node, "_opaque_notes", []))
        body = list(node.body)
        if "slice_call" in spec:
            # the result is the tuple of the positional arguments of the (unique) call of the named function: independent
            # of the names of the locals that are passed
            calls = [n for st_ in body for n in ast.walk(st_) if isinstance(n, ast.Call) and dotted(n.func) == spec["slice_call"]]
            if len(calls) != 1 or calls[0].keywords:
                self.bad(node, f"expected exactly one positional call of {spec['slice_call']}")
            extra = list(spec.get("slice_extra", []))
            spec = dict(spec, slice_result="(" + ", ".join([ast.unparse(a) for a in calls[0].args] + extra)
                        + ("," if len(calls[0].args) + len(extra) == 1 else "") + ")")
            self.spec = spec
            self.notes.append(f"result: the arguments of the call `{ast.unparse(calls[0])}`"
                              + (f", then {', '.join(extra)}" if extra else ""))
        if "slice_result" in spec and spec.get("slice_keep_all"):
            # every statement is part of the definition except the statement of the call itself
            drop = [st_ for st_ in body if any(n is calls[0] for n in ast.walk(st_))]
            for st_ in drop:
                self.notes.append(f"line {st_.lineno}: the call statement itself is not part of the definition")
            body = [st_ for st_ in body if st_ not in drop]
        elif "slice_result" in spec:
            body = self.slice(body, spec["slice_result"])
            self.notes.append("slicing assumes that the statements left out do not mutate the kept arrays in place")
        self.has_continue = "for_body" in spec and any(isinstance(n, ast.Continue) for st_ in body for n in ast.walk(st_))
        if self.has_continue:
            self.notes.append("`continue`: the result is `none` (this pass of the loop produces nothing), otherwise `some …`")
        def calls_raising(n):
            if not isinstance(n, ast.Call):
                return False
            cal = self.find_callee(dotted(n.func))
            return cal is not None and (self.tr.results.get(cal["lean"]) or {}).get("raises", False)
        self.raises = any(isinstance(n, ast.Raise) or calls_raising(n) or
                          (isinstance(n, ast.Call) and dotted(n.func) == "datetime.datetime.strptime") or
                          (isinstance(n, ast.Call) and dotted(n.func) == "datetime.datetime" and spec.get("checked_datetime"))
                          for s in body for n in ast.walk(s)) \
            and spec.get("raises", True)
        if self.objects or spec.get("checked_index"):
            self.raises = True

        def k_end(env_end):
            if "slice_result" in spec:
                v = self.expr(ast.parse(spec["slice_result"], mode="eval").body, env_end)
                self.ret_ty = v.ty.with_elem(False)
                if self.has_continue:
                    self.ret_ty = OPTION(self.ret_ty)
                    return "  " + self.ret(f"(some {v.code})")
                return "  " + self.ret(v.code)
            self.bad(node, "control reaches the end of the function without return")
        code = self.block(body, env, k_end, 1)
        if any(t.uses_real() for _, t in lean_params) or (self.ret_ty and self.ret_ty.uses_real()):
            self.uses_real = True
        opq = [(o["lean"], o["sig"]) for o in spec.get("opaque", {}).values()]
        seen, opq_params = set(), []
        for nm, sig in opq:
            if nm not in seen:
                seen.add(nm)
                opq_params.append(f"({nm} : {sig})")
        if self.optional:
            if self.ret_ty is None:
                self.bad(node, "the function returns None only")
            self.ret_ty = OPTION(self.ret_ty)
            self.notes.append("Optional result: `return None` is `none`, `return v` is `some v`")
        rt = self.ret_ty.lean()
        if self.raises:
            rt = f"Except {self.err} {_paren(rt)}"
        sig = " ".join(([("{α : Type} [RealOps α]")] if self.uses_real else []) + opq_params +
                       [f"({a} : {t.lean()})" for a, t in lean_params])
        head = [f"/-- `{self.name}` — {self.relfile}:{node.lineno}-{node.end_lineno}",
                "    specialisation: " + ", ".join(
                    f"{a} : {params[a] if not isinstance(params[a], dict) else ('record ' + str(params[a]['fields']) if 'fields' in params[a] else '= ' + repr(params[a]['static']))}"
                    for a in argnames)]
        for n in self.notes:
            head.append("    " + n)
        head.append("-/")
        text = "\n".join(head) + f"\ndef {spec['lean']} {sig} : {rt} :=\n{code}\n"
        hs = getattr(node, "_opaque_hashes", None)
        if hs:
            # pinned by the theorem `Src.<f>_helpers_pinned`: a change of an opaque nested helper loses the tie
            text += (f"/-- digests of the nested helper definitions that are opaque parameters of `{spec['lean']}` -/\n"
                     f"def {spec['lean']}_helpers : List (String × String) := ["
                     + ", ".join(f'("{a}", "{b}")' for a, b in hs) + "]\n")
        return text

    def slice(self, body, result_expr):
        """backward slice: keep the top-level statements the result expression depends on (through the variables they
        assign) and those that contain a `raise`; the statements left out are listed in the header"""
        need = self.reads(ast.parse(result_expr, mode="eval"))
        keep = [False] * len(body)
        for i in range(len(body) - 1, -1, -1):
            s = body[i]
            if isinstance(s, ast.Expr) and isinstance(s.value, ast.Constant):
                continue
            asg = set(self.assigned([s]))
            exits = any(isinstance(n, ast.Raise) for n in ast.walk(s))
            if asg & need or exits:     # a statement that can raise decides whether there is a result at all
                keep[i] = True
                if not isinstance(s, (ast.If, ast.For, ast.AugAssign)) and not any(
                        isinstance(n, ast.Subscript) and isinstance(n.ctx, ast.Store) for n in ast.walk(s)):
                    need -= asg
                need |= self.reads(s)
        # a statement that is left out must not be able to change a kept variable through a call with side effects:
        # left-out statements are only assignments / loops / ifs / expression statements; list them
        for i, s in enumerate(body):
            if not keep[i] and not (isinstance(s, ast.Expr) and isinstance(s.value, ast.Constant)):
                self.notes.append(f"line {s.lineno}: not in the backward slice of `{result_expr}`: "
                                  f"{ast.unparse(s).splitlines()[0][:70]}")
        return [s for i, s in enumerate(body) if keep[i]]


# ----------------------------------------------------------------------------- targets
# file, function, Lean name (in namespace Src), owning property (+ others that read it), parameter specialisation.
# A parameter given as {"static": v} is fixed to the Python value v (not a parameter of the Lean definition).
TARGETS = [
    dict(file="csep/utils/calc.py", func="_get_tolerance", lean="get_tolerance", prop="C02", also=["C01", "C03"],
         params=dict(v=F64E), elementwise=True),
    dict(file="csep/utils/calc.py", func="bin1d_vec", lean="bin1d_vec", prop="C02", also=["C01", "C03"],
         params=dict(p=F64E, bins=LIST(F64), tol={"static": None}, right_continuous=BOOL)),
    dict(file="csep/utils/calc.py", func="cleaner_range", lean="cleaner_range", prop="C02", also=[],
         params={"start": F64, "end": F64, "h": F64},
         opaque={"num_decimals": dict(lean="num_decimals", sig="Rat → Int", args=[F64], ret=INT)},
         local_defs_opaque=["num_decimals"]),
    # float64 data and edges; a single edge (IndexError at `bin_edges[1]`) is outside the specialisation
    dict(file="csep/utils/calc.py", func="discretize", lean="discretize", prop="C02", also=[],
         params=dict(data=LIST(F64), bin_edges=LIST(F64), right_continuous=BOOL)),
    # C01: one polygon's vertices (origin_point an (x, y) pair of float64; tol passed explicitly, default numpy.finfo(float).eps)
    dict(file="csep/core/regions.py", func="compute_vertex", lean="compute_vertex", prop="C01", also=[],
         params=dict(origin_point=TUPLE(F64, F64), dh=F64, tol=F64)),
    # C01: methods of CartesianGrid2D; `self` is read only through the listed attributes (float64 arrays)
    dict(file="csep/core/regions.py", func="CartesianGrid2D.get_index_of", lean="get_index_of", prop="C01", also=[],
         params=dict(self=OBJECT, lons=LIST(F64), lats=LIST(F64)),
         expr_params={"self.xs": ("xs", LIST(F64)), "self.ys": ("ys", LIST(F64)),
                      "self.bbox_mask": ("bbox_mask", LIST(LIST(F64))), "self.idx_map": ("idx_map", LIST(LIST(F64)))}),
    dict(file="csep/core/regions.py", func="CartesianGrid2D.get_masked", lean="get_masked", prop="C01", also=[],
         params=dict(self=OBJECT, lons=LIST(F64), lats=LIST(F64)),
         expr_params={"self.xs": ("xs", LIST(F64)), "self.ys": ("ys", LIST(F64)),
                      "self.bbox_mask": ("bbox_mask", LIST(LIST(F64)))}),
    dict(file="csep/utils/time_utils.py", func="datetime_to_utc_epoch", lean="datetime_to_utc_epoch", prop="C15",
         also=["C14", "C04"], params=dict(dt=DATETIME)),
    dict(file="csep/utils/time_utils.py", func="epoch_time_to_utc_datetime", lean="epoch_time_to_utc_datetime", prop="C15",
         also=["C14", "C04"], params=dict(epoch_time_milli=INT), statics={"os.name": "posix"}),
    dict(file="csep/utils/time_utils.py", func="decimal_year", lean="decimal_year", prop="C15", also=[],
         params=dict(test_date=DATETIME)),
    dict(file="csep/utils/time_utils.py", func="parse_string_format", lean="parse_string_format", prop="C15", also=[],
         params=dict(time_string=STRING)),
    dict(file="csep/utils/time_utils.py", func="strptime_to_utc_datetime", lean="strptime_to_utc_datetime", prop="C15", also=[],
         params=dict(time_string=STRING, format=STRING)),
    dict(file="csep/utils/time_utils.py", func="strptime_to_utc_epoch", lean="strptime_to_utc_epoch", prop="C15", also=[],
         params=dict(time_string=STRING, format=STRING)),
    dict(file="csep/utils/time_utils.py", func="millis_to_days", lean="millis_to_days", prop="C15", also=[], params=dict(millis=INT)),
    dict(file="csep/utils/time_utils.py", func="days_to_millis", lean="days_to_millis_f", prop="C15", also=[],
         label="days_to_millis[float]", params=dict(days=F64)),
    dict(file="csep/utils/time_utils.py", func="days_to_millis", lean="days_to_millis_i", prop="C15", also=[],
         label="days_to_millis[int]", params=dict(days=INT)),
    dict(file="csep/utils/time_utils.py", func="timedelta_from_years", lean="timedelta_from_years", prop="C15", also=[],
         params=dict(time_in_years=F64)),
    dict(file="csep/utils/time_utils.py", func="decimal_year_to_utc_datetime", lean="decimal_year_to_utc_datetime", prop="C15",
         also=[], params=dict(decimal_date=F64)),
    dict(file="csep/utils/time_utils.py", func="decimal_year_to_utc_epoch", lean="decimal_year_to_utc_epoch", prop="C15",
         also=[], params=dict(decimal_date=F64)),
    dict(file="csep/core/poisson_evaluations.py", func="_number_test_ndarray", lean="number_test_ndarray", prop="C07", also=[],
         params=dict(fore_cnt=REAL, obs_cnt=NAT, epsilon=REAL),
         opaque={"scipy.stats.poisson.cdf": dict(lean="poisson_cdf", sig="α → α → α", args=[REAL, REAL], ret=REAL)}),
    dict(file="csep/core/binomial_evaluations.py", func="_nbd_number_test_ndarray", lean="nbd_number_test_ndarray", prop="C07",
         also=[], params=dict(fore_cnt=REAL, obs_cnt=NAT, variance=REAL, epsilon=REAL),
         opaque={"scipy.stats.nbinom.cdf": dict(lean="nbinom_cdf", sig="α → α → α → α", args=[REAL, REAL, REAL], ret=REAL,
                                                fixed_kw={"loc": 0})}),
    # the public gridded N-tests: backward slice of what is stored in the result (`quantile`, `observed_statistic`, the
    # forecast count); the two objects are read only through `.event_count`
    dict(file="csep/core/poisson_evaluations.py", func="number_test", lean="number_test", prop="C07", also=[],
         slice_result="(result.quantile, result.observed_statistic, fore_cnt)", records=("EvaluationResult",),
         params=dict(gridded_forecast=OBJECT, observed_catalog=OBJECT),
         expr_params={"gridded_forecast.event_count": ("fore_cnt'", REAL), "observed_catalog.event_count": ("obs_cnt'", NAT)},
         opaque={"scipy.stats.poisson.cdf": dict(lean="poisson_cdf", sig="α → α → α", args=[REAL, REAL], ret=REAL)}),
    dict(file="csep/core/binomial_evaluations.py", func="negative_binomial_number_test", lean="negative_binomial_number_test",
         prop="C07", also=[], slice_result="(result.quantile, result.observed_statistic, fore_cnt)", records=("EvaluationResult",),
         params=dict(gridded_forecast=OBJECT, observed_catalog=OBJECT, variance=REAL),
         expr_params={"gridded_forecast.event_count": ("fore_cnt'", REAL), "observed_catalog.event_count": ("obs_cnt'", NAT)},
         opaque={"scipy.stats.nbinom.cdf": dict(lean="nbinom_cdf", sig="α → α → α → α", args=[REAL, REAL, REAL], ret=REAL,
                                                fixed_kw={"loc": 0})}),
    dict(file="csep/core/poisson_evaluations.py", func="_t_test_ndarray", lean="t_test_ndarray", prop="C08", also=[],
         params=dict(target_event_rates1=LIST(REAL), target_event_rates2=LIST(REAL), n_obs=REAL, n_f1=REAL, n_f2=REAL,
                     alpha=REAL),
         opaque={"scipy.stats.t.ppf": dict(lean="t_ppf", sig="α → α → α", args=[REAL, REAL], ret=REAL)}),
    # the public paired T-test: the three objects are read only through target_event_rates(...) and .event_count
    dict(file="csep/core/poisson_evaluations.py", func="paired_t_test", lean="paired_t_test", prop="C08", also=[],
         slice_result="(result.test_distribution, result.observed_statistic, result.quantile)", records=("EvaluationResult",),
         params=dict(forecast=OBJECT, benchmark_forecast=OBJECT, observed_catalog=OBJECT, alpha=REAL, scale=UNUSED),
         expr_params={"forecast.target_event_rates(observed_catalog, scale=scale)": ("ter1", TUPLE(LIST(REAL), REAL)),
                      "benchmark_forecast.target_event_rates(observed_catalog, scale=scale)": ("ter2", TUPLE(LIST(REAL), REAL)),
                      "observed_catalog.event_count": ("n_obs", NAT)},
         opaque={"scipy.stats.t.ppf": dict(lean="t_ppf", sig="α → α → α", args=[REAL, REAL], ret=REAL)}),
    # the public W-test up to the call of _w_test_ndarray: backward slice of its two arguments (float64; numpy.log opaque)
    dict(file="csep/core/poisson_evaluations.py", func="w_test", lean="w_test_inputs", prop="C08", also=[],
         slice_call="_w_test_ndarray",
         params=dict(gridded_forecast1=OBJECT, gridded_forecast2=OBJECT, observed_catalog=OBJECT, scale=UNUSED),
         expr_params={"gridded_forecast1.target_event_rates(observed_catalog, scale=scale)": ("ter1", TUPLE(LIST(F64), F64)),
                      "gridded_forecast2.target_event_rates(observed_catalog, scale=scale)": ("ter2", TUPLE(LIST(F64), F64)),
                      "observed_catalog.event_count": ("n_obs", NAT),
                      "gridded_forecast1.event_count": ("n1", F64), "gridded_forecast2.event_count": ("n2", F64)},
         opaque={"numpy.log": dict(lean="np_log", sig="Rat → Rat", args=[F64], ret=F64)}),
    # the Wilcoxon signed-rank core: float64 differences; ranks, rank sums (numpy.sum = pairwise float sum), counts and the tie
    # correction in float64 / int64 (Soft64 layer); from `numpy.sqrt(se / 24)` on the real layer (TARGETS.real_from)
    dict(file="csep/core/poisson_evaluations.py", func="_w_test_ndarray", lean="w_test_ndarray", prop="C08", also=[],
         params=dict(x=LIST(F64), m=F64), real_from="numpy.sqrt",
         opaque={"scipy.stats.distributions.norm.sf": dict(lean="norm_sf", sig="α → α", args=[REAL], ret=REAL)}),
    # the binary T-test core: `catalog` is read only through `catalog.spatial_magnitude_counts()` (a count array parameter)
    dict(file="csep/core/binomial_evaluations.py", func="matrix_binary_t_test", lean="matrix_binary_t_test", prop="C08",
         also=[], params=dict(target_event_rates1=LIST(REAL), target_event_rates2=LIST(REAL), n_obs=REAL, n_f1=REAL, n_f2=REAL,
                              catalog=OBJECT, alpha=REAL),
         expr_params={"catalog.spatial_magnitude_counts()": ("counts", LIST(NAT))},
         opaque={"scipy.stats.t.ppf": dict(lean="t_ppf", sig="α → α → α", args=[REAL, REAL], ret=REAL)}),
    dict(file="csep/core/binomial_evaluations.py", func="binary_paired_t_test", lean="binary_paired_t_test", prop="C08", also=[],
         slice_result="(result.test_distribution, result.observed_statistic, result.quantile)", records=("EvaluationResult",),
         params=dict(forecast=OBJECT, benchmark_forecast=OBJECT, observed_catalog=OBJECT, alpha=REAL, scale=UNUSED),
         expr_params={"forecast.target_event_rates(observed_catalog, scale=scale)": ("ter1", TUPLE(LIST(REAL), REAL)),
                      "benchmark_forecast.target_event_rates(observed_catalog, scale=scale)": ("ter2", TUPLE(LIST(REAL), REAL)),
                      "forecast.data": ("data1", LIST(REAL)), "benchmark_forecast.data": ("data2", LIST(REAL)),
                      "observed_catalog.spatial_magnitude_counts()": ("counts", LIST(NAT)),
                      "observed_catalog.event_count": ("n_obs", NAT)},
         opaque={"scipy.stats.t.ppf": dict(lean="t_ppf", sig="α → α → α", args=[REAL, REAL], ret=REAL)}),
    dict(file="csep/core/brier_evaluations.py", func="_brier_score_ndarray", lean="brier_score_ndarray", prop="C16", also=[],
         params=dict(forecast=LIST(REAL), observations=LIST(NAT)), shapes={"observations": "dims"}),
    dict(file="csep/utils/stats.py", func="poisson_joint_log_likelihood_ndarray", lean="poisson_joint_log_likelihood_ndarray",
         prop="C05", also=[], params=dict(target_event_log_rates=LIST(EREAL), target_observations=LIST(NAT), n_fore=REAL)),
    dict(file="csep/core/binomial_evaluations.py", func="binary_joint_log_likelihood_ndarray",
         lean="binary_joint_log_likelihood_ndarray", prop="C16", also=[],
         params=dict(forecast=LIST(REAL), catalog=LIST(NAT))),
    dict(file="csep/utils/stats.py", func="min_or_none", lean="min_or_none", prop="C09", also=[], params=dict(x=LIST(F64))),
    dict(file="csep/utils/stats.py", func="max_or_none", lean="max_or_none", prop="C09", also=[], params=dict(x=LIST(F64))),
    dict(file="csep/utils/stats.py", func="sup_dist", lean="sup_dist", prop="C09", also=[],
         params=dict(cdf1=LIST(F64), cdf2=LIST(F64))),
    dict(file="csep/utils/stats.py", func="sup_dist_na", lean="sup_dist_na", prop="C09", also=[],
         params=dict(data1=LIST(F64), data2=LIST(F64))),
    # C10: counts as naturals, rates in the real layer, log 0 = -inf explicit; result (likelihood, likelihood_norm | nan)
    dict(file="csep/utils/calc.py", func="_compute_likelihood", lean="compute_likelihood", prop="C10", also=[],
         extended_log=True, ret=TUPLE(EREAL, OPTION(EREAL)),
         params=dict(gridded_data=LIST(NAT), apprx_rate_density=LIST(REAL), expected_cond_count=REAL, n_obs=NAT)),
    # C17: real layer; numpy.pi and numpy.cos are parameters (the hand model's GeoOps record carries them)
    dict(file="csep/core/regions.py", func="geographical_area_from_bounds", lean="geographical_area_from_bounds", prop="C17",
         also=[], ret=REAL, params=dict(lon1=REAL, lat1=REAL, lon2=REAL, lat2=REAL),
         opaque_consts={"numpy.pi": ("pi", REAL)},
         opaque={"numpy.cos": dict(lean="cos", sig="α → α", args=[REAL], ret=REAL)}),
    dict(file="csep/utils/stats.py", func="cumulative_square_diff", lean="cumulative_square_diff", prop="C10", also=[],
         params=dict(cdf1=LIST(REAL), cdf2=LIST(REAL))),
    # per-cell likelihood maps: the two objects are read only through `.event_count` and `.spatial_counts()`
    dict(file="csep/core/poisson_evaluations.py", func="binary_spatial_likelihood", lean="binary_spatial_likelihood", prop="C16",
         also=[], params=dict(forecast=OBJECT, catalog=OBJECT),
         expr_params={"catalog.event_count": ("n_cat", NAT), "forecast.event_count": ("n_fore", REAL),
                      "forecast.spatial_counts()": ("fore_sc", LIST(REAL)), "catalog.spatial_counts()": ("cat_sc", LIST(NAT))}),
    dict(file="csep/core/poisson_evaluations.py", func="poisson_spatial_likelihood", lean="poisson_spatial_likelihood", prop="C05",
         also=[], params=dict(forecast=OBJECT, catalog=OBJECT),
         expr_params={"catalog.event_count": ("n_cat", NAT), "forecast.event_count": ("n_fore", REAL),
                      "forecast.spatial_counts()": ("fore_sc", LIST(REAL)), "catalog.spatial_counts()": ("cat_sc", LIST(NAT))}),
    # C11 (csep/core/forecasts.py), EXACT layer: the hand model (Model/ForecastFile.lean) reads rates and factors as the rationals
    # they denote and multiplies / sums them without rounding; so does the translation (type `q`). A 2-D array is its list of rows.
    dict(file="csep/core/forecasts.py", func="GriddedDataSet.data", lean="gds_data", prop="C11", also=[],
         params=dict(self=OBJECT), expr_params={"self._data": ("data'", LIST(LIST(Q))), "self._scale": ("scale'", Q)}),
    dict(file="csep/core/forecasts.py", func="GriddedDataSet.sum", lean="gds_sum", prop="C11", also=[],
         params=dict(self=OBJECT), expr_params={"self.data": ("data'", LIST(LIST(Q)))}),
    dict(file="csep/core/forecasts.py", func="GriddedDataSet.scale", lean="gds_scale", prop="C11", also=[],
         params=dict(self=RECORD, val=Q), slice_result="self._scale"),
    dict(file="csep/core/forecasts.py", func="MarkedGriddedDataSet.spatial_counts", lean="mgds_spatial_counts", prop="C11",
         also=[], params=dict(self=OBJECT, cartesian={"static": False}), expr_params={"self.data": ("data'", LIST(LIST(Q)))}),
    dict(file="csep/core/forecasts.py", func="MarkedGriddedDataSet.magnitude_counts", lean="mgds_magnitude_counts", prop="C11",
         also=[], params=dict(self=OBJECT), expr_params={"self.data": ("data'", LIST(LIST(Q)))}),
    dict(file="csep/core/forecasts.py", func="MarkedGriddedDataSet.get_magnitude_index", lean="get_magnitude_index", prop="C11",
         also=[], params=dict(self=OBJECT, mags=LIST(F64), tol={"static": None}),
         expr_params={"self.magnitudes": ("magnitudes", LIST(F64))}),
    dict(file="csep/core/forecasts.py", func="GriddedForecast.get_rates", lean="get_rates", prop="C11", also=[],
         label="get_rates[data=None]",
         params=dict(self=OBJECT, lons=LIST(F64), lats=LIST(F64), mags=LIST(F64), data={"static": None}, ret_inds={"static": False}),
         expr_params={"self.get_index_of(lons, lats)": ("idx", LIST(INT)), "self.get_magnitude_index(mags)": ("idm", LIST(INT)),
                      "self.data": ("data'", LIST(LIST(Q)))}),
    dict(file="csep/core/forecasts.py", func="GriddedForecast.get_rates", lean="get_rates_data", prop="C11", also=[],
         label="get_rates[data]",
         params=dict(self=OBJECT, lons=LIST(F64), lats=LIST(F64), mags=LIST(F64), data=LIST(LIST(Q)), ret_inds={"static": False}),
         expr_params={"self.get_index_of(lons, lats)": ("idx", LIST(INT)), "self.get_magnitude_index(mags)": ("idm", LIST(INT)),
                      "self.data": ("data'", LIST(LIST(Q)))}),
    # target_event_rates: the catalog is read through its three coordinate getters; the rates through get_rates (data passed)
    dict(file="csep/core/forecasts.py", func="GriddedForecast.target_event_rates", lean="target_event_rates", prop="C11", also=[],
         params=dict(self=OBJECT, target_catalog=OBJECT, scale=BOOL),
         static_exprs={"isinstance(target_catalog, AbstractBaseCatalog)": True},
         callees={"self.get_rates": "get_rates_data"},
         expr_params={"self.data": ("data'", LIST(LIST(Q))), "(self.end_time - self.start_time).days": ("elapsed_days", INT),
                      "target_catalog.get_longitudes()": ("lons'", LIST(F64)), "target_catalog.get_latitudes()": ("lats'", LIST(F64)),
                      "target_catalog.get_magnitudes()": ("mags'", LIST(F64)),
                      "self.get_index_of(target_catalog.get_longitudes(), target_catalog.get_latitudes())": ("idx", LIST(INT)),
                      "self.get_magnitude_index(target_catalog.get_magnitudes())": ("idm", LIST(INT))}),
    # load_ascii: backward slice of the row -> (cell, magnitude bin) mapping; the file content (numpy.loadtxt) is a parameter
    dict(file="csep/core/forecasts.py", func="GriddedForecast.load_ascii", lean="load_ascii", prop="C11", also=[],
         slice_result="(bboxes, poly_mask, mws, data[:, -2])",
         params=dict(cls=UNUSED, ascii_fname=OBJECT, start_date=UNUSED, end_date=UNUSED, name=UNUSED, swap_latlon=BOOL),
         expr_params={"numpy.loadtxt(ascii_fname, ndmin=2)": ("rows", LIST(LIST(Q)))}),
    # scale_to_test_date: `some q` = `self.scale(q)` is called, `none` = `return self` unchanged
    dict(file="csep/core/forecasts.py", func="GriddedForecast.scale_to_test_date", lean="scale_to_test_date", prop="C11", also=[],
         params=dict(self=OBJECT, test_datetime=DATETIME), ret=OPTION(F64), self_calls={"self.scale": 0},
         expr_params={"self.end_time": ("end_time", DATETIME), "self.start_time": ("start_time", DATETIME)}),
    # C19: per-record body of zmap_ascii (the loop over the rows of numpy.loadtxt): float64 columns, at least 10 of them
    dict(file="csep/utils/readers.py", func="zmap_ascii", lean="zmap_record", prop="C19", also=[], label="zmap_ascii[record]",
         for_body="(event_id, line)", slice_call="out.append", checked_datetime=True,
         params=dict(event_id=INT, line=LIST(F64))),
    # C19: the time-string parser nested in csep_ascii (two formats tried in turn; CSEPIOException = Err.other)
    dict(file="csep/utils/readers.py", func="csep_ascii.parse_datetime", lean="reader_parse_datetime", prop="C19", also=[],
         params=dict(dt_string=STRING)),
    # C19 / C14: per-record body of csep_ascii (the loop over the records of csv.reader): cells are strings; `line[k]` can raise
    # IndexError, float() / int() ValueError; `continue` on the header of the first pass
    dict(file="csep/utils/readers.py", func="csep_ascii.is_header_line", lean="csep_is_header", prop="C19", also=["C14"],
         checked_index=True, params=dict(line=LIST(STRING))),
    dict(file="csep/utils/readers.py", func="csep_ascii", lean="csep_record", prop="C19", also=["C14"], label="csep_ascii[record]",
         for_body="(i, line)", free_params=["is_first_event"], slice_call="events.append", slice_keep_all=True,
         slice_extra=["catalog_id"], checked_index=True,
         callees={"is_header_line": "csep_is_header", "parse_datetime": "reader_parse_datetime"},
         params=dict(i=INT, line=LIST(STRING), is_first_event=BOOL)),
    # C19: per-record body of jma_csv; the two helper lambdas of the function are inlined
    dict(file="csep/utils/readers.py", func="jma_csv", lean="jma_record", prop="C19", also=[], label="jma_csv[record]",
         for_body="(id, line)", free_params=["is_first_event"], slice_call="events.append", slice_keep_all=True,
         checked_index=True, params=dict(id=INT, line=LIST(STRING), is_first_event=BOOL)),
    # C19: the date / time strings of an NDK hypocenter line -> calendar fields (with the ":60.0" rewrite and the added minute)
    dict(file="csep/utils/readers.py", func="_parse_datetime_to_zmap", lean="parse_datetime_to_zmap", prop="C19", also=[],
         params=dict(date=STRING, time=STRING)),
    # C19: per-record body of ingv_horus: one row of the structured array (int32 / float64 fields), the second-60 carries
    dict(file="csep/utils/readers.py", func="ingv_horus", lean="horus_record", prop="C19", also=[], label="ingv_horus[record]",
         for_body="(n, line)", slice_call="out.append", checked_datetime=True,
         params=dict(n=INT, line={"fields": dict(year=INT, month=INT, day=INT, hour=INT, minute=INT, second=F64, lat=F64,
                                                 lon=F64, depth=F64, Mw=F64)})),
    # C18 (csep/models.py): EvaluationResult as value trees. The nine stored fields and `named_type` are arbitrary Python values
    dict(file="csep/models.py", func="EvaluationResult.__init__", lean="er_init", prop="C18", also=[],
         slice_result="(self.test_distribution, self.name, self.observed_statistic, self.quantile, self.status, "
                      "self.obs_catalog_repr, self.sim_name, self.obs_name, self.min_mw)",
         params=dict(self=RECORD, test_distribution=PYOBJ, name=PYOBJ, observed_statistic=PYOBJ, quantile=PYOBJ, status=PYOBJ,
                     obs_catalog_repr=PYOBJ, sim_name=PYOBJ, obs_name=PYOBJ, min_mw=PYOBJ)),
    dict(file="csep/models.py", func="EvaluationResult.to_dict", lean="er_to_dict", prop="C18", also=[], objects=True,
         params=dict(self=OBJECT),
         expr_params={"self.test_distribution": ("test_distribution", PYOBJ), "self.name": ("name", PYOBJ),
                      "self.observed_statistic": ("observed_statistic", PYOBJ), "self.quantile": ("quantile", PYOBJ),
                      "self.status": ("status", PYOBJ), "self.obs_catalog_repr": ("obs_catalog_repr", PYOBJ),
                      "self.sim_name": ("sim_name", PYOBJ), "self.obs_name": ("obs_name", PYOBJ),
                      "self.min_mw": ("min_mw", PYOBJ), "self.named_type": ("named_type", PYOBJ)}),
    dict(file="csep/models.py", func="EvaluationResult.from_dict", lean="er_from_dict", prop="C18", also=[], objects=True,
         params=dict(cls=UNUSED, adict=PYOBJ), callees={"cls": "er_init"}),
    # C18: region dictionaries (to_dict only): name a str or None, float64 coordinates as bit patterns, never computed with
    # from_dict up to the call of from_origins: the four arguments of that call
    dict(file="csep/core/regions.py", func="CartesianGrid2D.from_dict", lean="grid_from_dict", prop="C18", also=["C14"], objects=True,
         params=dict(cls=UNUSED, adict=PYOBJ), slice_result="(origins, dh, magnitudes, name)"),
    dict(file="csep/core/regions.py", func="CartesianGrid2D.to_dict", lean="grid_to_dict", prop="C18", also=["C14"], objects=True,
         params=dict(self=OBJECT),
         expr_params={"self.name": ("name", OPTSTR), "self.dh": ("dh", FBITS),
                      "self.polygons": ("polygons", LIST(OBJ_ATTRS(origin=TUPLE(FBITS, FBITS)))),
                      "self.__class__.__name__": ("class_id", PYOBJ)}),
    dict(file="csep/core/regions.py", func="QuadtreeGrid2D.to_dict", lean="quad_to_dict", prop="C18", also=[], objects=True,
         params=dict(self=OBJECT),
         expr_params={"self.name": ("name", OPTSTR),
                      "self.polygons": ("polygons", LIST(OBJ_ATTRS(origin=TUPLE(FBITS, FBITS))))}),
    # C09: float64 sample, float64 query, `cdf` not passed (the precomputed-ecdf argument is only used by binned_ecdf)
    dict(file="csep/utils/stats.py", func="ecdf", lean="ecdf", prop="C09", also=[], params=dict(x=LIST(F64))),
    dict(file="csep/utils/stats.py", func="greater_equal_ecdf", lean="greater_equal_ecdf", prop="C09", also=[],
         params=dict(x=LIST(F64), val=F64, cdf={"static": ()})),
    dict(file="csep/utils/stats.py", func="less_equal_ecdf", lean="less_equal_ecdf", prop="C09", also=[],
         params=dict(x=LIST(F64), val=F64, cdf={"static": ()})),
    dict(file="csep/utils/stats.py", func="get_quantiles", lean="get_quantiles", prop="C09", also=[],
         params=dict(sim_counts=LIST(F64), obs_count=F64)),
    # the observed statistic of _poisson_likelihood_test: backward slice of `obs_ll` (simulation loop, seed, weights left out)
    dict(file="csep/core/poisson_evaluations.py", func="_poisson_likelihood_test", lean="poisson_likelihood_stat", prop="C05",
         also=[], slice_result="obs_ll", extended_log=True,
         params=dict(forecast_data=LIST(REAL), observed_data=LIST(NAT), num_simulations=UNUSED, random_numbers=UNUSED,
                     seed=UNUSED, use_observed_counts=BOOL, verbose=UNUSED, normalize_likelihood=BOOL)),
]


class Translator:
    def __init__(self, repo, targets=None):
        self.repo = repo
        self.targets = TARGETS if targets is None else targets
        self.trees = {}
        self.results = {}       # lean name -> dict(status, text | reason, ret_ty, raises, spec)

    def tree(self, rel):
        if rel not in self.trees:
            self.trees[rel] = ast.parse(open(os.path.join(self.repo, rel)).read())
        return self.trees[rel]

    def find(self, rel, qual):
        body = self.tree(rel).body
        node = None
        for part in qual.split("."):
            node = next((n for n in body if isinstance(n, (ast.FunctionDef, ast.ClassDef)) and n.name == part), None)
            if node is None:
                return None
            body = node.body
        return node if isinstance(node, ast.FunctionDef) else None

    def module_const(self, rel, name):
        """module-level integer / float constants (own module, or `from csep.utils.constants import NAME`)"""
        for r in (rel, "csep/utils/constants.py"):
            try:
                t = self.tree(r)
            except OSError:
                continue
            if r != rel and not any(isinstance(n, ast.ImportFrom) and n.module == "csep.utils.constants" and
                                    any(a.name == name for a in n.names) for n in self.tree(rel).body):
                continue
            for n in t.body:
                if isinstance(n, ast.Assign) and len(n.targets) == 1 and isinstance(n.targets[0], ast.Name) \
                        and n.targets[0].id == name:
                    try:
                        v = eval(compile(ast.Expression(n.value), "<const>", "eval"), {"__builtins__": {}}, {})
                    except Exception:
                        return None
                    if isinstance(v, bool) or not isinstance(v, (int, float)):
                        return None
                    if isinstance(v, int):
                        return Val(f"({v} : Int)", INT, lit=v)
                    return Val(rat_lit(Fraction(v)), F64, lit=v)
        return None

    def callee(self, rel, fn, caller_spec=None):
        if fn is None:
            return None
        if caller_spec is not None and fn in caller_spec.get("callees", {}):
            # a method call on self: TARGETS names the specialisation of the method that is meant
            return next(t for t in self.targets if t["lean"] == caller_spec["callees"][fn])
        for t in self.targets:
            if t["file"] == rel and t["func"] == fn:
                return t
        for t in self.targets:      # `from csep.x.y import fn`
            mod = t["file"][:-3].replace("/", ".")
            if t["func"] == fn and any(isinstance(n, ast.ImportFrom) and n.module == mod and
                                       any(a.name == fn and a.asname is None for a in n.names) for n in self.tree(rel).body):
                return t
        return None

    def call(self, caller, spec, vals, kw, node, env, allow_raise=False):
        res = self.results.get(spec["lean"])
        if res is None or res["status"] != "ok":
            caller.bad(node, f"call of {spec['func']}, which is not translated ({(res or {}).get('reason', 'later in TARGETS')})")
        pend_call = res["raises"] and not allow_raise and caller.raises and \
            (caller.objects or caller.spec.get("checked_index")) and caller.err == ("Py.ErrX" if spec.get("objects") else "Py.Err")
        if res["raises"] and not allow_raise and not pend_call:
            caller.bad(node, f"call of {spec['func']}, which can raise, inside an expression (only `x = f(…)` statements)")
        ps = [(a, t) for a, t in spec["params"].items() if not isinstance(t, dict) and t.kind not in ("none", "record")]
        # keyword arguments name parameters of the callee (in any order); statically fixed parameters must be given the
        # value they are fixed to
        vals = list(vals)
        if isinstance(node, ast.Call) and isinstance(node.func, ast.Attribute) and isinstance(node.func.value, ast.Name) \
                and node.func.value.id == "self" and ps and ps[0][0] == "self" and "self" in env:
            vals = [env["self"]] + vals
        if len(vals) > len(ps):
            caller.bad(node, f"call of {spec['func']} with other arguments than its specialisation")
        byname = dict(zip([a for a, _ in ps], vals))
        for k_, node_ in kw.items():
            t_ = spec["params"].get(k_)
            if t_ is None or k_ in byname:
                caller.bad(node, f"call of {spec['func']}: unexpected keyword {k_}")
            if isinstance(t_, dict):
                cv_ = caller.expr(node_, env) if isinstance(node_, ast.Name) else None
                if cv_ is not None and cv_.is_static and cv_.static == t_["static"]:
                    continue
                if not (isinstance(node_, ast.Constant) and node_.value == t_["static"]):
                    caller.bad(node, f"call of {spec['func']}: keyword {k_} is fixed to {t_['static']!r} in its specialisation")
                continue
            byname[k_] = caller.expr(node_, env)
        missing = [a for a, _ in ps if a not in byname]
        if missing:
            # parameters left to their Python default (a bool / int / float constant of the callee's signature)
            cnode = self.find(spec["file"], spec["func"])
            names = [a_.arg for a_ in cnode.args.args]
            dfl = dict(zip(names[len(names) - len(cnode.args.defaults):], cnode.args.defaults))
            for a in missing:
                d_ = dfl.get(a)
                if not (isinstance(d_, ast.Constant) and isinstance(d_.value, (bool, int, float))):
                    caller.bad(node, f"call of {spec['func']}: parameter {a} is not passed and has no constant default")
                byname[a] = caller.expr(d_, env)
        if set(byname) != {a for a, _ in ps}:
            caller.bad(node, f"call of {spec['func']} with other arguments than its specialisation")
        codes = []
        mine = {o["lean"] for o in caller.spec.get("opaque", {}).values()}
        for o in spec.get("opaque", {}).values():
            if o["lean"] not in mine:
                caller.bad(node, f"call of {spec['func']}: its opaque parameter {o['lean']} is not a parameter of the caller")
            if o["lean"] not in codes:
                codes.append(o["lean"])
        arr = None      # array-level call of a target specialised for ONE element of its array parameter
        objmap = {}     # object parameter of the callee -> object parameter of the caller that is passed for it
        for a, t in ps:
            v = byname[a]
            if t.kind == "unused":
                continue
            if t.kind == "object":
                if v.ty.kind != "object":
                    caller.bad(node, f"call of {spec['func']}: argument {a} must be one of the caller's object parameters")
                objmap[a] = v.code[1:-1]
                continue
            if t.elem and v.ty.kind == "list" and v.ty.item == t:
                if arr is not None:
                    caller.bad(node, f"call of {spec['func']} with two array arguments for elementwise parameters")
                arr = v
                codes.append("x_")
                continue
            if v.ty != t:
                if v.lit is not None and t.kind in ("real", "f64"):
                    codes.append(caller.coerce(v, t, node))     # a literal is converted exactly
                    continue
                if v.ty.kind == "str" and t.kind == "string" and v.is_static:
                    codes.append(caller.to_string(v, node))     # a string constant where the callee takes a string value
                    continue
                if v.ty.kind in ("nat", "int") and t.kind == "real" and not t.elem:
                    codes.append(caller.to_real(v, node))       # a Python int where the callee computes in floats
                    continue
                caller.bad(node, f"call of {spec['func']}: argument {a} has type {v.ty}, specialised for {t}")
            codes.append(v.code)
        # what the callee reads through its object parameters must be a parameter of the caller under the same expression
        argsrc = {}
        for a_, v_ in byname.items():
            if getattr(v_, "src_expr", None):
                argsrc[a_] = v_.src_expr            # the argument is (a copy of) an expression parameter of the caller
            elif isinstance(v_, Val) and v_.code in caller.param_vals and caller.param_vals[v_.code] is v_:
                argsrc[a_] = v_.code
        for src_, (nm_, ty_) in spec.get("expr_params", {}).items():
            tree_ = ast.parse(src_, mode="eval")

            class _Sub(ast.NodeTransformer):
                def visit_Name(self, n_):
                    if n_.id in objmap:
                        return ast.copy_location(ast.Name(id=objmap[n_.id], ctx=n_.ctx), n_)
                    if n_.id in argsrc:
                        return ast.parse(argsrc[n_.id], mode="eval").body
                    return n_
            tree_ = ast.fix_missing_locations(_Sub().visit(tree_))
            mine_ = caller.spec.get("expr_params", {}).get(ast.unparse(tree_))
            if mine_ is None or mine_[1] != ty_:
                caller.bad(node, f"call of {spec['func']}: `{ast.unparse(tree_)}` : {ty_} is not a parameter of the caller")
            codes.append(mine_[0])
        if res["uses_real"]:
            caller.uses_real = True
        if arr is not None:
            one = f"(fun x_ => {spec['lean']} " + " ".join(codes) + ")"
            if res["raises"]:
                if res.get("nonuniform_raise"):
                    caller.bad(node, f"array call of {spec['func']}, whose raise depends on the element")
                return Val(f"(Py.mapUniform {one} {arr.code})", LIST(res["ret_ty"]))
            return Val(f"(List.map {one} {arr.code})", LIST(res["ret_ty"]))
        elem = spec.get("elementwise", False) and any(v.ty.elem for v in vals)
        r = Val(f"({spec['lean']} " + " ".join(codes) + ")", res["ret_ty"].with_elem(elem))
        if res.get("dict_keys"):
            r.dict_keys = res["dict_keys"]
        if pend_call:
            return caller.raising(r.code, r.ty)     # evaluated first, in a temporary, in source order
        return r

    def run(self):
        for spec in self.targets:
            name = spec["lean"]
            try:
                node = self.find(spec["file"], spec["func"])
                if node is None:
                    raise Untranslatable(spec["func"], 0, f"function not found in {spec['file']}")
                if "for_body" in spec:
                    spec = dict(spec)
                    node = self.for_body(spec, node)
                node = self.prepare(spec, node)
                try:
                    fn = Fn(self, spec, node, spec["file"])
                    text = fn.translate()
                except _NeedOptional:
                    fn = Fn(self, spec, node, spec["file"], optional=True)
                    text = fn.translate()
                self.results[name] = dict(status="ok", text=text, ret_ty=fn.ret_ty, raises=fn.raises,
                                          uses_real=fn.uses_real, spec=spec, line=node.lineno,
                                          nonuniform_raise=fn.nonuniform_raise, dict_keys=fn.dict_keys)
            except Untranslatable as e:
                self.results[name] = dict(status="untranslatable", reason=f"line {e.lineno}: {e.reason}", spec=spec)
            except (OSError, SyntaxError) as e:
                self.results[name] = dict(status="untranslatable", reason=f"cannot read source: {e}", spec=spec)
        return self.results

    def for_body(self, spec, node):
        """TARGETS.for_body = text of a loop target: the definition is the BODY of that `for` statement of the function, as a
        function of the loop variables (the per-record body of a reader). Integer members of nested Enum classes
        (`Cls.Name.value`) become statics."""
        loops = [n for n in ast.walk(node) if isinstance(n, ast.For) and ast.unparse(n.target) == spec["for_body"]]
        if len(loops) != 1:
            raise Untranslatable(spec["func"], node.lineno, f"expected exactly one `for {spec['for_body']} in …`")
        lp = loops[0]
        names = [n.id for n in ast.walk(lp.target) if isinstance(n, ast.Name)]
        statics = dict(spec.get("statics", {}))
        for c in ast.walk(node):
            if isinstance(c, ast.ClassDef):
                for a in c.body:
                    if isinstance(a, ast.Assign) and len(a.targets) == 1 and isinstance(a.targets[0], ast.Name) \
                            and isinstance(a.value, ast.Constant) and isinstance(a.value.value, int):
                        statics[f"{c.name}.{a.targets[0].id}.value"] = a.value.value
        spec["statics"] = statics
        lams, consts, seen_ = {}, {}, {}
        for st_ in ast.walk(node):
            if isinstance(st_, ast.Assign) and len(st_.targets) == 1 and isinstance(st_.targets[0], ast.Name):
                seen_[st_.targets[0].id] = seen_.get(st_.targets[0].id, 0) + 1
        for st_ in node.body:       # top level of the enclosing function, assigned exactly once
            if isinstance(st_, ast.Assign) and len(st_.targets) == 1 and isinstance(st_.targets[0], ast.Name) \
                    and seen_[st_.targets[0].id] == 1:
                if isinstance(st_.value, ast.Lambda):
                    lams[st_.targets[0].id] = st_.value
                elif isinstance(st_.value, ast.Constant) and isinstance(st_.value.value, str):
                    consts[st_.targets[0].id] = st_.value.value
        spec["local_lambdas"], spec["local_consts"] = lams, consts
        # TARGETS.free_params: variables of the enclosing function that the body reads (e.g. a first-pass flag): parameters too
        names = names + [n for n in spec.get("free_params", []) if n not in names]
        new = ast.FunctionDef(name=node.name, args=ast.arguments(posonlyargs=[], args=[ast.arg(arg=n) for n in names],
                                                                 kwonlyargs=[], kw_defaults=[], defaults=[]),
                              body=list(lp.body), decorator_list=[], returns=None, lineno=lp.lineno,
                              end_lineno=lp.end_lineno, col_offset=0)
        return ast.fix_missing_locations(new)

    def prepare(self, spec, node):
        """nested helper definitions declared opaque in TARGETS (e.g. `num_decimals`, whose value comes from `repr`) are
        removed from the body; their calls become calls of an opaque function parameter. Their text is hashed into the
        header so that a change of the helper is visible as a changed definition."""
        lo = spec.get("local_defs_opaque", [])
        if not lo:
            return node
        body, notes = [], []
        for s in node.body:
            if isinstance(s, ast.FunctionDef) and s.name in lo:
                h = hashlib.sha256(ast.dump(s).encode()).hexdigest()[:12]
                notes.append(f"line {s.lineno}: nested `{s.name}` is an opaque parameter (ast sha256 {h})")
                continue
            body.append(s)
        new = ast.FunctionDef(name=node.name, args=node.args, body=body, decorator_list=[], returns=None,
                              lineno=node.lineno, end_lineno=node.end_lineno, col_offset=0)
        spec = spec  # notes are attached through a synthetic docstring-free mechanism below
        new._opaque_notes = notes
        new._opaque_hashes = [(s.name, hashlib.sha256(ast.dump(s).encode()).hexdigest()[:12]) for s in node.body
                              if isinstance(s, ast.FunctionDef) and s.name in lo]
        return new


HEADER = """/-
  GENERATED by harness/py2lean.py from the Python source of the pyCSEP tree under test — do not edit.
  One definition per target function, composed of the operations of PyPrelude.lean / Soft64 / RealOps in the order the
  source applies them. Theorems `Src.<f>_eq_model` (lean/PycsepVerif/Source/Cxx.lean) prove each equal to the hand model.
-/
import PycsepVerif.PyPrelude
set_option linter.unusedVariables false
namespace Src
open RealOps
"""

BEGIN, END = "-- BEGIN {}", "-- END {}"


def split_blocks(text):
    """lean name -> block text of an existing GeneratedSrc.lean"""
    out, cur, buf = {}, None, []
    for line in (text or "").splitlines():
        if line.startswith("-- BEGIN "):
            cur, buf = line[len("-- BEGIN "):].strip(), []
        elif line.startswith("-- END ") and cur is not None:
            out[cur] = "\n".join(buf) + "\n"
            cur = None
        elif cur is not None:
            buf.append(line)
    return out


def render(results, old_blocks):
    """file text + status per function. A function that is untranslatable now keeps its last good definition (so that the
    driver and the theorems still compile) and is marked STALE; its status is `untranslatable`."""
    out, status = [HEADER], {}
    for name, r in results.items():
        if r["status"] == "ok":
            block = r["text"]
            status[name] = dict(status="ok")
        else:
            prev = old_blocks.get(name)
            if prev is None:
                status[name] = dict(status="untranslatable", reason=r["reason"], stale=False)
                continue
            block = "\n".join(l for l in prev.splitlines() if not l.startswith("-- STALE")) + "\n"
            block = "-- STALE (kept from the last translatable source; NOT tied to the current source)\n" + block
            status[name] = dict(status="untranslatable", reason=r["reason"], stale=True)
        out.append(BEGIN.format(name) + "\n" + block + END.format(name) + "\n")
    out.append("end Src\n")
    return "\n".join(out), status


def defs_digest(text):
    """digest per function of the definition text without comments (what `definition-changed` compares)"""
    return {name: hashlib.sha256(b.encode()).hexdigest()[:16] for name, b in split_blocks(text).items()}


def regenerate(repo, lean_dir, targets=None, write=True):
    """returns (changed, status: name -> dict, new_text, old_text)"""
    tr = Translator(repo, targets)
    res = tr.run()
    path = os.path.join(lean_dir, "PycsepVerif", "GeneratedSrc.lean")
    old = open(path).read() if os.path.exists(path) else None
    new, status = render(res, split_blocks(old))
    for name, r in res.items():
        status[name]["prop"] = r["spec"]["prop"]
        status[name]["also"] = r["spec"].get("also", [])
        status[name]["func"] = r["spec"]["func"]
        status[name]["file"] = r["spec"]["file"]
    changed = new != old
    if changed and write:
        with open(path, "w") as f:
            f.write(new)
    return changed, status, new, old


if __name__ == "__main__":
    import sys
    repo = sys.argv[1] if len(sys.argv) > 1 else os.environ.get("VERIF_REPO", "/repo")
    here = os.path.dirname(os.path.dirname(os.path.abspath(__file__)))
    ch, st, new, _ = regenerate(repo, os.path.join(here, "lean"), write="--dry" not in sys.argv)
    print("changed" if ch else "unchanged")
    for k, v in st.items():
        print(k, v["status"], v.get("reason", ""))
    if "--show" in sys.argv:
        print(new)
