"""C16 — binary likelihood and Brier score: correspondence of csep.core.binomial_evaluations / brier_evaluations with
Model/BinaryBrier.lean (Float instance) + direct oracle (the definitions, log1p/expm1 and math.fsum)."""
import math
import struct

import numpy

from .core import Driver

LEVEL_TEXT = ("Proof over the reals: for every rate array whose active bins have positive rates the value computed by "
              "binary_joint_log_likelihood_ndarray (masked-array shape included) is sum_active ln(1-exp(-rate)) + "
              "sum_inactive(-rate); the Brier value (divided by every dimension in turn) is -2/N sum (1-exp(-rate)-[active])^2 "
              "with N the product of the dimensions, and lies in [-2,0]; both depend on the counts only through their support "
              "(proved for every RealOps instance, so also for the executable Float model); the three public tests score the "
              "arrays the model says. What the code does for an event in a zero-rate bin (contribution +1, finite) and what the "
              "definition gives (-inf) are both theorems: known finding D17. Tied to the code by numerical correspondence of the "
              "Float instance on array-level calls and on the public tests (observed + every simulated entry, injected numbers) "
              "and by a direct oracle.")
LEVEL_NOTE = ("Floating-point rounding of exp/log/poisson.cdf is not modelled; comparison to 1e-9 relative plus the rounding "
              "of 1-exp(-rate) itself (2^-51/(1-exp(-rate)) per active bin: the code's subtraction loses up to 8 digits at "
              "rate 1e-9). scipy.stats.poisson.cdf(0, rate) is modelled as exp(-rate). Placement of simulated events is C06.")
DESIGN_REF = "DESIGN.md §4 C16"
TECHNIQUE = "Lean 4 theorems over Mathlib reals (generic RealOps model) + differential testing of the Float instance + definition oracle"

THEOREMS = ["BinaryBrier.binaryLL_eq_def", "BinaryBrier.binaryLL_eq_binaryDef", "BinaryBrier.brier_eq_def",
            "BinaryBrier.brier_eq_def_length", "BinaryBrier.depends_only_on_activity", "BinaryBrier.scores_of_indicator",
            "BinaryBrier.binaryLL_zero_rate_event", "BinaryBrier.binaryLL_def_negInf", "BinaryBrier.binaryDef_negInf_iff",
            "BinaryBrier.brier_range", "BinaryBrier.brier_dims_irrelevant", "BinaryBrier.tests_report_def",
            "BinaryBrier.binaryCell_eq", "BinaryBrier.binarySpatialMap_sum"]
TRUSTED = ["Lean 4.33 kernel", "axioms: propext, Classical.choice, Quot.sound at most",
           "Real.log / Real.exp stand for numpy.log / numpy.exp; scipy.stats.poisson.cdf(0, r) = exp(-r); rounding not "
           "modelled, Float instance compared numerically on every run",
           "numpy.ma semantics transcribed by hand (a masked slot of y*masked carries y): checked numerically on every run "
           "through the zero-rate cases", "numpy.cumsum / numpy.searchsorted place simulated events (C06)",
           "gridding of interior points by CSEPCatalog / CartesianGrid2D (C01-C03)",
           "harness/c16.py generators, oracle and comparison; driver parsing (Proto.lean, Drive/C16.lean)"]
RULE = ("array level: 1-D (1..200 bins) and 2-D ((1..40)x(1..8)) rate arrays, rates 10^U(-9,1) (classes wide, tiny, large, mixed) "
        "with 0-15% exact zeros, count arrays: none, single, several per bin, all bins active, int and float dtype; activity "
        "invariance checked by replacing counts with other counts of the same support; public tests on gridded forecasts and "
        "catalogs of 0..300 interior events with injected random_numbers (width = number of active cells), some forecasts built "
        "through GriddedDataSet.scale, 20% with a forced event in a zero-rate bin. A case is "
        "non-trivial when it has an active and an inactive bin and a bin with >= 2 events; distinct by (rate bits, counts).")

SIG_D17 = "binary-ll:active-bin-with-nonpositive-rate"


_DEV = {"oracle": 0.0, "model": 0.0}


def _track(kind, a, b):
    if a != b and math.isfinite(a) and math.isfinite(b):
        _DEV[kind] = max(_DEV[kind], abs(a - b) / max(abs(a), abs(b), 1e-300))


def _bits(x):
    return str(struct.unpack("<Q", struct.pack("<d", float(x)))[0])


def _unbits(s):
    return struct.unpack("<d", struct.pack("<Q", int(s)))[0]


def _rows(a, f):
    return ";".join(",".join(f(x) for x in row) for row in a)


def _lst(a, f):
    a = list(a)
    return ",".join(f(x) for x in a) if a else "-"


# ----------------------------------------------------------------------------- the definitions (oracle)
def _binary_def(rates, counts):
    """returns (definition value, value of the bins that are not offending, number of offending bins, abs tolerance)
    offending = active bin with rate <= 0 (definition -inf)"""
    act, inact, offending, cond = [], [], 0, 0.0
    for r, c in zip(rates, counts):
        r = float(r)
        if c > 0:
            if r <= 0.0:
                offending += 1
            else:
                p = -math.expm1(-r)
                act.append(math.log(p))
                cond += 2.0 ** -51 / p
        else:
            inact.append(-r)
    rest = math.fsum(act + inact)
    return (-math.inf if offending else rest), rest, offending, cond


def _brier_def(rates, counts):
    n = len(rates)
    terms, cond = [], 0.0
    for r, c in zip(rates, counts):
        d = -math.expm1(-float(r)) - (1.0 if c > 0 else 0.0)
        terms.append(d * d)
        cond += 2.0 * abs(d) * 2.0 ** -51
    return -2.0 / n * math.fsum(terms), 2.0 / n * cond


def _close(a, b, abs_tol):
    if a == b:
        return True
    if math.isinf(a) or math.isinf(b) or math.isnan(a) or math.isnan(b):
        return False
    return abs(a - b) <= 1e-9 * max(abs(a), abs(b)) + abs_tol + 1e-300


_PROBE = []


def _masked_contribution():
    """what binary_joint_log_likelihood_ndarray adds for ONE active bin of rate 0 (None if it is not finite)"""
    if not _PROBE:
        from csep.core.binomial_evaluations import binary_joint_log_likelihood_ndarray
        with numpy.errstate(all="ignore"):
            v = float(binary_joint_log_likelihood_ndarray(numpy.array([0.0, 1.0]), numpy.array([1, 0])))
        _PROBE.append(v + 1.0 if math.isfinite(v) else None)
    return _PROBE[0]


def _check_binary(run, case, what, val, rates, counts):
    """direct oracle for one binary-LL value; returns the abs tolerance used for the model comparison (None: the entry is
    -inf as the definition demands for an event in a zero-rate bin, which the property allows besides the known finding)"""
    dv, rest, k, cond = _binary_def(rates, counts)
    _track("oracle", val, dv)
    if k:
        run.count("binary-offending")
        # the definition is -inf. Known finding D17 ONLY if every other bin is right, i.e. the value is `rest + k*c` where
        # c is the finite constant the implementation itself gives to one such bin (probed on [0.0, 1.0] / [1, 0];
        # +1.0 at present, proved for the model in BinaryBrier.binaryLL_zero_rate_event); any other value is an
        # unrelated discrepancy and stays a violation.
        if val == -math.inf:
            # the implementation agrees with the definition (D17 repaired upstream): nothing to report, and the Lean model
            # of the masking no longer applies to this entry
            run.count("binary-offending-neginf")
            return None
        c = _masked_contribution()
        if c is not None and math.isfinite(val) and _close(val, rest + k * c, cond):
            run.oracle_failure(case, f"{what}: finite value {val!r} where the definition is -inf ({k} active bin(s) with "
                                     f"rate <= 0)", signature=SIG_D17)
        else:
            run.oracle_failure(case, f"{what}: value {val!r}; definition -inf; {k} active bin(s) with rate <= 0, the other "
                                     f"bins sum to {rest!r}: not the known masking behaviour")
    elif not _close(val, dv, cond):
        run.oracle_failure(case, f"{what}: value {val!r} != definition {dv!r}")
    return cond


def _check_brier(run, case, what, val, rates, counts):
    dv, cond = _brier_def(rates, counts)
    _track("oracle", val, dv)
    if not _close(val, dv, cond):
        run.oracle_failure(case, f"{what}: value {val!r} != definition {dv!r}")
    return cond


# ----------------------------------------------------------------------------- array level
def _gen_rates(rng, g, shape):
    cls = rng.choice(["wide", "wide", "tiny", "large", "mixed"])
    if cls == "wide":
        a = 10.0 ** g.uniform(-9, 1, size=shape)
    elif cls == "tiny":
        a = 10.0 ** g.uniform(-9, -6, size=shape)
    elif cls == "large":
        a = 10.0 ** g.uniform(0, 1, size=shape)
    else:
        a = numpy.where(g.random(shape) < 0.5, 1e-9, 10.0)
    z = rng.choice([0.0, 0.0, 0.05, 0.15])
    a = numpy.where(g.random(shape) < z, 0.0, a)
    return cls, a


def _gen_counts(rng, g, rates, allow_zero_rate):
    shape = rates.shape
    kind = rng.choice(["none", "single", "few-multi", "many", "all-active", "sparse-big"])
    c = numpy.zeros(shape, dtype=int)
    n = c.size
    flat = c.ravel()
    ok = numpy.arange(n) if allow_zero_rate else numpy.nonzero(rates.ravel() > 0)[0]
    if kind != "none" and len(ok):
        if kind == "single":
            flat[rng.choice(list(ok))] = 1
        elif kind == "few-multi":
            for i in rng.sample(list(ok), min(len(ok), rng.randint(1, 4))):
                flat[i] = rng.randint(2, 9)
        elif kind == "many":
            for i in ok:
                if rng.random() < 0.5:
                    flat[i] = rng.choice([1, 1, 2, 3, 17])
        elif kind == "all-active":
            for i in ok:
                flat[i] = rng.randint(1, 3)
        else:
            flat[rng.choice(list(ok))] = rng.randint(50, 300)
    return kind, flat.reshape(shape)


def _same_support(rng, counts):
    out = counts.copy()
    f = out.ravel()
    for i in range(f.size):
        if f[i] > 0:
            f[i] = rng.choice([1, f[i] + 1, rng.randint(1, 1000)])
    return f.reshape(counts.shape)


def _array_case(run, drv, pending, spec, tag="array"):
    from csep.core.binomial_evaluations import binary_joint_log_likelihood_ndarray
    from csep.core.brier_evaluations import _brier_score_ndarray
    shape = tuple(spec["shape"])
    rates = numpy.array([float.fromhex(x) for x in spec["rates"]]).reshape(shape)
    counts = numpy.array(spec["counts"], dtype=float if spec["float_counts"] else int).reshape(shape)
    counts2 = numpy.array(spec["counts2"], dtype=int).reshape(shape)
    case = dict(spec=spec, kind="array", tag=tag)
    fr, fc = rates.ravel().tolist(), [int(x) for x in counts.ravel()]
    n_act = sum(1 for c in fc if c > 0)
    nontriv = 0 < n_act < len(fc) and max(fc) >= 2
    run.case(dict(kind="array", shape=list(shape), cls=spec["cls"], counts=spec["ckind"], active=n_act,
                  zeros=int((rates == 0).sum()), tag=tag), (rates.tobytes(), counts.tobytes()) if nontriv else None)
    run.count(f"array-{len(shape)}d")
    run.count(f"rates-{spec['cls']}")
    run.count(f"counts-{spec['ckind']}")
    try:
        with numpy.errstate(all="ignore"):
            bll = float(binary_joint_log_likelihood_ndarray(rates.copy(), counts.copy()))
            bll2 = float(binary_joint_log_likelihood_ndarray(rates.copy(), counts2.copy()))
            bri = float(_brier_score_ndarray(rates.copy(), counts.copy()))
            bri2 = float(_brier_score_ndarray(rates.copy(), counts2.copy()))
    except Exception as e:
        run.oracle_failure(case, f"array-level call raised {type(e).__name__}: {e}")
        return
    t1 = _check_binary(run, case, "binary_joint_log_likelihood_ndarray", bll, fr, fc)
    t2 = _check_brier(run, case, "_brier_score_ndarray", bri, fr, fc)
    # depends on the observation only through which bins are active
    if not ((bll == bll2 if t1 is None else _close(bll, bll2, t1)) and _close(bri, bri2, t2)):
        run.oracle_failure(case, f"scores differ for two count arrays with the same support: binary {bll!r} vs {bll2!r}, "
                                 f"brier {bri!r} vs {bri2!r}")
    i = drv.ask(f"c16_bll {_lst(fr, _bits)} {_lst(fc, str)}")
    j = drv.ask(f"c16_brier {_lst(shape, str)} {_lst(fr, _bits)} {_lst(fc, str)}")
    pending.append((case, "array", [i, j], [bll, bri], [t1, t2]))


def _gen_array_spec(rng, tier):
    g = numpy.random.default_rng(rng.randrange(2 ** 32))
    if rng.random() < 0.5:
        shape = (rng.choice([1, 2, 3, 10, 50, 200, rng.randint(1, 200)]),)
    else:
        shape = (rng.choice([1, 2, 5, 40, rng.randint(1, 40)]), rng.choice([1, 2, 8, rng.randint(1, 8)]))
    cls, rates = _gen_rates(rng, g, shape)
    if not (rates > 0).any():
        rates.ravel()[rng.randrange(rates.size)] = 10.0 ** rng.uniform(-9, 1)
    ckind, counts = _gen_counts(rng, g, rates, allow_zero_rate=rng.random() < 0.25)
    return dict(shape=list(shape), cls=cls, ckind=ckind, rates=[float(x).hex() for x in rates.ravel()],
                counts=[int(x) for x in counts.ravel()], counts2=[int(x) for x in _same_support(rng, counts).ravel()],
                float_counts=rng.random() < 0.5)


# ----------------------------------------------------------------------------- public tests
def _gen_test_spec(rng, tier):
    ns = rng.choice([1, 2, 3, 5, 8, 13, 20, 40, rng.randint(1, 40)])
    nm = rng.choice([1, 1, 2, 3, 8, rng.randint(1, 8)])
    g = numpy.random.default_rng(rng.randrange(2 ** 32))
    cls, data = _gen_rates(rng, g, (ns, nm))
    k = rng.random()
    if k < 0.1 and ns > 1:
        data[rng.randrange(ns), :] = 0.0
    if not (data > 0).any():
        data[rng.randrange(ns), rng.randrange(nm)] = 10.0 ** rng.uniform(-9, 1)
    n = rng.choice([0, 1, 2, rng.randint(3, 20), rng.randint(0, 300), 300])
    allow_zero = rng.random() < 0.2
    flat = [(i, j) for i in range(ns) for j in range(nm) if allow_zero or data[i, j] > 0]
    chosen = rng.sample(flat, min(len(flat), rng.choice([1, 2, 3, len(flat), rng.randint(1, len(flat))])))
    forced = None
    if rng.random() < 0.2 and ns * nm > 1 and n > 0:
        # force the known-finding situation: an event in a zero-rate bin (making one if the array has none)
        zeros = [(i, j) for i in range(ns) for j in range(nm) if data[i, j] == 0.0]
        forced = rng.choice(zeros) if zeros else (rng.randrange(ns), rng.randrange(nm))
        data[forced] = 0.0
        if not (data > 0).any():
            k = rng.choice([q for q in range(ns * nm) if (q // nm, q % nm) != forced])
            data[k // nm, k % nm] = 10.0 ** rng.uniform(-9, 1)
        chosen = [c for c in chosen if data[c] > 0 or allow_zero] + [forced]
    events = []
    for e in range(n):
        i, j = forced if (forced is not None and e == 0) else rng.choice(chosen)
        events.append([i, j, rng.uniform(0.2, 0.8).hex(), rng.uniform(0.2, 0.8).hex(), rng.uniform(0.2, 0.8).hex()])
    return dict(ns=ns, nm=nm, cls=cls, data=[[float(x).hex() for x in row] for row in data], events=events,
                nx=rng.randint(1, ns), dh=rng.choice([0.1, 0.5, 1.0]), x0=float(rng.randint(-20, 20)),
                y0=float(rng.randint(-20, 20)), m0=rng.choice([2.5, 4.0, 4.95]), dm=rng.choice([0.1, 0.5, 1.0]),
                nsim=rng.choice([1, 2, 3]) if tier == "quick" else rng.choice([1, 2, 3, 5]),
                rn_seed=rng.randrange(2 ** 32), same_region=rng.random() < 0.5,
                fscale=rng.choice([None, None, None, 2.0, 0.5, 10.0, 3.0, 0.1]), open_mag=rng.random() < 0.15)


def _build(spec):
    from csep.core.catalogs import CSEPCatalog
    from csep.core.forecasts import GriddedForecast
    from csep.core.regions import CartesianGrid2D
    ns, nm, nx, dh = spec["ns"], spec["nm"], spec["nx"], spec["dh"]
    data = numpy.array([[float.fromhex(x) for x in row] for row in spec["data"]], dtype=float).reshape(ns, nm)
    origins = numpy.array([[spec["x0"] + dh * (k % nx), spec["y0"] + dh * (k // nx)] for k in range(ns)])
    mags = [spec["m0"] + spec["dm"] * k for k in range(nm)]
    region = CartesianGrid2D.from_origins(origins, dh=dh, magnitudes=mags)
    c = spec.get("fscale")
    if c:
        # the forecast holds data/c and is scaled by c (GriddedDataSet.scale): the rates under test are `fore.data`
        fore = GriddedForecast(data=data / c, region=region, magnitudes=mags, name="forecast").scale(c)
        data = numpy.array(fore.data, dtype=float)
    else:
        fore = GriddedForecast(data=data.copy(), region=region, magnitudes=mags, name="forecast")
    cnt = numpy.zeros((ns, nm), dtype=int)
    ev = []
    for k, (i, j, fx, fy, fm) in enumerate(spec["events"]):
        fx, fy, fm = float.fromhex(fx), float.fromhex(fy), float.fromhex(fm)
        mag = mags[j] + spec["dm"] * (fm if not (spec.get("open_mag") and j == nm - 1) else 1.0 + 4.0 * fm)
        ev.append((str(k), 1000 * k, origins[i, 1] + dh * fy, origins[i, 0] + dh * fx, 10.0, mag))
        cnt[i, j] += 1
    cat_region = fore.region if spec["same_region"] else CartesianGrid2D.from_origins(origins, dh=dh, magnitudes=mags)
    cat = CSEPCatalog(data=ev, region=cat_region, name="catalog")
    return fore, cat, data, cnt


def _sim_counts(rates1d, rn):
    w = numpy.cumsum(rates1d)
    w = w / w[-1]
    idx = numpy.searchsorted(w, rn, side="right")
    return numpy.bincount(idx, minlength=len(rates1d)).astype(int)


def _test_case(run, drv, pending, spec, tag="test"):
    from csep.core import binomial_evaluations as be
    from csep.core import brier_evaluations as br
    fore, cat, data, cnt = _build(spec)
    ns, nm, nsim = spec["ns"], spec["nm"], spec["nsim"]
    g = numpy.random.default_rng(spec["rn_seed"])
    case = dict(spec=spec, kind="test", tag=tag)
    fc = cnt.ravel().tolist()
    nontriv = 0 < sum(1 for c in fc if c > 0) < len(fc) and max(fc) >= 2
    run.case(dict(kind="test", shape=[ns, nm], cls=spec["cls"], n_obs=len(spec["events"]),
                  zeros=int((data == 0).sum()), tag=tag), (data.tobytes(), cnt.tobytes()) if nontriv else None)
    rows = data.tolist()
    spatial_exact = [math.fsum(r) for r in rows]
    for mode, fn in (("S", be.binary_spatial_test), ("CL", be.binary_conditional_likelihood_test),
                     ("B", br.brier_score_test)):
        if mode == "S":
            rates1d, obs1d, orates = data.sum(axis=1), cnt.sum(axis=1), spatial_exact
        else:
            rates1d, obs1d, orates = data.ravel(), cnt.ravel(), data.ravel().tolist()
        n_active = int((obs1d > 0).sum())
        rn = g.random((nsim, n_active))
        try:
            with numpy.errstate(all="ignore"):
                res = fn(fore, cat, num_simulations=nsim, random_numbers=rn)
        except Exception as e:
            run.oracle_failure(case, f"{fn.__name__} raised {type(e).__name__}: {e}")
            continue
        run.count(f"call-{fn.__name__}")
        sims = [_sim_counts(rates1d, rn[k, :]) for k in range(nsim)]
        obs = float(res.observed_statistic)
        td = [float(x) for x in res.test_distribution]
        if len(td) != nsim:
            run.oracle_failure(case, f"{fn.__name__}: test_distribution has {len(td)} entries for {nsim} simulations")
            continue
        vals, tols = [], []
        for name, counts, val in [("observed", obs1d, obs)] + [(f"simulated[{k}]", sims[k], td[k]) for k in range(nsim)]:
            chk = _check_brier if mode == "B" else _check_binary
            tols.append(chk(run, case, f"{fn.__name__} {name}", val, orates, [int(c) for c in counts]))
            vals.append(val)
        simtxt = ";".join(",".join(str(int(c)) for c in s) for s in sims) if sims else "-"
        i = drv.ask(f"c16_mode {mode} {_rows(data, _bits)} {_rows(cnt, lambda c: str(int(c)))} {simtxt}")
        pending.append((case, mode, [i], vals, tols))
    _cells_check(run, drv, pending, case, fore, cat, data, cnt)


def _cells_check(run, drv, pending, case, fore, cat, data, cnt):
    """binary_spatial_likelihood: per-cell binary terms of the spatial rates scaled by N_obs/N_fore. Checked where every
    scaled rate is positive (all spatial rates positive, catalog not empty); elsewhere only counted (0*log 0 = nan)."""
    from csep.core import poisson_evaluations as pe
    n = int(cnt.sum())
    srates = [math.fsum(r) for r in data.tolist()]
    try:
        with numpy.errstate(all="ignore"):
            bill = numpy.asarray(pe.binary_spatial_likelihood(fore, cat), dtype=float)
    except Exception as e:
        run.oracle_failure(case, f"binary_spatial_likelihood raised {type(e).__name__}: {e}")
        return
    if n == 0 or min(srates) <= 0.0:
        run.count("cells-outside-domain")
        run.extra["cells_nan_outside_domain"] = run.extra.get("cells_nan_outside_domain", 0) + int(numpy.isnan(bill).sum())
        return
    run.count("cells-checked")
    s = n / math.fsum(srates)
    w = cnt.sum(axis=1)
    ref, tols = [], []
    for r, c in zip(srates, w):
        l = r * s
        if c > 0:
            p = -math.expm1(-l)
            ref.append(math.log(p))
            tols.append(2.0 ** -51 / p)
        else:
            ref.append(-l)
            tols.append(0.0)
    if bill.shape != (len(ref),):
        run.oracle_failure(case, f"binary_spatial_likelihood: shape {bill.shape} for {len(ref)} cells")
        return
    bad = [k for k in range(len(ref)) if not _close(float(bill[k]), ref[k], tols[k])]
    if bad:
        k = bad[0]
        run.oracle_failure(case, f"binary_spatial_likelihood cell {k}: {float(bill[k])!r} != definition {ref[k]!r}")
    i = drv.ask(f"c16_cells {_rows(data, _bits)} {_rows(cnt, lambda c: str(int(c)))}")
    pending.append((case, "cells", [i], [float(x) for x in bill], tols))


def _flush(run, drv, pending):
    out = drv.run()
    for case, mode, idx, vals, tols in pending:
        toks = [t for i in idx for t in out[i].replace(",", " ").split(" ")]
        model = [_unbits(t) if t.isdigit() else None for t in toks]
        ok = len(model) == len(vals) and all(t is None or (m is not None and _close(v, m, t))
                                             for v, m, t in zip(vals, model, tols))
        if not ok:
            run.mismatch(dict(case, mode=mode), [repr(v) for v in vals], [repr(m) for m in model])
        else:
            for v, m, t in zip(vals, model, tols):
                if t is not None:
                    _track("model", v, m)
    run.extra["d17_contribution_of_an_event_in_a_zero_rate_bin"] = _masked_contribution()
    run.extra["max_rel_dev_impl_vs_oracle"] = _DEV["oracle"]
    run.extra["max_rel_dev_impl_vs_lean_float"] = _DEV["model"]
    pending.clear()


def _corpus_cases():
    """permanent witnesses: corpus/C16/*.json, each {"kind": "array"|"test", "spec": {...}} (layout of a replay case)"""
    import glob
    import json
    import os
    d = os.path.join(os.path.dirname(os.path.dirname(os.path.abspath(__file__))), "corpus", "C16")
    return [json.load(open(f)) for f in sorted(glob.glob(os.path.join(d, "*.json")))]


def _fixed_array_specs():
    def spec(shape, rates, counts, counts2=None, fl=False):
        return dict(shape=list(shape), cls="fixed", ckind="fixed", rates=[float(x).hex() for x in rates],
                    counts=list(counts), counts2=list(counts2 or counts), float_counts=fl)
    return [
        spec((2, 3), [0.1, 0.2, 0.3, 0.4, 0.5, 0.6], [0, 1, 0, 2, 0, 0], [0, 5, 0, 1, 0, 0]),
        spec((4,), [0.5, 0.0, 0.3, 0.0], [1, 1, 0, 0]),                 # D17 witness: event in a zero-rate bin
        spec((1,), [1e-9], [3]),
        spec((3,), [10.0, 1e-9, 1.0], [0, 0, 0]),
        spec((2, 2), [0.0, 0.0, 0.0, 2.0], [0, 0, 0, 0], fl=True),
    ]


def run(run, rng, tier):
    drv, pending = Driver(), []
    for c in _corpus_cases():
        (_array_case if c.get("kind") == "array" else _test_case)(run, drv, pending, c["spec"], tag="corpus")
    for spec in _fixed_array_specs():
        _array_case(run, drv, pending, spec, tag="fixed")
    n_arr, n_test = (5000, 1500) if tier == "quick" else (60000, 18000)
    for _ in range(n_arr):
        _array_case(run, drv, pending, _gen_array_spec(rng, tier))
        if len(pending) >= 1000:
            _flush(run, drv, pending)
            drv = Driver()
    for _ in range(n_test):
        _test_case(run, drv, pending, _gen_test_spec(rng, tier))
        if len(pending) >= 600:
            _flush(run, drv, pending)
            drv = Driver()
    _flush(run, drv, pending)
    run.assumptions.append("events are generated at interior points of cells / magnitude bins (edge assignment is C01/C02)")
    run.assumptions.append("injected random numbers lie in [0, 1); the rejection sampler used without injection is C06 (D10)")


def replay(run, payload):
    case = payload["case"]
    drv, pending = Driver(), []
    if case.get("kind") == "array":
        _array_case(run, drv, pending, case["spec"], tag="replay")
    else:
        _test_case(run, drv, pending, case["spec"], tag="replay")
    _flush(run, drv, pending)
