"""C16 — binary likelihood and Brier score: correspondence of csep.core.binomial_evaluations / brier_evaluations with
Model/BinaryBrier.lean (Float instance) + direct oracle (the definitions, log1p/expm1 and math.fsum)."""
import math
import struct

import numpy

from .core import Driver

LEVEL_TEXT = ("Proof over the reals: for every rate array whose active bins have positive rates the value computed by "
              "binary_joint_log_likelihood_ndarray (masked-array shape included) is sum_active ln(1-exp(-rate)) + "
              "sum_inactive(-rate); the Brier value (divided by every dimension in turn) is -2/N sum (1-exp(-rate)-[active])^2 "
              "with N the product of the dimensions, and lies in [-2,0]; both depend on the counts only through their support "
              "(proved for every RealOps instance, so also for the executable Float model); the three public tests score the "
              "arrays the model says. What the code does for an event in a zero-rate bin (contribution +1, finite) and what the "
              "definition gives (-inf) are both theorems: known finding D17. Tied to the code by numerical correspondence of the "
              "Float instance on array-level calls and on the public tests (observed + every simulated entry, injected numbers) "
              "and by a direct oracle. Wave 4: the whole pipeline of _binary_likelihood_test / _brier_score_test and of the three "
              "wrappers is in the model (masked Soft64 sampling weights, searchsorted-right placement, add.at, count assertion, "
              "scores, quantile - composed with the sampler model of C06); proved: a simulated catalog never has an event in a bin "
              "of rate <= 0, hence EVERY simulated entry equals the definition with no hypothesis on the rates (D17 can only "
              "concern the observed entry); Brier observed/simulated normalisers; no exception for rows of the right width, the "
              "count assertion for any other width; sign of the joint log-likelihood. The model now receives only rates, observed "
              "counts and the uniform numbers and produces the simulated catalogs itself.")
LEVEL_NOTE = ("Floating-point rounding of exp/log/poisson.cdf is not modelled; comparison to 1e-9 relative plus the rounding "
              "of 1-exp(-rate) itself (2^-51/(1-exp(-rate)) per active bin: the code's subtraction loses up to 8 digits at "
              "rate 1e-9). scipy.stats.poisson.cdf(0, rate) is modelled as exp(-rate). Placement of simulated events is C06.")
DESIGN_REF = "DESIGN.md §4 C16"
TECHNIQUE = "Lean 4 theorems over Mathlib reals (generic RealOps model) + differential testing of the Float instance + definition oracle"

THEOREMS = ["BinaryBrier.binaryLL_eq_def", "BinaryBrier.binaryLL_eq_binaryDef", "BinaryBrier.brier_eq_def",
            "BinaryBrier.brier_eq_def_length", "BinaryBrier.depends_only_on_activity", "BinaryBrier.scores_of_indicator",
            "BinaryBrier.binaryLL_zero_rate_event", "BinaryBrier.binaryLL_def_negInf", "BinaryBrier.binaryDef_negInf_iff",
            "BinaryBrier.brier_range", "BinaryBrier.brier_dims_irrelevant", "BinaryBrier.tests_report_def",
            "BinaryBrier.binaryCell_eq", "BinaryBrier.binarySpatialMap_sum",
            # wave 4 (Properties/C16_Tests.lean): the test pipeline with the sampler inside the model
            "BinaryBrier.sim_entry_active_pos", "BinaryBrier.binary_test_entries_eq_def",
            "BinaryBrier.binary_test_observed_eq_def", "BinaryBrier.brier_test_entries_eq_def",
            "BinaryBrier.brier_test_sim_arrays", "BinaryBrier.pipeline_total", "BinaryBrier.pipeline_row_width_assert",
            "BinaryBrier.pipeline_quantile", "BinaryBrier.wrappers_report_def", "BinaryBrier.binaryLL_nonpos"]
TRUSTED = ["Lean 4.33 kernel", "axioms: propext, Classical.choice, Quot.sound at most",
           "Real.log / Real.exp stand for numpy.log / numpy.exp; scipy.stats.poisson.cdf(0, r) = exp(-r); rounding not "
           "modelled, Float instance compared numerically on every run",
           "numpy.ma semantics transcribed by hand (a masked slot of y*masked carries y): checked numerically on every run "
           "through the zero-rate cases", "numpy.cumsum / numpy.searchsorted place simulated events (C06)",
           "gridding of interior points by CSEPCatalog / CartesianGrid2D (C01-C03)",
           "harness/c16.py generators, oracle and comparison; driver parsing (Proto.lean, Drive/C16.lean)"]
RULE = ("array level: 1-D (1..200 bins) and 2-D ((1..40)x(1..8)) rate arrays, rates 10^U(-9,1) (classes wide, tiny, large, mixed) "
        "with 0-15% exact zeros, count arrays: none, single, several per bin, all bins active, int and float dtype; activity "
        "invariance checked by replacing counts with other counts of the same support; public tests on gridded forecasts and "
        "catalogs of 0..300 interior events with injected random_numbers (width = number of active cells), some forecasts built "
        "through GriddedDataSet.scale, 20% with a forced event in a zero-rate bin. Half of the arrays and a third of the "
        "forecasts carry the SAME values in another representation: memory layout of the rate array and (independently) of "
        "the count array in {C, Fortran order, transposed view, every-second-column / every-second-row slice, window of a "
        "larger array, negative strides, read-only}, rate dtype in {float64, int64, int32, int16, int8, uint8, uint32, uint64 "
        "(whole-number rates 0..10), float32 and float16 roundings of 10^U(-3,1), float32 roundings of 10^U(-9,1)}, count "
        "dtype in {int64, float64, bool, uint8, int32, float32, uint64}; the array-level test drivers "
        "_binary_likelihood_test / _brier_score_test are called on these arrays too; every score is compared with the "
        "definition to double-precision rounding whatever the dtype. Comparisons switched off because unchanged pyCSEP "
        "itself departs from the definition there are named in AWAITING_DECISION. A case is "
        "non-trivial when it has an active and an inactive bin and a bin with >= 2 events; distinct by (rate bits, counts). "
        "Wave 4: every test call (array drivers and public tests, except float32/float16 weights) is also replayed by the "
        "model from (rates, counts, uniform numbers) alone; one call in eight is repeated with rows of n_active +- 1 numbers "
        "(count assertion); reported quantile checked against the reported entries.")

SIG_D17 = "binary-ll:active-bin-with-nonpositive-rate"

# Representation classes (same mathematical arrays, other memory layout / dtype).  The property quantifies over "all rate
# arrays ... and all count arrays"; which numpy layout or dtype carries the numbers is not part of the statement, so every
# representation pyCSEP accepts must give the definition's value.
LAYOUTS_2D = ["C", "F", "T", "colstep", "rowstep", "window", "rev", "revcol", "readonly"]
LAYOUTS_1D = ["C", "step", "window", "rev", "readonly"]
RATE_DTYPES = ["f8", "i8", "i4", "f4"]
COUNT_DTYPES = ["i8", "f8", "?", "u1", "i4", "f4", "u8"]
# Rate dtypes beyond float64 / int64 / int32 / float32(>= 1e-3).  On them the implementation before fix D34 (/repo cf1bfa1)
# departed from the definition (witnesses in corpus/C16/d34_*.json):
#   rates-unsigned-int : `-forecast` wrapped around for uint8/16/32/64 rates (256.0 where the definition gives -2.51)
#   rates-narrow-float : int8 / float16 rates were exponentiated in float16 (5e-5 off), int16 in float32
#   rates-float32-tiny : float32 rates below 1e-3 in an active bin: 1 - exp(-rate) was formed in float32; below 6e-8 it is 0
#                        and the bin scored +1.0 (0.5 where the definition gives -18.9)
# All three classes are generated now.  AWAITING_DECISION lists sub-classes on which the UNCHANGED implementation still
# departs from the definition (genuine-defect candidates, notes/C16.md "Observed"); a name in it switches off exactly the
# comparison named, nothing else:
#   map-unsigned-int-rates : poisson_evaluations.binary_spatial_likelihood (the per-cell map) on a forecast whose rates are
#                            unsigned integers: `-forecast.spatial_counts() * scale` wraps around, every cell is nan.
#                            Only the per-cell map comparison is skipped for these forecasts; the joint log-likelihood,
#                            the Brier score and the three public tests are checked on them like on any other.
AWAITING_DECISION = ["map-unsigned-int-rates"]
_EXTRA_DTYPES = {"rates-unsigned-int": ["u1", "u4", "u8"], "rates-narrow-float": ["i1", "f2", "i2"],
                 "rates-float32-tiny": ["f4tiny"]}
_NP = {"f8": numpy.float64, "i8": numpy.int64, "i4": numpy.int32, "f4": numpy.float32, "f4tiny": numpy.float32,
       "?": numpy.bool_, "u1": numpy.uint8, "u4": numpy.uint32, "u8": numpy.uint64, "i1": numpy.int8, "i2": numpy.int16,
       "f2": numpy.float16}


def _rate_dtypes():
    out = list(RATE_DTYPES)
    for name, dts in _EXTRA_DTYPES.items():
        if name not in AWAITING_DECISION:
            out += dts
    return out


# The SCORES (joint log-likelihood, Brier score; observed and simulated entries of the tests) are compared with the
# definition to double-precision rounding whatever the dtype of the rate array: the rates are exact numbers, and a score
# formed in a narrower arithmetic is off by far more than that (fix D34).
EPS64 = 2.0 ** -51


def _unit(rdtype):
    """round-off (generously: 2 ulp) of arithmetic carried out IN the rate array's own floating dtype - what numpy uses
    when the implementation sums (marginal rates), accumulates (sampling weights) or, in the per-cell map, exponentiates
    the array as it is. 0.0 for float64 and for every integer dtype (integer sums are exact, then float64)."""
    if rdtype in ("f4", "f4tiny"):
        return 2.0 ** -22
    if rdtype == "f2":
        return 2.0 ** -9
    return 0.0


def _layout(a, kind, fill):
    """an array equal to `a` in shape, dtype and values whose memory is laid out as `kind`; memory that does not belong
    to the result is filled with `fill` so that reading the buffer instead of the array shows"""
    a = numpy.ascontiguousarray(a)
    if kind == "C" or a.size == 0:
        return a.copy()
    if kind == "readonly":
        out = a.copy()
        out.flags.writeable = False
        return out
    if kind == "F":
        return numpy.asfortranarray(a)
    if kind == "T":
        return numpy.ascontiguousarray(a.T).T
    if kind in ("colstep", "step"):
        big = numpy.full(a.shape[:-1] + (2 * a.shape[-1] + 1,), fill, dtype=a.dtype)
        big[..., 1::2] = a
        return big[..., 1::2]
    if kind == "rowstep":
        big = numpy.full((2 * a.shape[0],) + a.shape[1:], fill, dtype=a.dtype)
        big[::2] = a
        return big[::2]
    if kind == "window":
        big = numpy.full(tuple(n + 3 for n in a.shape), fill, dtype=a.dtype)
        sl = tuple(slice(1 + k, 1 + k + n) for k, n in enumerate(a.shape))
        big[sl] = a
        return big[sl]
    if kind == "rev":
        return numpy.ascontiguousarray(a[::-1])[::-1]
    if kind == "revcol":
        return numpy.ascontiguousarray(a[:, ::-1])[:, ::-1]
    raise ValueError(kind)


_DEV = {"oracle": 0.0, "model": 0.0}


def _track(kind, a, b):
    if a != b and math.isfinite(a) and math.isfinite(b):
        _DEV[kind] = max(_DEV[kind], abs(a - b) / max(abs(a), abs(b), 1e-300))


def _bits(x):
    return str(struct.unpack("<Q", struct.pack("<d", float(x)))[0])


def _unbits(s):
    return struct.unpack("<d", struct.pack("<Q", int(s)))[0]


def _rows(a, f):
    return ";".join(",".join(f(x) for x in row) for row in a)


def _lst(a, f):
    a = list(a)
    return ",".join(f(x) for x in a) if a else "-"


# ----------------------------------------------------------------------------- the definitions (oracle)
def _binary_def(rates, counts, eps=2.0 ** -51, rate_err=0.0):
    """returns (definition value, value of the bins that are not offending, number of offending bins, abs tolerance)
    offending = active bin with rate <= 0 (definition -inf).  eps: round-off of the arithmetic the rate dtype implies
    (float64 unless the rates are float32); rate_err: relative uncertainty of the rates themselves (marginal sums formed
    in float32)"""
    act, inact, offending, cond = [], [], 0, 0.0
    wide = eps > 2.0 ** -51
    for r, c in zip(rates, counts):
        r = float(r)
        if c > 0:
            if r <= 0.0:
                offending += 1
            else:
                p = -math.expm1(-r)
                lp = math.log(p)
                act.append(lp)
                cond += eps / p + rate_err * r / p
                if wide:
                    cond += eps * abs(lp)
        else:
            inact.append(-r)
            cond += rate_err * r
    rest = math.fsum(act + inact)
    return (-math.inf if offending else rest), rest, offending, cond


def _brier_def(rates, counts, eps=2.0 ** -51):
    n = len(rates)
    terms, cond = [], 0.0
    for r, c in zip(rates, counts):
        d = -math.expm1(-float(r)) - (1.0 if c > 0 else 0.0)
        terms.append(d * d)
        cond += 2.0 * abs(d) * eps
    return -2.0 / n * math.fsum(terms), 2.0 / n * cond


def _close(a, b, abs_tol):
    if a == b:
        return True
    if math.isinf(a) or math.isinf(b) or math.isnan(a) or math.isnan(b):
        return False
    return abs(a - b) <= 1e-9 * max(abs(a), abs(b)) + abs_tol + 1e-300


_PROBE = []


def _masked_contribution():
    """what binary_joint_log_likelihood_ndarray adds for ONE active bin of rate 0 (None if it is not finite)"""
    if not _PROBE:
        from csep.core.binomial_evaluations import binary_joint_log_likelihood_ndarray
        with numpy.errstate(all="ignore"):
            v = float(binary_joint_log_likelihood_ndarray(numpy.array([0.0, 1.0]), numpy.array([1, 0])))
        _PROBE.append(v + 1.0 if math.isfinite(v) else None)
    return _PROBE[0]


def _check_binary(run, case, what, val, rates, counts, eps=2.0 ** -51, rate_err=0.0):
    """direct oracle for one binary-LL value; returns the abs tolerance used for the model comparison (None: the entry is
    -inf as the definition demands for an event in a zero-rate bin, which the property allows besides the known finding)"""
    dv, rest, k, cond = _binary_def(rates, counts, eps, rate_err)
    _track("oracle", val, dv)
    if k:
        run.count("binary-offending")
        # the definition is -inf. Known finding D17 ONLY if every other bin is right, i.e. the value is `rest + k*c` where
        # c is the finite constant the implementation itself gives to one such bin (probed on [0.0, 1.0] / [1, 0];
        # +1.0 at present, proved for the model in BinaryBrier.binaryLL_zero_rate_event); any other value is an
        # unrelated discrepancy and stays a violation.
        if val == -math.inf:
            # the implementation agrees with the definition (D17 repaired upstream): nothing to report, and the Lean model
            # of the masking no longer applies to this entry
            run.count("binary-offending-neginf")
            return None
        c = _masked_contribution()
        if c is not None and math.isfinite(val) and _close(val, rest + k * c, cond):
            run.oracle_failure(case, f"{what}: finite value {val!r} where the definition is -inf ({k} active bin(s) with "
                                     f"rate <= 0)", signature=SIG_D17)
        else:
            run.oracle_failure(case, f"{what}: value {val!r}; definition -inf; {k} active bin(s) with rate <= 0, the other "
                                     f"bins sum to {rest!r}: not the known masking behaviour")
    elif not _close(val, dv, cond):
        run.oracle_failure(case, f"{what}: value {val!r} != definition {dv!r}")
    elif val > cond and all(float(r) >= 0.0 for r in rates):
        # sign (BinaryBrier.binaryLL_nonpos): no active bin with rate <= 0, all rates >= 0  =>  score <= 0
        run.oracle_failure(case, f"{what}: positive joint log-likelihood {val!r}")
    return cond


def _check_brier(run, case, what, val, rates, counts, eps=2.0 ** -51, rate_err=0.0):
    dv, cond = _brier_def(rates, counts, eps)
    _track("oracle", val, dv)
    if not _close(val, dv, cond):
        run.oracle_failure(case, f"{what}: value {val!r} != definition {dv!r}")
    return cond


# ----------------------------------------------------------------------------- array level
def _gen_rates(rng, g, shape):
    cls = rng.choice(["wide", "wide", "tiny", "large", "mixed"])
    if cls == "wide":
        a = 10.0 ** g.uniform(-9, 1, size=shape)
    elif cls == "tiny":
        a = 10.0 ** g.uniform(-9, -6, size=shape)
    elif cls == "large":
        a = 10.0 ** g.uniform(0, 1, size=shape)
    else:
        a = numpy.where(g.random(shape) < 0.5, 1e-9, 10.0)
    z = rng.choice([0.0, 0.0, 0.05, 0.15])
    a = numpy.where(g.random(shape) < z, 0.0, a)
    return cls, a


def _gen_counts(rng, g, rates, allow_zero_rate):
    shape = rates.shape
    kind = rng.choice(["none", "single", "few-multi", "many", "all-active", "sparse-big"])
    c = numpy.zeros(shape, dtype=int)
    n = c.size
    flat = c.ravel()
    ok = numpy.arange(n) if allow_zero_rate else numpy.nonzero(rates.ravel() > 0)[0]
    if kind != "none" and len(ok):
        if kind == "single":
            flat[rng.choice(list(ok))] = 1
        elif kind == "few-multi":
            for i in rng.sample(list(ok), min(len(ok), rng.randint(1, 4))):
                flat[i] = rng.randint(2, 9)
        elif kind == "many":
            for i in ok:
                if rng.random() < 0.5:
                    flat[i] = rng.choice([1, 1, 2, 3, 17])
        elif kind == "all-active":
            for i in ok:
                flat[i] = rng.randint(1, 3)
        else:
            flat[rng.choice(list(ok))] = rng.randint(50, 300)
    return kind, flat.reshape(shape)


def _same_support(rng, counts):
    out = counts.copy()
    f = out.ravel()
    for i in range(f.size):
        if f[i] > 0:
            f[i] = rng.choice([1, f[i] + 1, rng.randint(1, 1000)])
    return f.reshape(counts.shape)


def _materialise(spec):
    """the rate and count arrays of an array-level spec in the representation (dtype, memory layout) the spec names,
    plus their C-order float64 / int values (what the definition is evaluated on)"""
    shape = tuple(spec["shape"])
    rdt, cdt = spec.get("rdtype", "f8"), spec.get("cdtype", "f8" if spec.get("float_counts") else "i8")
    vals = numpy.array([float.fromhex(x) for x in spec["rates"]]).reshape(shape)
    rates = _layout(vals.astype(_NP[rdt]), spec.get("rlayout", "C"), 3.0)
    c0 = numpy.array(spec["counts"], dtype=int).reshape(shape)
    c2 = numpy.array(spec["counts2"], dtype=int).reshape(shape)
    if cdt == "u1":
        c0, c2 = numpy.minimum(c0, 255), numpy.minimum(c2, 255)
    counts = _layout(c0.astype(_NP[cdt]), spec.get("clayout", "C"), 5)
    counts2 = _layout(c2.astype(_NP[cdt] if cdt != "?" else int), spec.get("clayout2", "C"), 5)
    if not (numpy.array_equal(rates, vals) and rates.shape == shape and counts.shape == shape):
        raise AssertionError("harness: the representation changed the values")         # exit 2, never a verdict
    return rates, counts, counts2, vals, rdt, cdt


def _array_case(run, drv, pending, spec, tag="array"):
    from csep.core.binomial_evaluations import binary_joint_log_likelihood_ndarray
    from csep.core.brier_evaluations import _brier_score_ndarray
    shape = tuple(spec["shape"])
    rates, counts, counts2, vals, rdt, cdt = _materialise(spec)
    eps = EPS64
    case = dict(spec=spec, kind="array", tag=tag)
    fr, fc = vals.ravel().tolist(), [int(x) for x in numpy.ascontiguousarray(counts).ravel()]
    n_act = sum(1 for c in fc if c > 0)
    nontriv = 0 < n_act < len(fc) and max(fc) >= 2
    rl, cl = spec.get("rlayout", "C"), spec.get("clayout", "C")
    run.case(dict(kind="array", shape=list(shape), cls=spec["cls"], counts=spec["ckind"], active=n_act,
                  zeros=int((vals == 0).sum()), tag=tag, rdtype=rdt, cdtype=cdt, rlayout=rl, clayout=cl),
             (vals.tobytes(), numpy.ascontiguousarray(counts).tobytes(), rdt, cdt, rl, cl) if nontriv else None)
    run.count(f"array-{len(shape)}d")
    run.count(f"rates-{spec['cls']}")
    run.count(f"counts-{spec['ckind']}")
    run.count(f"rate-dtype-{rdt}")
    run.count(f"count-dtype-{cdt}")
    run.count(f"rate-layout-{rl}")
    run.count(f"count-layout-{cl}")
    if len(shape) == 2 and rates.flags.c_contiguous != counts.flags.c_contiguous:
        run.count("layouts-differ")
    try:
        with numpy.errstate(all="ignore"):
            # the arrays are handed over as they are (no copy: a copy would normalise the layout under test)
            bll = float(binary_joint_log_likelihood_ndarray(rates, counts))
            bll2 = float(binary_joint_log_likelihood_ndarray(rates, counts2))
            bri = float(_brier_score_ndarray(rates, counts))
            bri2 = float(_brier_score_ndarray(rates, counts2))
    except Exception as e:
        run.oracle_failure(case, f"array-level call raised {type(e).__name__}: {e}")
        return
    t1 = _check_binary(run, case, "binary_joint_log_likelihood_ndarray", bll, fr, fc, eps)
    t2 = _check_brier(run, case, "_brier_score_ndarray", bri, fr, fc, eps)
    # depends on the observation only through which bins are active
    if not ((bll == bll2 if t1 is None else _close(bll, bll2, t1)) and _close(bri, bri2, t2)):
        run.oracle_failure(case, f"scores differ for two count arrays with the same support: binary {bll!r} vs {bll2!r}, "
                                 f"brier {bri!r} vs {bri2!r}")
    i = drv.ask(f"c16_bll {_lst(fr, _bits)} {_lst(fc, str)}")
    j = drv.ask(f"c16_brier {_lst(shape, str)} {_lst(fr, _bits)} {_lst(fc, str)}")
    pending.append((case, "array", [i, j], [bll, bri], [t1, t2]))
    if spec.get("drivers"):
        _array_drivers(run, drv, pending, case, spec, rates, counts, vals, fc, rdt)


def _array_drivers(run, drv, pending, case, spec, rates, counts, vals, fc, rdt):
    """the array-level test drivers behind the public tests, on the same representation: observed and every simulated
    entry are the definition's values (injected uniform numbers, one per active bin)"""
    from csep.core.binomial_evaluations import _binary_likelihood_test
    from csep.core.brier_evaluations import _brier_score_test
    n_active = sum(1 for c in fc if c > 0)
    nsim = spec["drivers"]
    g = numpy.random.default_rng(spec["rn_seed"])
    shape = tuple(spec["shape"])
    for mode, fn in (("CL", _binary_likelihood_test), ("B", _brier_score_test)):
        rn = g.random((nsim, n_active))
        try:
            with numpy.errstate(all="ignore"):
                qs, obs, td = fn(rates, counts, num_simulations=nsim, random_numbers=rn, verbose=False)
        except Exception as e:
            run.oracle_failure(case, f"{fn.__name__} raised {type(e).__name__}: {e}")
            continue
        run.count(f"call-{fn.__name__}")
        _score_entries(run, drv, pending, case, mode, fn.__name__, vals.reshape(shape if len(shape) == 2 else (-1, 1)),
                       numpy.array(fc).reshape(shape if len(shape) == 2 else (-1, 1)), rn, float(obs),
                       [float(x) for x in td], rdt, qs=qs, dims=list(shape))
        if spec["rn_seed"] % 8 == 0:
            _wrong_width(run, drv, pending, case, mode, fn, (rates, counts), n_active, nsim, g, vals.ravel(), fc,
                         list(shape))


LAYOUT_SHARE = 0.5


def _gen_array_spec(rng, tier):
    g = numpy.random.default_rng(rng.randrange(2 ** 32))
    if rng.random() < 0.5:
        shape = (rng.choice([1, 2, 3, 10, 50, 200, rng.randint(1, 200)]),)
    else:
        shape = (rng.choice([1, 2, 5, 40, rng.randint(1, 40)]), rng.choice([1, 2, 8, rng.randint(1, 8)]))
    rep = rng.random() < LAYOUT_SHARE
    rdt = rng.choice(_rate_dtypes()) if rep and rng.random() < 0.6 else "f8"
    if rdt in ("f8",):
        cls, rates = _gen_rates(rng, g, shape)
    else:
        cls, rates = _gen_rates_dtype(rng, g, shape, rdt)
    if not (rates > 0).any():
        rates.ravel()[rng.randrange(rates.size)] = 10.0 ** rng.uniform(-9, 1) if rdt == "f8" else 1.0
    ckind, counts = _gen_counts(rng, g, rates, allow_zero_rate=rng.random() < 0.25)
    lay = LAYOUTS_2D if len(shape) == 2 else LAYOUTS_1D
    spec = dict(shape=list(shape), cls=cls, ckind=ckind, rates=[float(x).hex() for x in rates.ravel()],
                counts=[int(x) for x in counts.ravel()], counts2=[int(x) for x in _same_support(rng, counts).ravel()],
                float_counts=rng.random() < 0.5)
    if rep:
        spec.update(rdtype=rdt, cdtype=rng.choice(COUNT_DTYPES), rlayout=rng.choice(lay), clayout=rng.choice(lay),
                    clayout2=rng.choice(lay), drivers=rng.choice([0, 1, 2]), rn_seed=rng.randrange(2 ** 32))
        if rdt in ("f8",) and rng.random() < 0.5:
            spec["rlayout"] = rng.choice(["F", "T", "colstep", "rowstep"] if len(shape) == 2 else ["step", "rev"])
    return spec


def _gen_rates_dtype(rng, g, shape, rdt):
    """rate values exactly representable in the dtype `rdt` (returned as float64): whole numbers 0..10 for the integer
    dtypes, float32 / float16 roundings of 10^U(lo, 1) for the narrow floats"""
    z = rng.choice([0.0, 0.0, 0.05, 0.15])
    if rdt[0] in "iu":
        a = g.integers(1, 11, size=shape).astype(float)
        if rng.random() < 0.3:
            a = numpy.where(g.random(shape) < 0.7, 1.0, a)
        cls = "whole"
    else:
        lo = -9 if rdt == "f4tiny" else -3
        a = (10.0 ** g.uniform(lo, 1, size=shape)).astype(_NP[rdt]).astype(float)
        a = numpy.minimum(a, 10.0)
        cls = "narrow-float"
    a = numpy.where(g.random(shape) < z, 0.0, a)
    return cls, a


# ----------------------------------------------------------------------------- public tests
def _gen_test_spec(rng, tier):
    ns = rng.choice([1, 2, 3, 5, 8, 13, 20, 40, rng.randint(1, 40)])
    nm = rng.choice([1, 1, 2, 3, 8, rng.randint(1, 8)])
    g = numpy.random.default_rng(rng.randrange(2 ** 32))
    rep = rng.random() < 0.35
    rdt = rng.choice(_rate_dtypes()) if rep and rng.random() < 0.6 else "f8"
    rl = rng.choice(LAYOUTS_2D) if rep else "C"
    if rep and rdt == "f8" and rng.random() < 0.6:
        rl = rng.choice(["F", "T", "colstep", "rowstep"])
    cls, data = _gen_rates(rng, g, (ns, nm)) if rdt == "f8" else _gen_rates_dtype(rng, g, (ns, nm), rdt)
    k = rng.random()
    if k < 0.1 and ns > 1:
        data[rng.randrange(ns), :] = 0.0
    if not (data > 0).any():
        data[rng.randrange(ns), rng.randrange(nm)] = 10.0 ** rng.uniform(-9, 1) if rdt == "f8" else 1.0
    n = rng.choice([0, 1, 2, rng.randint(3, 20), rng.randint(0, 300), 300])
    allow_zero = rng.random() < 0.2
    flat = [(i, j) for i in range(ns) for j in range(nm) if allow_zero or data[i, j] > 0]
    chosen = rng.sample(flat, min(len(flat), rng.choice([1, 2, 3, len(flat), rng.randint(1, len(flat))])))
    forced = None
    if rng.random() < 0.2 and ns * nm > 1 and n > 0:
        # force the known-finding situation: an event in a zero-rate bin (making one if the array has none)
        zeros = [(i, j) for i in range(ns) for j in range(nm) if data[i, j] == 0.0]
        forced = rng.choice(zeros) if zeros else (rng.randrange(ns), rng.randrange(nm))
        data[forced] = 0.0
        if not (data > 0).any():
            k = rng.choice([q for q in range(ns * nm) if (q // nm, q % nm) != forced])
            data[k // nm, k % nm] = 10.0 ** rng.uniform(-9, 1) if rdt == "f8" else 1.0
        chosen = [c for c in chosen if data[c] > 0 or allow_zero] + [forced]
    events = []
    for e in range(n):
        i, j = forced if (forced is not None and e == 0) else rng.choice(chosen)
        events.append([i, j, rng.uniform(0.2, 0.8).hex(), rng.uniform(0.2, 0.8).hex(), rng.uniform(0.2, 0.8).hex()])
    spec = dict(ns=ns, nm=nm, cls=cls, data=[[float(x).hex() for x in row] for row in data], events=events,
                nx=rng.randint(1, ns), dh=rng.choice([0.1, 0.5, 1.0]), x0=float(rng.randint(-20, 20)),
                y0=float(rng.randint(-20, 20)), m0=rng.choice([2.5, 4.0, 4.95]), dm=rng.choice([0.1, 0.5, 1.0]),
                nsim=rng.choice([1, 2, 3]) if tier == "quick" else rng.choice([1, 2, 3, 5]),
                rn_seed=rng.randrange(2 ** 32), same_region=rng.random() < 0.5,
                fscale=rng.choice([None, None, None, 2.0, 0.5, 10.0, 3.0, 0.1]), open_mag=rng.random() < 0.15)
    if rep:
        spec.update(rdtype=rdt, rlayout=rl)
        if rdt != "f8":
            # whole-number / float32 rates are held as they are (data/c would leave the dtype's value set)
            spec["fscale"] = None
    return spec


def _build(spec):
    from csep.core.catalogs import CSEPCatalog
    from csep.core.forecasts import GriddedForecast
    from csep.core.regions import CartesianGrid2D
    ns, nm, nx, dh = spec["ns"], spec["nm"], spec["nx"], spec["dh"]
    data = numpy.array([[float.fromhex(x) for x in row] for row in spec["data"]], dtype=float).reshape(ns, nm)
    origins = numpy.array([[spec["x0"] + dh * (k % nx), spec["y0"] + dh * (k // nx)] for k in range(ns)])
    mags = [spec["m0"] + spec["dm"] * k for k in range(nm)]
    region = CartesianGrid2D.from_origins(origins, dh=dh, magnitudes=mags)
    c = spec.get("fscale")
    rdt, rl = spec.get("rdtype", "f8"), spec.get("rlayout", "C")
    if c:
        # the forecast holds data/c and is scaled by c (GriddedDataSet.scale): the rates under test are `fore.data`
        fore = GriddedForecast(data=_layout((data / c).astype(_NP[rdt]), rl, 3.0), region=region, magnitudes=mags,
                               name="forecast").scale(c)
        data = numpy.array(fore.data, dtype=float)
    else:
        # the same numbers in the representation (dtype, memory layout) the spec names
        held = _layout(data.astype(_NP[rdt]), rl, 3.0)
        if not numpy.array_equal(held, data):
            raise AssertionError("harness: the representation changed the values")
        fore = GriddedForecast(data=held, region=region, magnitudes=mags, name="forecast")
    cnt = numpy.zeros((ns, nm), dtype=int)
    ev = []
    for k, (i, j, fx, fy, fm) in enumerate(spec["events"]):
        fx, fy, fm = float.fromhex(fx), float.fromhex(fy), float.fromhex(fm)
        mag = mags[j] + spec["dm"] * (fm if not (spec.get("open_mag") and j == nm - 1) else 1.0 + 4.0 * fm)
        ev.append((str(k), 1000 * k, origins[i, 1] + dh * fy, origins[i, 0] + dh * fx, 10.0, mag))
        cnt[i, j] += 1
    cat_region = fore.region if spec["same_region"] else CartesianGrid2D.from_origins(origins, dh=dh, magnitudes=mags)
    cat = CSEPCatalog(data=ev, region=cat_region, name="catalog")
    return fore, cat, data, cnt


def _sim_counts(rates1d, rn, band=0.0):
    """the simulated catalog the inverse-CDF sampler (C06) places for the uniform numbers `rn`; None when a number lies
    within `band` of a bin boundary (weights formed in float32 may put it on either side: both answers are allowed)"""
    w = numpy.cumsum(rates1d)
    w = w / w[-1]
    if band and len(rn) and numpy.min(numpy.abs(numpy.asarray(rn)[:, None] - w[None, :])) <= band:
        return None
    idx = numpy.searchsorted(w, rn, side="right")
    return numpy.bincount(idx, minlength=len(rates1d)).astype(int)


def _frac(x):
    n, d = float(x).as_integer_ratio()
    return f"{n}/{d}" if d != 1 else str(n)


def _rows_txt(rn):
    return "R" + ";".join(",".join(_frac(x) for x in row) if len(row) else "-" for row in rn)


def _score_entries(run, drv, pending, case, mode, fname, data, cnt, rn, obs, td, rdt, qs=None, rates_exact=None,
                   dims=None):
    """oracle + model request for the observed and every simulated entry of one test. data: (space, magnitude) float64
    values of the rates under test, cnt: the gridded observation, rn: injected numbers, rdt: dtype of the rate array"""
    nsim = len(rn)
    eps, unit, rate_err, band = EPS64, _unit(rdt), 0.0, 0.0
    if mode == "S":
        rates1d, obs1d, orates = data.sum(axis=1), cnt.sum(axis=1), [math.fsum(r) for r in data.tolist()]
        rate_err = (data.shape[1] + 1) * unit        # the implementation sums float32 / float16 rates in their own dtype
    else:
        rates1d, obs1d, orates = data.ravel(), cnt.ravel(), data.ravel().tolist()
    band = 4.0 * unit * len(rates1d)                 # ... and accumulates the sampling weights in it
    if len(td) != nsim:
        run.oracle_failure(case, f"{fname}: test_distribution has {len(td)} entries for {nsim} simulations")
        return
    if qs is not None and nsim > 0:
        # the reported quantile is the share of reported simulated entries not above the reported observed one (exact)
        want = sum(1 for x in td if x <= obs) / nsim
        if not (float(qs) == want):
            run.oracle_failure(case, f"{fname}: quantile {float(qs)!r} but {sum(1 for x in td if x <= obs)} of {nsim} "
                                     f"simulated entries are <= the observed one")
    sims = [_sim_counts(rates1d, rn[k, :], band) for k in range(nsim)]
    entries = [("observed", obs1d, obs)] + [(f"simulated[{k}]", sims[k], td[k]) for k in range(nsim)]
    vals, tols = [], []
    for name, counts, val in entries:
        if counts is None:
            run.count("sim-entry-ambiguous-narrow-float-weights")
            vals.append(val)
            tols.append(None)
            continue
        chk = _check_brier if mode == "B" else _check_binary
        tols.append(chk(run, case, f"{fname} {name}", val, orates, [int(c) for c in counts], eps, rate_err))
        vals.append(val)
    if any(s_ is None for s_ in sims):
        return                       # the model request needs every simulated catalog; the observed entry was checked above
    simtxt = ";".join(",".join(str(int(c)) for c in s_) for s_ in sims) if sims else "-"
    i = drv.ask(f"c16_mode {mode} {_rows(data, _bits)} {_rows(cnt, lambda c: str(int(c)))} {simtxt}")
    pending.append((case, mode, [i], vals, tols))
    # wave 4: the whole test inside the model - only rates, observed counts and the uniform numbers are sent; the model
    # places the simulated events itself (Soft64 weights of C06) and scores them.  rates_exact: the 1-D rate vector the
    # implementation works on, bit for bit (the S-test's marginal sums depend on numpy's summation order).
    # Not sent when the weights are formed in a narrow floating dtype (unit != 0: either placement is allowed there).
    if unit == 0.0 and nsim > 0:
        r1 = numpy.asarray(rates1d if rates_exact is None else rates_exact, dtype=float).ravel()
        if len(r1) == len(obs1d) and numpy.all(numpy.isfinite(r1)):
            dd = dims or [len(r1)]
            j = drv.ask(f"c16_pipe {'B' if mode == 'B' else 'L'} {_lst(dd, str)} {_lst(r1, _frac)} {_lst(r1, _bits)} "
                        f"{_lst(obs1d, lambda c: str(int(c)))} {_rows_txt(rn)}")
            pending.append((case, "pipe", [j], dict(vals=vals, tols=tols, sims=sims, qs=qs, fname=fname), None))
            run.count(f"pipeline-{mode}")


def _wrong_width(run, drv, pending, case, mode, fn, args, n_active, nsim, g, rates1d, counts1d, dims):
    """rows of uniform numbers whose width is not the number of active bins: `assert sim_fore.sum() == sim_cells` must
    fail (AssertionError), in the implementation and in the model (BinaryBrier.pipeline_row_width_assert)"""
    w = n_active + 1 if (n_active == 0 or g.random() < 0.5) else n_active - 1
    rn = g.random((max(nsim, 1), w))
    try:
        with numpy.errstate(all="ignore"):
            fn(*args, num_simulations=max(nsim, 1), random_numbers=rn)
        got = "returned"
    except Exception:                # which exception is not part of any statement: AssertionError today
        got = "exception"
    run.count(f"wrong-width-{mode}")
    if got != "exception":
        # the injected numbers are a testing hook and the property is silent about malformed ones: a library that accepts
        # them is not in violation; counted, and the model (which transcribes the assertion) is not consulted
        run.count(f"wrong-width-accepted-{mode}")
        return
    r1 = numpy.asarray(rates1d, dtype=float).ravel()
    if len(r1) == len(counts1d) and numpy.all(numpy.isfinite(r1)):
        dd = dims or [len(r1)]
        j = drv.ask(f"c16_pipe {'B' if mode == 'B' else 'L'} {_lst(dd, str)} {_lst(r1, _frac)} {_lst(r1, _bits)} "
                    f"{_lst(counts1d, lambda c: str(int(c)))} {_rows_txt(rn)}")
        pending.append((dict(case, wrong_width=w), "pipe-exc", [j], got, None))


def _test_case(run, drv, pending, spec, tag="test"):
    from csep.core import binomial_evaluations as be
    from csep.core import brier_evaluations as br
    fore, cat, data, cnt = _build(spec)
    ns, nm, nsim = spec["ns"], spec["nm"], spec["nsim"]
    rdt, rl = spec.get("rdtype", "f8"), spec.get("rlayout", "C")
    g = numpy.random.default_rng(spec["rn_seed"])
    case = dict(spec=spec, kind="test", tag=tag)
    fc = cnt.ravel().tolist()
    nontriv = 0 < sum(1 for c in fc if c > 0) < len(fc) and max(fc) >= 2
    run.case(dict(kind="test", shape=[ns, nm], cls=spec["cls"], n_obs=len(spec["events"]),
                  zeros=int((data == 0).sum()), tag=tag, rdtype=rdt, rlayout=rl),
             (data.tobytes(), cnt.tobytes(), rdt, rl) if nontriv else None)
    run.count(f"forecast-dtype-{rdt}")
    run.count(f"forecast-layout-{rl}")
    for mode, fn in (("S", be.binary_spatial_test), ("CL", be.binary_conditional_likelihood_test),
                     ("B", br.brier_score_test)):
        obs1d = cnt.sum(axis=1) if mode == "S" else cnt.ravel()
        n_active = int((obs1d > 0).sum())
        rn = g.random((nsim, n_active))
        try:
            with numpy.errstate(all="ignore"):
                res = fn(fore, cat, num_simulations=nsim, random_numbers=rn)
        except Exception as e:
            run.oracle_failure(case, f"{fn.__name__} raised {type(e).__name__}: {e}")
            continue
        run.count(f"call-{fn.__name__}")
        rex = None
        if mode == "S":
            with numpy.errstate(all="ignore"):
                rex = numpy.asarray(fore.spatial_counts(), dtype=float)
        _score_entries(run, drv, pending, case, mode, fn.__name__, data, cnt, rn, float(res.observed_statistic),
                       [float(x) for x in res.test_distribution], rdt, qs=res.quantile, rates_exact=rex,
                       dims=[ns, nm] if mode == "B" else None)
        if spec["rn_seed"] % 8 == 0:
            _wrong_width(run, drv, pending, case, mode, fn, (fore, cat), n_active, nsim, g,
                         rex if mode == "S" else data.ravel(), [int(c) for c in obs1d], [ns, nm] if mode == "B" else None)
    _cells_check(run, drv, pending, case, fore, cat, data, cnt, rdt)


def _cells_check(run, drv, pending, case, fore, cat, data, cnt, rdt="f8"):
    """binary_spatial_likelihood: per-cell binary terms of the spatial rates scaled by N_obs/N_fore. Checked where every
    scaled rate is positive (all spatial rates positive, catalog not empty); elsewhere only counted (0*log 0 = nan).
    Dtype-aware: a cell whose own term 1 - exp(-rate*scale) is 0 in the forecast's floating dtype is not compared."""
    from csep.core import poisson_evaluations as pe
    n = int(cnt.sum())
    srates = [math.fsum(r) for r in data.tolist()]
    try:
        with numpy.errstate(all="ignore"):
            bill = numpy.asarray(pe.binary_spatial_likelihood(fore, cat), dtype=float)
    except Exception as e:
        run.oracle_failure(case, f"binary_spatial_likelihood raised {type(e).__name__}: {e}")
        return
    if n == 0 or min(srates) <= 0.0:
        run.count("cells-outside-domain")
        run.extra["cells_nan_outside_domain"] = run.extra.get("cells_nan_outside_domain", 0) + int(numpy.isnan(bill).sum())
        return
    if rdt[0] == "u" and "map-unsigned-int-rates" in AWAITING_DECISION:
        run.count("cells-awaiting-decision:map-unsigned-int-rates")
        return
    run.count("cells-checked")
    s = n / math.fsum(srates)
    w = cnt.sum(axis=1)
    # the map works on the forecast as it is: for float32 / float16 rates the marginal sums, the scale and
    # 1 - exp(-rate * scale) are formed in that dtype (integer rates: exact sums, then float64)
    unit, nm = _unit(rdt), data.shape[1]
    slack = (nm + 4) * unit
    if unit:
        with numpy.errstate(all="ignore"):
            scale_dt = _NP[rdt](n) / _NP[rdt](math.fsum(srates))
        if not numpy.isfinite(scale_dt):
            # N_obs / N_fore exceeds the largest number of the forecast's dtype (float16: 65504): every cell is inf or nan
            run.count("cells-scale-overflows-in-forecast-dtype")
            return
    ref, tols = [], []
    for r, c in zip(srates, w):
        l = r * s
        if unit and (_underflows(l * (1.0 - slack), _NP[rdt]) or not numpy.isfinite(_NP[rdt](l * (1.0 + slack)))):
            # 1 - exp(-rate * scale) is 0 in the forecast's dtype (or rate * scale is not finite in it): the map's own term
            # is 0 * log(0) = nan (empty cell) or log(0) = -inf (active cell). Same kind of value as the nan of a zero-rate cell, outside the statement; the
            # cell is not compared (every other cell of the map is)
            run.count("cells-term-underflows-in-forecast-dtype")
            ref.append(None)
            tols.append(None)
        elif c > 0:
            p = -math.expm1(-l)
            ref.append(math.log(p))
            tols.append(EPS64 / p + (unit / p + slack * (l / p + abs(ref[-1])) if unit else 0.0))
        else:
            ref.append(-l)
            tols.append(slack * l)
    if bill.shape != (len(ref),):
        run.oracle_failure(case, f"binary_spatial_likelihood: shape {bill.shape} for {len(ref)} cells")
        return
    bad = [k for k in range(len(ref)) if ref[k] is not None and not _close(float(bill[k]), ref[k], tols[k])]
    if bad:
        k = bad[0]
        run.oracle_failure(case, f"binary_spatial_likelihood cell {k}: {float(bill[k])!r} != definition {ref[k]!r}")
    i = drv.ask(f"c16_cells {_rows(data, _bits)} {_rows(cnt, lambda c: str(int(c)))}")
    pending.append((case, "cells", [i], [float(x) for x in bill], tols))


def _underflows(x, dt):
    """is 1 - exp(-x) zero in the floating dtype dt (exp(-x) rounds to 1)"""
    with numpy.errstate(all="ignore"):
        return bool(dt(1.0) - numpy.exp(-dt(x)) == dt(0.0))


def _flush_pipe(run, case, line, exp):
    """the model ran the whole test from (rates, counts, uniform numbers): entries, simulated catalogs, quantile"""
    vals, tols, sims, qs = exp["vals"], exp["tols"], exp["sims"], exp["qs"]
    parts = line.split(" | ")
    if len(parts) != 3:
        run.mismatch(dict(case, mode="pipe"), [repr(v) for v in vals], line)
        return
    model = [_unbits(t) for t in parts[0].split(" ")]
    ok = len(model) == len(vals) and all(t is None or _close(v, m, t) for v, m, t in zip(vals, model, tols))
    marr = [] if parts[2] == "-" else [[int(x) for x in a.split(",")] for a in parts[2].split(";")]
    harr = [[int(c) for c in s_] for s_ in sims]
    if not ok or marr != harr:
        run.mismatch(dict(case, mode="pipe"), dict(entries=[repr(v) for v in vals], simulated=harr),
                     dict(entries=[repr(m) for m in model], simulated=marr))
        return
    for v, m, t in zip(vals, model, tols):
        if t is not None:
            _track("model", v, m)
    if qs is not None and len(vals) > 1:
        k, n = (int(x) for x in parts[1].split("/"))
        obs = vals[0]
        tie = any(t is None or abs(v - obs) <= 1e-9 * max(abs(v), abs(obs)) + 2 * (t + (tols[0] or 0.0)) + 1e-300
                  for v, t in zip(vals[1:], tols[1:])) or tols[0] is None
        if not tie and float(qs) != k / n:
            run.mismatch(dict(case, mode="pipe-quantile"), float(qs), f"{k}/{n}")


def _flush(run, drv, pending):
    out = drv.run()
    for case, mode, idx, vals, tols in pending:
        if mode == "pipe-exc":
            if out[idx[0]] != vals:
                run.mismatch(dict(case, mode=mode), vals, out[idx[0]])
            continue
        if mode == "pipe":
            _flush_pipe(run, case, out[idx[0]], vals)
            continue
        toks = [t for i in idx for t in out[i].replace(",", " ").split(" ")]
        model = [_unbits(t) if t.isdigit() else None for t in toks]
        ok = len(model) == len(vals) and all(t is None or (m is not None and _close(v, m, t))
                                             for v, m, t in zip(vals, model, tols))
        if not ok:
            run.mismatch(dict(case, mode=mode), [repr(v) for v in vals], [repr(m) for m in model])
        else:
            for v, m, t in zip(vals, model, tols):
                if t is not None:
                    _track("model", v, m)
    run.extra["d17_contribution_of_an_event_in_a_zero_rate_bin"] = _masked_contribution()
    run.extra["max_rel_dev_impl_vs_oracle"] = _DEV["oracle"]
    run.extra["max_rel_dev_impl_vs_lean_float"] = _DEV["model"]
    pending.clear()


def _corpus_cases():
    """permanent witnesses: corpus/C16/*.json, each {"kind": "array"|"test", "spec": {...}} (layout of a replay case)"""
    import glob
    import json
    import os
    d = os.path.join(os.path.dirname(os.path.dirname(os.path.abspath(__file__))), "corpus", "C16")
    return [json.load(open(f)) for f in sorted(glob.glob(os.path.join(d, "*.json")))]


def _fixed_array_specs():
    def spec(shape, rates, counts, counts2=None, fl=False, **rep):
        return dict(dict(shape=list(shape), cls="fixed", ckind="fixed", rates=[float(x).hex() for x in rates],
                         counts=list(counts), counts2=list(counts2 or counts), float_counts=fl),
                    **(dict(dict(drivers=2, rn_seed=7), **rep) if rep else {}))
    r43 = [0.011, 0.7, 0.05, 2.5, 0.3, 0.002, 1.1, 0.09, 0.6, 0.004, 3.0, 0.25]
    c43 = [0, 2, 0, 1, 0, 0, 0, 0, 3, 0, 1, 0]
    return [
        # one (space x magnitude) array in several representations: column-major rates with row-major counts, the
        # reverse, slices, and whole-number rates stored as integers / float32, bool and uint8 observations
        spec((4, 3), r43, c43, rlayout="F", clayout="C"),
        spec((4, 3), r43, c43, rlayout="T", clayout="colstep", cdtype="f8"),
        spec((4, 3), r43, c43, rlayout="C", clayout="F", cdtype="?"),
        spec((4, 3), r43, c43, rlayout="rowstep", clayout="window", cdtype="u1"),
        spec((2, 3), [1, 2, 1, 3, 1, 1], [0, 1, 0, 2, 0, 0], rdtype="i8"),
        spec((2, 3), [1, 2, 0, 3, 10, 1], [0, 1, 0, 2, 0, 4], rdtype="i4", rlayout="F", cdtype="i4"),
        spec((5,), [0.5, 0.25, 2.0, 0.0, 8.0], [1, 0, 0, 0, 7], rdtype="f4", rlayout="step", clayout="rev"),
        spec((2, 3), [0.1, 0.2, 0.3, 0.4, 0.5, 0.6], [0, 1, 0, 2, 0, 0], [0, 5, 0, 1, 0, 0]),
        spec((4,), [0.5, 0.0, 0.3, 0.0], [1, 1, 0, 0]),                 # D17 witness: event in a zero-rate bin
        spec((1,), [1e-9], [3]),
        spec((3,), [10.0, 1e-9, 1.0], [0, 0, 0]),
        spec((2, 2), [0.0, 0.0, 0.0, 2.0], [0, 0, 0, 0], fl=True),
    ]


def run(run, rng, tier):
    drv, pending = Driver(), []
    for c in _corpus_cases():
        (_array_case if c.get("kind") == "array" else _test_case)(run, drv, pending, c["spec"], tag="corpus")
    for spec in _fixed_array_specs():
        _array_case(run, drv, pending, spec, tag="fixed")
    n_arr, n_test = (5000, 1500) if tier == "quick" else (60000, 18000)
    for _ in range(n_arr):
        _array_case(run, drv, pending, _gen_array_spec(rng, tier))
        if len(pending) >= 1000:
            _flush(run, drv, pending)
            drv = Driver()
    for _ in range(n_test):
        _test_case(run, drv, pending, _gen_test_spec(rng, tier))
        if len(pending) >= 600:
            _flush(run, drv, pending)
            drv = Driver()
    _flush(run, drv, pending)
    run.assumptions.append("events are generated at interior points of cells / magnitude bins (edge assignment is C01/C02)")
    run.assumptions.append("injected random numbers lie in [0, 1); the rejection sampler used without injection is C06 (D10)")


def replay(run, payload):
    case = payload["case"]
    drv, pending = Driver(), []
    if case.get("kind") == "array":
        _array_case(run, drv, pending, case["spec"], tag="replay")
    else:
        _test_case(run, drv, pending, case["spec"], tag="replay")
    _flush(run, drv, pending)
