"""C16 — binary likelihood and Brier score: correspondence of csep.core.binomial_evaluations / brier_evaluations with
Model/BinaryBrier.lean (Float instance) + direct oracle (the definitions, log1p/expm1 and math.fsum)."""
import math
import struct

import numpy

from .core import Driver

LEVEL_TEXT = ("Proof over the reals: for every rate array whose active bins have positive rates the value computed by "
              "binary_joint_log_likelihood_ndarray (masked-array shape included) is sum_active ln(1-exp(-rate)) + "
              "sum_inactive(-rate); the Brier value (divided by every dimension in turn) is -2/N sum (1-exp(-rate)-[active])^2 "
              "with N the product of the dimensions, and lies in [-2,0]; both depend on the counts only through their support "
              "(proved for every RealOps instance, so also for the executable Float model); the three public tests score the "
              "arrays the model says. What the code does for an event in a zero-rate bin (contribution +1, finite) and what the "
              "definition gives (-inf) are both theorems: known finding D17. Tied to the code by numerical correspondence of the "
              "Float instance on array-level calls and on the public tests (observed + every simulated entry, injected numbers) "
              "and by a direct oracle. Wave 4: the whole pipeline of _binary_likelihood_test / _brier_score_test and of the three "
              "wrappers is in the model (masked Soft64 sampling weights, searchsorted-right placement, add.at, count assertion, "
              "scores, quantile - composed with the sampler model of C06); proved: a simulated catalog never has an event in a bin "
              "of rate <= 0, hence EVERY simulated entry equals the definition with no hypothesis on the rates (D17 can only "
              "concern the observed entry); Brier observed/simulated normalisers; no exception for rows of the right width, the "
              "count assertion for any other width; sign of the joint log-likelihood. The model now receives only rates, observed "
              "counts and the uniform numbers and produces the simulated catalogs itself. Round 4 (owners): (i) the numpy.ma "
              "layer is modelled statement by statement - masked_where, negative, exp, 1.0 - m, log with its domain, y * m, .data, "
              "data AND mask of every slot - and the composition is proved equal to the hand model (binaryLLMa_eq_binaryLL), with "
              "what sits under the mask of first_term (the multiplier y: D17's +1) as a theorem; each primitive is compared with "
              "numpy.ma itself on every run; (ii) 1 - poisson.cdf(0, rate) of the Brier kernel is C07's model of scipy's Poisson "
              "cdf at 0 (finite sum up to floor 0), no longer a separate assumption; (iii) the three public tests take the CATALOG "
              "(events' cell / magnitude-bin lookups) through C03's gridding model: the activity clause is proved at catalog "
              "level - two catalogs occupying the same set of (cell, bin) pairs (cells for the S test), however many events each "
              "holds, get the same observed entry, simulated catalogs, entries and quantile, for every RealOps instance; a further "
              "event in an occupied bin is invisible; rejections of the gridding call characterised; (iv) num_simulations as an "
              "argument of its own (first num_simulations rows read, exactly that many entries).")
LEVEL_NOTE = ("Floating-point rounding of exp/log/poisson.cdf is not modelled as arithmetic; comparison to 1e-9 relative plus the "
              "rounding of 1-exp(-rate) itself: 2^-51/(1-exp(-rate)) per active bin - PROVED to bound the cancellation "
              "(log_one_sub_exp_cancellation: exp within one ulp, one rounded subtraction, p >= 2^-49; the code's subtraction loses up "
              "to 8 digits at rate 1e-9), deviations add up over the bins (sum_terms_close). A catalog carrying a region DIFFERENT "
              "from the forecast's is a caller configuration outside the property (the documented workflow binds the forecast's "
              "region): those calls are generated but not judged (AWAITING_DECISION names kept as documentation). Outside the property as well: "
              "derived-method hooks - a user catalog class overriding spatial_counts() / spatial_event_probability(); only overrides of the "
              "basic data accessors are a generated class (seeded C16_15: not reported by decision). scipy.stats.poisson.cdf(0, rate) is modelled as exp(-rate). Placement of simulated events is C06.")
DESIGN_REF = "DESIGN.md §4 C16"
TECHNIQUE = "Lean 4 theorems over Mathlib reals (generic RealOps model) + differential testing of the Float instance + definition oracle"

THEOREMS = ["BinaryBrier.binaryLL_eq_def", "BinaryBrier.binaryLL_eq_binaryDef", "BinaryBrier.brier_eq_def",
            "BinaryBrier.brier_eq_def_length", "BinaryBrier.depends_only_on_activity", "BinaryBrier.scores_of_indicator",
            "BinaryBrier.binaryLL_zero_rate_event", "BinaryBrier.binaryLL_def_negInf", "BinaryBrier.binaryDef_negInf_iff",
            "BinaryBrier.brier_range", "BinaryBrier.brier_dims_irrelevant", "BinaryBrier.tests_report_def",
            "BinaryBrier.binaryCell_eq", "BinaryBrier.binarySpatialMap_sum",
            # wave 4 (Properties/C16_Tests.lean): the test pipeline with the sampler inside the model
            "BinaryBrier.sim_entry_active_pos", "BinaryBrier.binary_test_entries_eq_def",
            "BinaryBrier.binary_test_observed_eq_def", "BinaryBrier.brier_test_entries_eq_def",
            "BinaryBrier.brier_test_sim_arrays", "BinaryBrier.pipeline_total", "BinaryBrier.pipeline_row_width_assert",
            "BinaryBrier.pipeline_quantile", "BinaryBrier.wrappers_report_def", "BinaryBrier.binaryLL_nonpos",
            "BinaryBrier.binary_stream_entries_eq_def", "BinaryBrier.brier_stream_entries_eq_def",
            # round 4 of the owners: numpy.ma layer + poisson.cdf (Properties/C16_Masked.lean), catalog level (C16_Public.lean)
            "BinaryBrier.Ma.maTerms_eq_binTerms", "BinaryBrier.Ma.binaryLLMa_eq_binaryLL", "BinaryBrier.Ma.binaryLLMa_eq_def",
            "BinaryBrier.Ma.binaryLLMa_activity_only", "BinaryBrier.Ma.first_term_masked_slots",
            "BinaryBrier.Ma.filled0_maskedWhere", "BinaryBrier.Ma.poisCdf0_eq_poisCdf", "BinaryBrier.Ma.brierCell_via_poisCdf",
            "BinaryBrier.pipeline_activity_only", "BinaryBrier.activity_countMatrix", "BinaryBrier.activity_countVec",
            "BinaryBrier.public_activity_only", "BinaryBrier.public_spatial_activity_only",
            "BinaryBrier.duplicate_event_invisible", "BinaryBrier.public_entries_eq_def", "BinaryBrier.public_rejects_iff",
            "BinaryBrier.pipeline_entry_count", "BinaryBrier.publicN_reads_first_rows", "BinaryBrier.publicN_too_few_rows",
            "BinaryBrier.region_binding", "BinaryBrier.magnitude_less_region_is_replaced",
            # round 6 (Properties/C16_Cancellation.lean): the cancellation bound of log(1 - exp(-rate))
            "BinaryBrier.log_one_sub_exp_cancellation", "BinaryBrier.sum_terms_close"]
TRUSTED = ["Lean 4.33 kernel", "axioms: propext, Classical.choice, Quot.sound at most",
           "Real.log / Real.exp stand for numpy.log / numpy.exp; scipy.stats.poisson.cdf(0, r) = exp(-r); rounding not "
           "modelled, Float instance compared numerically on every run",
           "numpy.ma: six one-line primitives (Model/MaskedOps.lean: data and mask of every slot for masked_where, negative, "
           "exp, 1.0 - m, log, y * m), each compared with numpy.ma itself on 400 / 6000 random masked arrays per run; their "
           "composition is proved equal to the scored formula", "scipy.stats.poisson.cdf = finite sum of the mass function "
           "up to floor(x) (C07's model; at 0 this is exp(-rate), compared numerically on every run)",
           "Soft64 = IEEE binary64 for cumsum / division of the sampling weights (C06)",
           "gridding of interior points by CSEPCatalog / CartesianGrid2D (C01-C03)",
           "harness/c16.py generators, oracle and comparison; driver parsing (Proto.lean, Drive/C16.lean)"]
RULE = ("array level: 1-D (1..200 bins) and 2-D ((1..40)x(1..8)) rate arrays, rates 10^U(-9,1) (classes wide, tiny, large, mixed) "
        "with 0-15% exact zeros, count arrays: none, single, several per bin, all bins active, int and float dtype; activity "
        "invariance checked by replacing counts with other counts of the same support; public tests on gridded forecasts and "
        "catalogs of 0..300 interior events with injected random_numbers (width = number of active cells), some forecasts built "
        "through GriddedDataSet.scale, 20% with a forced event in a zero-rate bin. Half of the arrays and a third of the "
        "forecasts carry the SAME values in another representation: memory layout of the rate array and (independently) of "
        "the count array in {C, Fortran order, transposed view, every-second-column / every-second-row slice, window of a "
        "larger array, negative strides, read-only}, rate dtype in {float64, int64, int32, int16, int8, uint8, uint32, uint64 "
        "(whole-number rates 0..10), float32 and float16 roundings of 10^U(-3,1), float32 roundings of 10^U(-9,1)}, count "
        "dtype in {int64, float64, bool, uint8, int32, float32, uint64}; the array-level test drivers "
        "_binary_likelihood_test / _brier_score_test are called on these arrays too; every score is compared with the "
        "definition to double-precision rounding whatever the dtype. Comparisons switched off because unchanged pyCSEP "
        "itself departs from the definition there are named in AWAITING_DECISION. A case is "
        "non-trivial when it has an active and an inactive bin and a bin with >= 2 events; distinct by (rate bits, counts). "
        "Wave 4: every test call (array drivers and public tests, except float32/float16 weights) is also replayed by the "
        "model from (rates, counts, uniform numbers) alone; one call in eight is repeated with rows of n_active +- 1 numbers "
        "(count assertion); reported quantile checked against the reported entries. Phase 2: arrays and public-test "
        "regions with more than 65536 bins (not multiples of 65536; events around every multiple and in the last bins), "
        "65535..10^6 events in one bin, big-endian rate / count arrays, uint16 counts; the DEFAULT random path "
        "(random_numbers=None, 2-6 simulations, seed argument or caller-seeded global generator, stream re-created from the "
        "real generator, no stubs) through the array drivers and the public tests; observed catalogs without region or with "
        "a purely spatial region (bound to the forecast's region by the CL / Brier test, S-test afterwards on the same "
        "object); sessions on ONE forecast object and two catalogs sharing a region object: evaluations, the per-cell map "
        "and scalar / array-valued re-scalings in random order, forecast rates and catalog events snapshotted around every "
        "evaluation. Round 4 (owners): every array-level call also through the statement-level numpy.ma model (c16_bll_ma); "
        "public tests are sent to the model as CATALOGS (events' (cell, bin) lookups; the model grids them itself); one public "
        "call in eight and two array-driver calls in three inject 1-2 rows more than num_simulations; about 1% of the public "
        "tests are long verbose runs (100-130 simulations, progress branch); 400 (quick) / 6000 (thorough) random masked arrays "
        "through each numpy.ma primitive; 35% of the float64 public-test forecasts carry a scale factor of any kind scale() "
        "documents (scalars, 0-d, (1,1), (n,1), (m,), (1,m), (n,m) arrays, scale_to_test_date; 0-2 earlier factors first), "
        "rates under test = stored x last factor computed by the harness. Round 5 (owners): magnitude grids with starts and steps "
        "of every decimal length (0.125, 0.05, 0.025, 2^-k, 1/3, negative starts; forecast.magnitudes / region.magnitudes must equal "
        "the supplied edges bit for bit); observed catalogs in every region state: none, the forecast's object, an equal copy, "
        "magnitude-less with the same cells, with the cells in another order, with more cells than the forecast, a space-magnitude "
        "region with other magnitude edges - the forecast's region decides; after a CL / Brier test the bound region must BIN like "
        "the forecast's (same cells, order, edges); calls on which unchanged pyCSEP itself departs are named in AWAITING_DECISION. "
        "Round 6 (owners): public arguments positional / keyword / all keyword, a seed next to injected numbers, UCERF3Catalog as "
        "observed catalog (12%), zero rates written -0.0, the public kernel called by keyword, the caller's arrays (constructor array, "
        "event array, injected numbers, array-level rates and counts) byte-identical after every call. Round 7: observed catalogs of a user "
        "subclass overriding the BASIC DATA ACCESSORS get_longitudes / get_latitudes / get_magnitudes consistently (14%), copy / deepcopy "
        "/ pickle images of forecast and catalog before use, a rejected call (one column too many) first, numpy told to raise on divide / "
        "invalid in 40% of the float64 cases (zero rates included) and half of the float64 kernel cases, a small decimal context. NOT a "
        "class: overrides of DERIVED public methods (spatial_counts vs spatial_event_probability ...): which derived method the library "
        "calls internally is outside the property (seeded C16_15 is therefore not reported, C16_H5 green).")

# the exact-rational (Soft64) sampling weights of the pipeline model cost ~0.15 ms per bin: arrays beyond this size are
# scored through the Float ops (c16_bll / c16_brier / c16_mode) with the simulated catalogs placed by the harness
PIPE_MAX_BINS = 5000
SIG_D17 = "binary-ll:active-bin-with-nonpositive-rate"

# Representation classes (same mathematical arrays, other memory layout / dtype).  The property quantifies over "all rate
# arrays ... and all count arrays"; which numpy layout or dtype carries the numbers is not part of the statement, so every
# representation pyCSEP accepts must give the definition's value.
LAYOUTS_2D = ["C", "F", "T", "colstep", "rowstep", "window", "rev", "revcol", "readonly"]
LAYOUTS_1D = ["C", "step", "window", "rev", "readonly"]
RATE_DTYPES = ["f8", "i8", "i4", "f4", "f8be"]          # ..be: big-endian (non-native byte order), phase 2
COUNT_DTYPES = ["i8", "f8", "?", "u1", "i4", "f4", "u8", "u2", "i8be", "i4be"]
# Rate dtypes beyond float64 / int64 / int32 / float32(>= 1e-3).  On them the implementation before fix D34 (/repo cf1bfa1)
# departed from the definition (witnesses in corpus/C16/d34_*.json):
#   rates-unsigned-int : `-forecast` wrapped around for uint8/16/32/64 rates (256.0 where the definition gives -2.51)
#   rates-narrow-float : int8 / float16 rates were exponentiated in float16 (5e-5 off), int16 in float32
#   rates-float32-tiny : float32 rates below 1e-3 in an active bin: 1 - exp(-rate) was formed in float32; below 6e-8 it is 0
#                        and the bin scored +1.0 (0.5 where the definition gives -18.9)
# All three classes are generated now.  AWAITING_DECISION lists sub-classes on which the UNCHANGED implementation still
# departs from the definition (genuine-defect candidates, notes/C16.md "Observed"); a name in it switches off exactly the
# comparison named, nothing else:
#   map-unsigned-int-rates : poisson_evaluations.binary_spatial_likelihood (the per-cell map) on a forecast whose rates are
#                            unsigned integers: `-forecast.spatial_counts() * scale` wraps around, every cell is nan.
#                            Only the per-cell map comparison is skipped for these forecasts; the joint log-likelihood,
#                            the Brier score and the three public tests are checked on them like on any other.
#   s-test-on-catalog-own-spatial-region       : binary_spatial_test grids the catalog on the catalog's OWN region without checking
#                            that it is the forecast's (other cell order: silently permuted occupancy; other cell set: IndexError).
#                            The class is generated; only the S-test BEFORE a CL / Brier test bound the forecast's region is skipped.
#   catalog-own-space-magnitude-region-differs : binary CL / Brier tests trust a space-magnitude region the catalog already carries
#                            even if its magnitude edges are not the forecast's. Only those two calls are skipped.
AWAITING_DECISION = ["map-unsigned-int-rates", "s-test-on-catalog-own-spatial-region",
                     "catalog-own-space-magnitude-region-differs"]
_EXTRA_DTYPES = {"rates-unsigned-int": ["u1", "u4", "u8"], "rates-narrow-float": ["i1", "f2", "i2"],
                 "rates-float32-tiny": ["f4tiny"]}
_NP = {"f8": numpy.float64, "i8": numpy.int64, "i4": numpy.int32, "f4": numpy.float32, "f4tiny": numpy.float32,
       "?": numpy.bool_, "u1": numpy.uint8, "u4": numpy.uint32, "u8": numpy.uint64, "i1": numpy.int8, "i2": numpy.int16,
       "f2": numpy.float16, "u2": numpy.uint16, "f8be": numpy.dtype(">f8"), "i8be": numpy.dtype(">i8"),
       "i4be": numpy.dtype(">i4")}
_F8 = ("f8", "f8be")


def _rate_dtypes():
    out = list(RATE_DTYPES)
    for name, dts in _EXTRA_DTYPES.items():
        if name not in AWAITING_DECISION:
            out += dts
    return out


# The SCORES (joint log-likelihood, Brier score; observed and simulated entries of the tests) are compared with the
# definition to double-precision rounding whatever the dtype of the rate array: the rates are exact numbers, and a score
# formed in a narrower arithmetic is off by far more than that (fix D34).
EPS64 = 2.0 ** -51


def _unit(rdtype):
    """round-off (generously: 2 ulp) of arithmetic carried out IN the rate array's own floating dtype - what numpy uses
    when the implementation sums (marginal rates), accumulates (sampling weights) or, in the per-cell map, exponentiates
    the array as it is. 0.0 for float64 and for every integer dtype (integer sums are exact, then float64)."""
    if rdtype in ("f4", "f4tiny"):
        return 2.0 ** -22
    if rdtype == "f2":
        return 2.0 ** -9
    return 0.0


def _layout(a, kind, fill):
    """an array equal to `a` in shape, dtype and values whose memory is laid out as `kind`; memory that does not belong
    to the result is filled with `fill` so that reading the buffer instead of the array shows"""
    a = numpy.ascontiguousarray(a)
    if kind == "C" or a.size == 0:
        return a.copy()
    if kind == "readonly":
        out = a.copy()
        out.flags.writeable = False
        return out
    if kind == "F":
        return numpy.asfortranarray(a)
    if kind == "T":
        return numpy.ascontiguousarray(a.T).T
    if kind in ("colstep", "step"):
        big = numpy.full(a.shape[:-1] + (2 * a.shape[-1] + 1,), fill, dtype=a.dtype)
        big[..., 1::2] = a
        return big[..., 1::2]
    if kind == "rowstep":
        big = numpy.full((2 * a.shape[0],) + a.shape[1:], fill, dtype=a.dtype)
        big[::2] = a
        return big[::2]
    if kind == "window":
        big = numpy.full(tuple(n + 3 for n in a.shape), fill, dtype=a.dtype)
        sl = tuple(slice(1 + k, 1 + k + n) for k, n in enumerate(a.shape))
        big[sl] = a
        return big[sl]
    if kind == "rev":
        return numpy.ascontiguousarray(a[::-1])[::-1]
    if kind == "revcol":
        return numpy.ascontiguousarray(a[:, ::-1])[:, ::-1]
    raise ValueError(kind)


_DEV = {"oracle": 0.0, "model": 0.0}


def _track(kind, a, b):
    if a != b and math.isfinite(a) and math.isfinite(b):
        _DEV[kind] = max(_DEV[kind], abs(a - b) / max(abs(a), abs(b), 1e-300))


def _bits(x):
    return str(struct.unpack("<Q", struct.pack("<d", float(x)))[0])


def _unbits(s):
    return struct.unpack("<d", struct.pack("<Q", int(s)))[0]


def _rows(a, f):
    return ";".join(",".join(f(x) for x in row) for row in a)


def _lst(a, f):
    a = list(a)
    return ",".join(f(x) for x in a) if a else "-"


# ----------------------------------------------------------------------------- the definitions (oracle)
def _binary_def(rates, counts, eps=2.0 ** -51, rate_err=0.0):
    """returns (definition value, value of the bins that are not offending, number of offending bins, abs tolerance)
    offending = active bin with rate <= 0 (definition -inf).  eps: round-off of the arithmetic the rate dtype implies
    (float64 unless the rates are float32); rate_err: relative uncertainty of the rates themselves (marginal sums formed
    in float32)"""
    act, inact, offending, cond = [], [], 0, 0.0
    wide = eps > 2.0 ** -51
    for r, c in zip(rates, counts):
        r = float(r)
        if c > 0:
            if r <= 0.0:
                offending += 1
            else:
                p = -math.expm1(-r)
                lp = math.log(p)
                act.append(lp)
                cond += eps / p + rate_err * r / p
                if wide:
                    cond += eps * abs(lp)
        else:
            inact.append(-r)
            cond += rate_err * r
    rest = math.fsum(act + inact)
    return (-math.inf if offending else rest), rest, offending, cond


def _brier_def(rates, counts, eps=2.0 ** -51):
    n = len(rates)
    terms, cond = [], 0.0
    for r, c in zip(rates, counts):
        d = -math.expm1(-float(r)) - (1.0 if c > 0 else 0.0)
        terms.append(d * d)
        cond += 2.0 * abs(d) * eps
    return -2.0 / n * math.fsum(terms), 2.0 / n * cond


def _close(a, b, abs_tol):
    if a == b:
        return True
    if math.isinf(a) or math.isinf(b) or math.isnan(a) or math.isnan(b):
        return False
    return abs(a - b) <= 1e-9 * max(abs(a), abs(b)) + abs_tol + 1e-300


_PROBE = []


def _masked_contribution():
    """what binary_joint_log_likelihood_ndarray adds for ONE active bin of rate 0 (None if it is not finite)"""
    if not _PROBE:
        from csep.core.binomial_evaluations import binary_joint_log_likelihood_ndarray
        with numpy.errstate(all="ignore"):
            v = float(binary_joint_log_likelihood_ndarray(numpy.array([0.0, 1.0]), numpy.array([1, 0])))
        _PROBE.append(v + 1.0 if math.isfinite(v) else None)
    return _PROBE[0]


def _check_binary(run, case, what, val, rates, counts, eps=2.0 ** -51, rate_err=0.0):
    """direct oracle for one binary-LL value; returns the abs tolerance used for the model comparison (None: the entry is
    -inf as the definition demands for an event in a zero-rate bin, which the property allows besides the known finding)"""
    dv, rest, k, cond = _binary_def(rates, counts, eps, rate_err)
    _track("oracle", val, dv)
    if k:
        run.count("binary-offending")
        # the definition is -inf. Known finding D17 ONLY if every other bin is right, i.e. the value is `rest + k*c` where
        # c is the finite constant the implementation itself gives to one such bin (probed on [0.0, 1.0] / [1, 0];
        # +1.0 at present, proved for the model in BinaryBrier.binaryLL_zero_rate_event); any other value is an
        # unrelated discrepancy and stays a violation.
        if val == -math.inf:
            # the implementation agrees with the definition (D17 repaired upstream): nothing to report, and the Lean model
            # of the masking no longer applies to this entry
            run.count("binary-offending-neginf")
            return None
        c = _masked_contribution()
        if c is not None and math.isfinite(val) and _close(val, rest + k * c, cond):
            run.oracle_failure(case, f"{what}: finite value {val!r} where the definition is -inf ({k} active bin(s) with "
                                     f"rate <= 0)", signature=SIG_D17)
        else:
            run.oracle_failure(case, f"{what}: value {val!r}; definition -inf; {k} active bin(s) with rate <= 0, the other "
                                     f"bins sum to {rest!r}: not the known masking behaviour")
    elif not _close(val, dv, cond):
        run.oracle_failure(case, f"{what}: value {val!r} != definition {dv!r}")
    elif val > cond and all(float(r) >= 0.0 for r in rates):
        # sign (BinaryBrier.binaryLL_nonpos): no active bin with rate <= 0, all rates >= 0  =>  score <= 0
        run.oracle_failure(case, f"{what}: positive joint log-likelihood {val!r}")
    return cond


def _check_brier(run, case, what, val, rates, counts, eps=2.0 ** -51, rate_err=0.0):
    dv, cond = _brier_def(rates, counts, eps)
    _track("oracle", val, dv)
    if not _close(val, dv, cond):
        run.oracle_failure(case, f"{what}: value {val!r} != definition {dv!r}")
    return cond


# ----------------------------------------------------------------------------- array level
def _gen_rates(rng, g, shape):
    cls = rng.choice(["wide", "wide", "tiny", "large", "mixed"])
    if cls == "wide":
        a = 10.0 ** g.uniform(-9, 1, size=shape)
    elif cls == "tiny":
        a = 10.0 ** g.uniform(-9, -6, size=shape)
    elif cls == "large":
        a = 10.0 ** g.uniform(0, 1, size=shape)
    else:
        a = numpy.where(g.random(shape) < 0.5, 1e-9, 10.0)
    z = rng.choice([0.0, 0.0, 0.05, 0.15])
    a = numpy.where(g.random(shape) < z, 0.0, a)
    return cls, a


def _gen_counts(rng, g, rates, allow_zero_rate):
    shape = rates.shape
    kind = rng.choice(["none", "single", "few-multi", "many", "all-active", "sparse-big"])
    c = numpy.zeros(shape, dtype=int)
    n = c.size
    flat = c.ravel()
    ok = numpy.arange(n) if allow_zero_rate else numpy.nonzero(rates.ravel() > 0)[0]
    if kind != "none" and len(ok):
        if kind == "single":
            flat[rng.choice(list(ok))] = 1
        elif kind == "few-multi":
            for i in rng.sample(list(ok), min(len(ok), rng.randint(1, 4))):
                flat[i] = rng.randint(2, 9)
        elif kind == "many":
            for i in ok:
                if rng.random() < 0.5:
                    flat[i] = rng.choice([1, 1, 2, 3, 17])
        elif kind == "all-active":
            for i in ok:
                flat[i] = rng.randint(1, 3)
        else:
            flat[rng.choice(list(ok))] = rng.choice([rng.randint(50, 300), 65535, 65536, 70000, 10 ** 6])
    return kind, flat.reshape(shape)


def _same_support(rng, counts):
    out = counts.copy()
    f = out.ravel()
    for i in range(f.size):
        if f[i] > 0:
            f[i] = rng.choice([1, f[i] + 1, rng.randint(1, 1000)])
    return f.reshape(counts.shape)


def _materialise(spec):
    """the rate and count arrays of an array-level spec in the representation (dtype, memory layout) the spec names,
    plus their C-order float64 / int values (what the definition is evaluated on)"""
    shape = tuple(spec["shape"])
    rdt, cdt = spec.get("rdtype", "f8"), spec.get("cdtype", "f8" if spec.get("float_counts") else "i8")
    if "rates_tile" in spec:
        # big arrays are stored compactly: a pattern tiled to the size, and the few non-zero counts by flat index
        size = int(numpy.prod(shape))
        vals = numpy.resize(numpy.array([float.fromhex(x) for x in spec["rates_tile"]]), size).reshape(shape)
        c0, c2 = numpy.zeros(size, dtype=int), numpy.zeros(size, dtype=int)
        for i, c, cc in spec["counts_sparse"]:
            c0[i], c2[i] = c, cc
        c0, c2 = c0.reshape(shape), c2.reshape(shape)
    else:
        vals = numpy.array([float.fromhex(x) for x in spec["rates"]]).reshape(shape)
        c0 = numpy.array(spec["counts"], dtype=int).reshape(shape)
        c2 = numpy.array(spec["counts2"], dtype=int).reshape(shape)
    rates = _layout(vals.astype(_NP[rdt]), spec.get("rlayout", "C"), 3.0)
    if cdt == "u1":
        c0, c2 = numpy.minimum(c0, 255), numpy.minimum(c2, 255)
    if cdt == "u2":
        c0, c2 = numpy.minimum(c0, 65535), numpy.minimum(c2, 65535)
    counts = _layout(c0.astype(_NP[cdt]), spec.get("clayout", "C"), 5)
    counts2 = _layout(c2.astype(_NP[cdt] if cdt != "?" else int), spec.get("clayout2", "C"), 5)
    if not (numpy.array_equal(rates, vals) and rates.shape == shape and counts.shape == shape):
        raise AssertionError("harness: the representation changed the values")         # exit 2, never a verdict
    return rates, counts, counts2, vals, rdt, cdt


def _private(run, module, name, params=()):
    from . import c05 as _c05
    return _c05._private(run, module, name, params)


_DRIVER_PARAMS = ("forecast_data", "observed_data", "num_simulations", "random_numbers", "seed", "verbose")


def _array_case(run, drv, pending, spec, tag="array"):
    from csep.core import binomial_evaluations as _be
    from csep.core import brier_evaluations as _br
    # array-level kernels: one public name, one private (skipped when gone: brier_score_test reaches the same kernel)
    binary_joint_log_likelihood_ndarray = _private(run, _be, "binary_joint_log_likelihood_ndarray", ("forecast", "catalog"))
    _brier_score_ndarray = _private(run, _br, "_brier_score_ndarray", ("forecast", "observations"))
    if binary_joint_log_likelihood_ndarray is None and _brier_score_ndarray is None:
        return
    have_b, have_r = binary_joint_log_likelihood_ndarray is not None, _brier_score_ndarray is not None
    shape = tuple(spec["shape"])
    rates, counts, counts2, vals, rdt, cdt = _materialise(spec)
    eps = EPS64
    case = dict(spec=spec, kind="array", tag=tag)
    fr, fc = vals.ravel().tolist(), [int(x) for x in numpy.ascontiguousarray(counts).ravel()]
    n_act = sum(1 for c in fc if c > 0)
    nontriv = 0 < n_act < len(fc) and max(fc) >= 2
    rl, cl = spec.get("rlayout", "C"), spec.get("clayout", "C")
    run.case(dict(kind="array", shape=list(shape), cls=spec["cls"], counts=spec["ckind"], active=n_act,
                  zeros=int((vals == 0).sum()), tag=tag, rdtype=rdt, cdtype=cdt, rlayout=rl, clayout=cl),
             (vals.tobytes(), numpy.ascontiguousarray(counts).tobytes(), rdt, cdt, rl, cl) if nontriv else None)
    run.count(f"array-{len(shape)}d")
    run.count(f"rates-{spec['cls']}")
    run.count(f"counts-{spec['ckind']}")
    run.count(f"rate-dtype-{rdt}")
    run.count(f"count-dtype-{cdt}")
    run.count(f"rate-layout-{rl}")
    run.count(f"count-layout-{cl}")
    if len(shape) == 2 and rates.flags.c_contiguous != counts.flags.c_contiguous:
        run.count("layouts-differ")
    from . import c05 as _c05m
    owned = _c05m._Owned(rates=rates, counts=counts, counts2=counts2)       # round 6: the caller's arrays stay what they were
    # round 7 (k): half of the float64 array cases run with numpy told to RAISE on divide / invalid (zero rates included: the scores
    # never need log(0) or 0 * inf)
    strict = rdt in _F8 and len(fr) % 2 == 0 and cdt not in ("f4",)
    if strict:
        run.count("array-errstate-divide-invalid-raise")
    try:
        with numpy.errstate(**(dict(divide="raise", invalid="raise") if strict else dict(all="ignore"))):
            # the arrays are handed over as they are (no copy: a copy would normalise the layout under test)
            # (round 6: the public kernel is called positionally or by keyword)
            if have_b and spec.get("rn_seed", 0) % 3 == 1:
                bll = float(binary_joint_log_likelihood_ndarray(forecast=rates, catalog=counts))
            else:
                bll = float(binary_joint_log_likelihood_ndarray(rates, counts)) if have_b else None
            bll2 = float(binary_joint_log_likelihood_ndarray(rates, counts2)) if have_b else None
            bri = float(_brier_score_ndarray(rates, counts)) if have_r else None
            bri2 = float(_brier_score_ndarray(rates, counts2)) if have_r else None
    except Exception as e:
        run.oracle_failure(case, f"array-level call raised {type(e).__name__}: {e}")
        return
    ch = owned.changed()
    if ch:
        run.oracle_failure(case, f"an array-level score changed the caller's own array(s) {ch} in place")
        return
    idx, vals_, tols_ = [], [], []
    if have_b:
        t1 = _check_binary(run, case, "binary_joint_log_likelihood_ndarray", bll, fr, fc, eps)
        # depends on the observation only through which bins are active
        if not (bll == bll2 if t1 is None else _close(bll, bll2, t1)):
            run.oracle_failure(case, f"scores differ for two count arrays with the same support: binary {bll!r} vs {bll2!r}")
        # the hand model, and (round 4) the statement-level model: composition of the numpy.ma primitives (Model/MaskedOps.lean)
        idx += [drv.ask(f"c16_bll {_lst(fr, _bits)} {_lst(fc, str)}"), drv.ask(f"c16_bll_ma {_lst(fr, _bits)} {_lst(fc, str)}")]
        vals_ += [bll, bll]
        tols_ += [t1, t1]
    if have_r:
        t2 = _check_brier(run, case, "_brier_score_ndarray", bri, fr, fc, eps)
        if not _close(bri, bri2, t2):
            run.oracle_failure(case, f"scores differ for two count arrays with the same support: brier {bri!r} vs {bri2!r}")
        idx.append(drv.ask(f"c16_brier {_lst(shape, str)} {_lst(fr, _bits)} {_lst(fc, str)}"))
        vals_.append(bri)
        tols_.append(t2)
    pending.append((case, "array", idx, vals_, tols_))
    if spec.get("drivers"):
        _array_drivers(run, drv, pending, case, spec, rates, counts, vals, fc, rdt)


def _array_drivers(run, drv, pending, case, spec, rates, counts, vals, fc, rdt):
    """the array-level test drivers behind the public tests, on the same representation: observed and every simulated
    entry are the definition's values (injected uniform numbers, one per active bin)"""
    from csep.core import binomial_evaluations as _be
    from csep.core import brier_evaluations as _br
    _binary_likelihood_test = _private(run, _be, "_binary_likelihood_test", _DRIVER_PARAMS)
    _brier_score_test = _private(run, _br, "_brier_score_test", _DRIVER_PARAMS)
    if _binary_likelihood_test is None or _brier_score_test is None:
        return
    n_active = sum(1 for c in fc if c > 0)
    nsim = spec["drivers"]
    g = numpy.random.default_rng(spec["rn_seed"])
    shape = tuple(spec["shape"])
    for mode, fn in (("CL", _binary_likelihood_test), ("B", _brier_score_test)):
        rn_all = g.random((nsim + (spec["rn_seed"] // 11) % 3, n_active))         # 0-2 rows more than simulations asked
        rn = rn_all[:nsim]
        from . import c05 as _c05m
        owned = _c05m._Owned(rates=rates, counts=counts, random_numbers=rn_all)
        try:
            with numpy.errstate(all="ignore"), _c05m._capped_uniforms(2000):
                qs, obs, td = fn(rates, counts, num_simulations=nsim, random_numbers=rn_all, verbose=False)
        except Exception as e:
            run.oracle_failure(case, f"{fn.__name__} raised {type(e).__name__}: {e}")
            continue
        if owned.changed():
            run.oracle_failure(case, f"{fn.__name__} changed the caller's own array(s) {owned.changed()} in place")
            continue
        run.count(f"call-{fn.__name__}")
        _score_entries(run, drv, pending, case, mode, fn.__name__, vals.reshape(shape if len(shape) == 2 else (-1, 1)),
                       numpy.array(fc).reshape(shape if len(shape) == 2 else (-1, 1)), rn, float(obs),
                       [float(x) for x in td], rdt, qs=qs, dims=list(shape))
        if spec["rn_seed"] % 8 == 0:
            _wrong_width(run, drv, pending, case, mode, fn, (rates, counts), n_active, nsim, g, vals.ravel(), fc,
                         list(shape))


LAYOUT_SHARE = 0.5


def _gen_array_spec(rng, tier):
    g = numpy.random.default_rng(rng.randrange(2 ** 32))
    if rng.random() < 0.5:
        shape = (rng.choice([1, 2, 3, 10, 50, 200, rng.randint(1, 200)]),)
    else:
        shape = (rng.choice([1, 2, 5, 40, rng.randint(1, 40)]), rng.choice([1, 2, 8, rng.randint(1, 8)]))
    rep = rng.random() < LAYOUT_SHARE
    rdt = rng.choice(_rate_dtypes()) if rep and rng.random() < 0.6 else "f8"
    if rdt in _F8:
        cls, rates = _gen_rates(rng, g, shape)
    else:
        cls, rates = _gen_rates_dtype(rng, g, shape, rdt)
    if not (rates > 0).any():
        rates.ravel()[rng.randrange(rates.size)] = 10.0 ** rng.uniform(-9, 1) if rdt in _F8 else 1.0
    ckind, counts = _gen_counts(rng, g, rates, allow_zero_rate=rng.random() < 0.25)
    lay = LAYOUTS_2D if len(shape) == 2 else LAYOUTS_1D
    spec = dict(shape=list(shape), cls=cls, ckind=ckind, rates=[float(x).hex() for x in rates.ravel()],
                counts=[int(x) for x in counts.ravel()], counts2=[int(x) for x in _same_support(rng, counts).ravel()],
                float_counts=rng.random() < 0.5)
    if rep:
        spec.update(rdtype=rdt, cdtype=rng.choice(COUNT_DTYPES), rlayout=rng.choice(lay), clayout=rng.choice(lay),
                    clayout2=rng.choice(lay), drivers=rng.choice([0, 1, 2]), rn_seed=rng.randrange(2 ** 32))
        if rdt in _F8 and rng.random() < 0.5:
            spec["rlayout"] = rng.choice(["F", "T", "colstep", "rowstep"] if len(shape) == 2 else ["step", "rev"])
    return spec


def _gen_big_array_spec(rng):
    """lesson 4: more than 65536 bins and NOT a multiple of 65536 (a 50 x 50 cell region with 41 magnitude bins has
    102500), events in the first bins, around every multiple of 65536 and in the last bins"""
    size = rng.choice([65537, 65536 + rng.randrange(2, 65536), 102500, 131072 + rng.randrange(1, 30000)])
    shape = [2500, 41] if size == 102500 and rng.random() < 0.7 else [size]
    pat = [float(10.0 ** rng.uniform(-5, 0.5)) for _ in range(97)]
    idx = {0, 1, 65535, 65536, 65537, size - 1, size - 2, rng.randrange(65536, size), rng.randrange(0, size)}
    if size > 131072:
        idx |= {131071, 131072, rng.randrange(131072, size)}
    idx = sorted(i for i in idx if i < size and rng.random() < 0.8)
    sparse = [[i, rng.choice([1, 1, 2, 70000]), rng.choice([1, 5])] for i in idx]
    return dict(shape=shape, cls="big-tiled", ckind="sparse", rates_tile=[x.hex() for x in pat], counts_sparse=sparse,
                float_counts=False, rdtype=rng.choice(["f8", "f8", "f8be"]), cdtype=rng.choice(["i8", "f8", "i8be"]),
                rlayout="C", clayout="C", clayout2="C", drivers=rng.choice([0, 1]), rn_seed=rng.randrange(2 ** 32))


def _gen_rates_dtype(rng, g, shape, rdt):
    """rate values exactly representable in the dtype `rdt` (returned as float64): whole numbers 0..10 for the integer
    dtypes, float32 / float16 roundings of 10^U(lo, 1) for the narrow floats"""
    z = rng.choice([0.0, 0.0, 0.05, 0.15])
    if rdt[0] in "iu":
        a = g.integers(1, 11, size=shape).astype(float)
        if rng.random() < 0.3:
            a = numpy.where(g.random(shape) < 0.7, 1.0, a)
        cls = "whole"
    else:
        lo = -9 if rdt == "f4tiny" else -3
        a = (10.0 ** g.uniform(lo, 1, size=shape)).astype(_NP[rdt]).astype(float)
        a = numpy.minimum(a, 10.0)
        cls = "narrow-float"
    a = numpy.where(g.random(shape) < z, 0.0, a)
    return cls, a


# ----------------------------------------------------------------------------- public tests
def _MAGS():
    """magnitude grids of every decimal length (shared with C05): starts and steps with one, two, three decimals, dyadic and
    1/3-style steps, negative starts - the edges the USER supplies are the edges a space-magnitude region must bin on"""
    from . import c05 as _c05
    return _c05.MAG_STARTS, _c05.MAG_STEPS


def _gen_test_spec(rng, tier):
    ns = rng.choice([1, 2, 3, 5, 8, 13, 20, 40, rng.randint(1, 40)])
    nm = rng.choice([1, 1, 2, 3, 8, rng.randint(1, 8)])
    g = numpy.random.default_rng(rng.randrange(2 ** 32))
    rep = rng.random() < 0.35
    rdt = rng.choice(_rate_dtypes()) if rep and rng.random() < 0.6 else "f8"
    rl = rng.choice(LAYOUTS_2D) if rep else "C"
    if rep and rdt in _F8 and rng.random() < 0.6:
        rl = rng.choice(["F", "T", "colstep", "rowstep"])
    cls, data = _gen_rates(rng, g, (ns, nm)) if rdt in _F8 else _gen_rates_dtype(rng, g, (ns, nm), rdt)
    k = rng.random()
    if k < 0.1 and ns > 1:
        data[rng.randrange(ns), :] = 0.0
    if not (data > 0).any():
        data[rng.randrange(ns), rng.randrange(nm)] = 10.0 ** rng.uniform(-9, 1) if rdt in _F8 else 1.0
    n = rng.choice([0, 1, 2, rng.randint(3, 20), rng.randint(0, 300), 300])
    allow_zero = rng.random() < 0.2
    flat = [(i, j) for i in range(ns) for j in range(nm) if allow_zero or data[i, j] > 0]
    chosen = rng.sample(flat, min(len(flat), rng.choice([1, 2, 3, len(flat), rng.randint(1, len(flat))])))
    forced = None
    if rng.random() < 0.2 and ns * nm > 1 and n > 0:
        # force the known-finding situation: an event in a zero-rate bin (making one if the array has none)
        zeros = [(i, j) for i in range(ns) for j in range(nm) if data[i, j] == 0.0]
        forced = rng.choice(zeros) if zeros else (rng.randrange(ns), rng.randrange(nm))
        data[forced] = 0.0
        if not (data > 0).any():
            k = rng.choice([q for q in range(ns * nm) if (q // nm, q % nm) != forced])
            data[k // nm, k % nm] = 10.0 ** rng.uniform(-9, 1) if rdt in _F8 else 1.0
        chosen = [c for c in chosen if data[c] > 0 or allow_zero] + [forced]
    events = []
    for e in range(n):
        i, j = forced if (forced is not None and e == 0) else rng.choice(chosen)
        events.append([i, j, rng.uniform(0.2, 0.8).hex(), rng.uniform(0.2, 0.8).hex(), rng.uniform(0.2, 0.8).hex()])
    spec = dict(ns=ns, nm=nm, cls=cls, data=[[float(x).hex() for x in row] for row in data], events=events,
                nx=rng.randint(1, ns), dh=rng.choice([0.1, 0.5, 1.0]), x0=float(rng.randint(-20, 20)),
                y0=float(rng.randint(-20, 20)), m0=rng.choice(_MAGS()[0]), dm=rng.choice(_MAGS()[1]),
                nsim=rng.choice([1, 2, 3]) if tier == "quick" else rng.choice([1, 2, 3, 5]),
                rn_seed=rng.randrange(2 ** 32), same_region=rng.random() < 0.5,
                fscale=rng.choice([None, None, None, 2.0, 0.5, 10.0, 3.0, 0.1]), open_mag=rng.random() < 0.15)
    r = rng.random()
    if r < 0.2:
        spec["cat_region"] = "none" if r < 0.1 else "nomag"
    elif r < 0.34:
        # round 5 (owners): a magnitude-less region with the forecast's cells in ANOTHER order, with MORE cells than the forecast
        # has, or a space-magnitude region of the catalog's own with other magnitude edges; the forecast's region decides
        spec["cat_region"] = "nomag-perm" if r < 0.27 else ("nomag-superset" if r < 0.31 else "sm-othermags")
    if rep:
        spec.update(rdtype=rdt, rlayout=rl)
        if rdt != "f8":
            # whole-number / float32 rates are held as they are (data/c would leave the dtype's value set)
            spec["fscale"] = None
    # round 6 (owners): how the arguments are passed (positional / keyword), which public catalog class carries the events, a zero
    # rate written -0.0
    from . import c05 as _c05m
    spec["conv"] = rng.choice(_c05m.CALL_CONVENTIONS)
    spec["cat_class"] = "ucerf3" if rng.random() < 0.12 and "events_bulk" not in spec else "csep"
    # round 7: (j) catalogs of a user subclass overriding the BASIC DATA ACCESSORS (negated consistently; overrides of derived methods
    # such as spatial_counts() are outside the property: coordinator's decision on C16_15 / C16_H5), (h) copy / deepcopy / pickle of forecast and catalog before use, (i) a rejected call first, (k) numpy told to raise on
    # divide / invalid and a small decimal context around the calls (float64 forecasts, zero rates included: the masked-array code
    # never takes log(0))
    r7 = rng.random()
    if r7 < 0.14:
        spec["cat_class"] = "user-neg"
    spec["copies"] = [rng.choice(_c05m.COPY_FORMS), rng.choice(_c05m.COPY_FORMS)]
    spec["pre_reject"] = rng.random() < 0.2
    spec["strict_fp"] = rng.random() < 0.4
    spec["decimal_prec"] = rng.choice([None, None, None, 2, 3, 6])
    if rdt == "f8" and rng.random() < 0.15:
        spec["data"] = [["-0x0.0p+0" if float.fromhex(x) == 0.0 and (k + j) % 2 == 0 else x for j, x in enumerate(row)]
                        for k, row in enumerate(spec["data"])]
    if rdt == "f8" and rng.random() < 0.35:
        # round 4 (owners): every kind of factor scale() documents - python / numpy scalars, 0-d and (1,1) arrays, per-cell
        # (n,1), per-magnitude (m,) / (1,m), per-bin (n,m) arrays, scale_to_test_date - with 0-2 earlier factors set before
        # the one that counts (the factor is absolute); generator shared with C05
        from . import c05 as _c05
        spec["fscale"] = None
        spec["factor"] = dict(last=_c05._gen_factor(rng), pre=[_c05._gen_factor(rng, False) for _ in range(rng.choice([0, 0, 1, 2]))])
    return spec


def _bound_to(cat, fore):
    """the catalog is bound to a region that BINS like the forecast's space-magnitude region: the same object, or one with the same
    cells in the same order, the same cell size and the same magnitude edges (the identity of the object is incidental)"""
    reg = getattr(cat, "region", None)
    if reg is fore.region:
        return True
    try:
        return reg is not None and getattr(reg, "magnitudes", None) is not None and \
            numpy.array_equal(numpy.asarray(reg.magnitudes, dtype=float), numpy.asarray(fore.magnitudes, dtype=float)) and \
            numpy.array_equal(numpy.asarray(reg.origins(), dtype=float), numpy.asarray(fore.region.origins(), dtype=float)) and \
            float(reg.dh) == float(fore.region.dh)
    except Exception:
        return False


_GIVEN = {}           # the very array object handed to the forecast's constructor by the last `_build`


class _DataMismatch(Exception):
    pass


def _build(spec):
    from csep.core.catalogs import CSEPCatalog
    from csep.core.forecasts import GriddedForecast
    from csep.core.regions import CartesianGrid2D
    ns, nm, nx, dh = spec["ns"], spec["nm"], spec["nx"], spec["dh"]
    if "data_tile" in spec:
        data = numpy.resize(numpy.array([float.fromhex(x) for x in spec["data_tile"]]), ns * nm).reshape(ns, nm)
    else:
        data = numpy.array([[float.fromhex(x) for x in row] for row in spec["data"]], dtype=float).reshape(ns, nm)
    origins = numpy.array([[spec["x0"] + dh * (k % nx), spec["y0"] + dh * (k // nx)] for k in range(ns)])
    mags = [spec["m0"] + spec["dm"] * k for k in range(nm)]
    region = CartesianGrid2D.from_origins(origins, dh=dh, magnitudes=mags)
    c = spec.get("fscale")
    rdt, rl = spec.get("rdtype", "f8"), spec.get("rlayout", "C")
    if spec.get("factor"):
        # the forecast holds `held`; earlier factors are set and replaced; the rates under test are held x LAST factor,
        # computed by the harness itself (numpy broadcasting), and forecast.data must agree
        from . import c05 as _c05
        fa = spec["factor"]
        w0 = 1.0 if fa["last"][0] == "date" else _c05._factor(fa["last"], ns, nm)
        held = _layout(numpy.asarray(data / w0, dtype=float), rl, 3.0)
        fore = GriddedForecast(data=held, region=region, magnitudes=mags, name="forecast")
        _GIVEN["array"] = held
        for fk in fa.get("pre", []):
            fore.scale(_c05._factor(fk, ns, nm))
        data = _c05._apply_factor(fore, numpy.array(held, dtype=float), fa["last"])
        if not _c05._same_rates(fore, data):
            raise _DataMismatch("forecast.data is not the stored rates times the factor set last (elementwise)")
    elif c:
        # the forecast holds data/c and is scaled by c (GriddedDataSet.scale): the rates under test are `fore.data`
        _GIVEN["array"] = _layout((data / c).astype(_NP[rdt]), rl, 3.0)
        fore = GriddedForecast(data=_GIVEN["array"], region=region, magnitudes=mags, name="forecast").scale(c)
        data = numpy.array(fore.data, dtype=float)
    else:
        # the same numbers in the representation (dtype, memory layout) the spec names
        held = _layout(data.astype(_NP[rdt]), rl, 3.0)
        if not numpy.array_equal(held, data):
            raise AssertionError("harness: the representation changed the values")
        fore = GriddedForecast(data=held, region=region, magnitudes=mags, name="forecast")
        _GIVEN["array"] = held
    cnt = numpy.zeros((ns, nm), dtype=int)
    ev = []
    for k, (i, j, fx, fy, fm) in enumerate(spec["events"]):
        fx, fy, fm = float.fromhex(fx), float.fromhex(fy), float.fromhex(fm)
        mag = mags[j] + spec["dm"] * (fm if not (spec.get("open_mag") and j == nm - 1) else 1.0 + 4.0 * fm)
        ev.append((str(k), 1000 * k, origins[i, 1] + dh * fy, origins[i, 0] + dh * fx, 10.0, mag))
        cnt[i, j] += 1
    for i, j, c in spec.get("events_bulk", []):          # many events in one bin, generated compactly
        mag = mags[j] + 0.5 * spec["dm"]
        ev += [(f"b{i}_{j}_{q}", 1000 * q, origins[i, 1] + 0.5 * dh, origins[i, 0] + 0.5 * dh, 10.0, mag) for q in range(c)]
        cnt[i, j] += c
    # how the observed catalog comes: bound to the forecast's region object, to an equal region of its own, to NO region,
    # or to a purely spatial region (magnitudes None) - the CL and Brier tests then grid it on the forecast's region (D40)
    cr = spec.get("cat_region") or ("same" if spec["same_region"] else "equal")
    if cr == "nomag-perm":
        perm = numpy.arange(ns)[::-1] if spec["rn_seed"] % 2 else numpy.random.default_rng(spec["rn_seed"]).permutation(ns)
        cat_region = CartesianGrid2D.from_origins(origins[perm].copy(), dh=dh)
    elif cr == "nomag-superset":
        extra = numpy.array([[spec["x0"] + dh * k, spec["y0"] - dh] for k in range(nx)])
        cat_region = CartesianGrid2D.from_origins(numpy.vstack([extra, origins]), dh=dh)
    elif cr == "sm-othermags":
        cat_region = CartesianGrid2D.from_origins(origins, dh=dh, magnitudes=[spec["m0"] + spec["dm"] * (k - 0.5) for k in range(nm + 1)])
    else:
        cat_region = dict(same=fore.region, equal=CartesianGrid2D.from_origins(origins, dh=dh, magnitudes=mags), none=None,
                          nomag=CartesianGrid2D.from_origins(origins, dh=dh))[cr]
    from . import c05 as _c05
    _GIVEN["skip"] = []
    cc_ = spec.get("cat_class")
    if cc_ == "ucerf3":
        cat = _c05._ucerf3_catalog(ev, cat_region)          # another public catalog class carrying the same events (round 6)
    elif cc_ == "user-neg":
        cat = _c05._user_classes()["UserNegCatalog"](data=[(a, b, -c_, -d, e, -f) for a, b, c_, d, e, f in ev], region=cat_region,
                                                     name="catalog")
    else:
        cat = CSEPCatalog(data=ev, region=cat_region, name="catalog")
    cf = spec.get("copies") or [None, None]
    if cf[0]:
        fore = _c05._copy_form(fore, cf[0], what="forecast")
        if cf[0] != "copy":
            _GIVEN["array"] = None
    if cf[1]:
        cat = _c05._copy_form(cat, cf[1], what="catalog")
    return fore, cat, data, cnt


def _sim_counts(rates1d, rn, band=0.0):
    """the simulated catalog the inverse-CDF sampler (C06) places for the uniform numbers `rn`; None when a number lies
    within `band` of a bin boundary (weights formed in float32 may put it on either side: both answers are allowed)"""
    w = numpy.cumsum(rates1d)
    w = w / w[-1]
    if band and len(rn) and numpy.min(numpy.abs(numpy.asarray(rn)[:, None] - w[None, :])) <= band:
        return None
    idx = numpy.searchsorted(w, rn, side="right")
    return numpy.bincount(idx, minlength=len(rates1d)).astype(int)


def _frac(x):
    n, d = float(x).as_integer_ratio()
    return f"{n}/{d}" if d != 1 else str(n)


def _rows_txt(rn):
    return "R" + ";".join(",".join(_frac(x) for x in row) if len(row) else "-" for row in rn)


def _score_entries(run, drv, pending, case, mode, fname, data, cnt, rn, obs, td, rdt, qs=None, rates_exact=None,
                   dims=None, events_txt=None, rn_all=None, pipe=True):
    """oracle + model request for the observed and every simulated entry of one test. data: (space, magnitude) float64
    values of the rates under test, cnt: the gridded observation, rn: injected numbers, rdt: dtype of the rate array"""
    nsim = len(rn)
    eps, unit, rate_err, band = EPS64, _unit(rdt), 0.0, 0.0
    if mode == "S":
        rates1d, obs1d, orates = data.sum(axis=1), cnt.sum(axis=1), [math.fsum(r) for r in data.tolist()]
        rate_err = (data.shape[1] + 1) * unit        # the implementation sums float32 / float16 rates in their own dtype
    else:
        rates1d, obs1d, orates = data.ravel(), cnt.ravel(), data.ravel().tolist()
    band = 4.0 * unit * len(rates1d)                 # ... and accumulates the sampling weights in it
    if len(td) != nsim:
        run.oracle_failure(case, f"{fname}: test_distribution has {len(td)} entries for {nsim} simulations")
        return
    if qs is not None and nsim > 0:
        # the reported quantile is the share of reported simulated entries not above the reported observed one (exact)
        want = sum(1 for x in td if x <= obs) / nsim
        if not (abs(float(qs) - want) <= 1e-12):
            run.oracle_failure(case, f"{fname}: quantile {float(qs)!r} but {sum(1 for x in td if x <= obs)} of {nsim} "
                                     f"simulated entries are <= the observed one")
    sims = [_sim_counts(rates1d, rn[k, :], band) for k in range(nsim)]
    entries = [("observed", obs1d, obs)] + [(f"simulated[{k}]", sims[k], td[k]) for k in range(nsim)]
    vals, tols = [], []
    for name, counts, val in entries:
        if counts is None:
            run.count("sim-entry-ambiguous-narrow-float-weights")
            vals.append(val)
            tols.append(None)
            continue
        chk = _check_brier if mode == "B" else _check_binary
        tols.append(chk(run, case, f"{fname} {name}", val, orates, [int(c) for c in counts], eps, rate_err))
        vals.append(val)
    if any(s_ is None for s_ in sims):
        return                       # the model request needs every simulated catalog; the observed entry was checked above
    simtxt = ";".join(",".join(str(int(c)) for c in s_) for s_ in sims) if sims else "-"
    i = drv.ask(f"c16_mode {mode} {_rows(data, _bits)} {_rows(cnt, lambda c: str(int(c)))} {simtxt}")
    pending.append((case, mode, [i], vals, tols))
    # wave 4: the whole test inside the model - only rates, observed counts and the uniform numbers are sent; the model
    # places the simulated events itself (Soft64 weights of C06) and scores them.  rates_exact: the 1-D rate vector the
    # implementation works on, bit for bit (the S-test's marginal sums depend on numpy's summation order).
    # Not sent when the weights are formed in a narrow floating dtype (unit != 0: either placement is allowed there).
    if unit == 0.0 and nsim > 0 and pipe:
        r1 = numpy.asarray(rates1d if rates_exact is None else rates_exact, dtype=float).ravel()
        if len(r1) == len(obs1d) and numpy.all(numpy.isfinite(r1)) and len(r1) <= PIPE_MAX_BINS:
            dd = dims or [len(r1)]
            if events_txt is not None:
                # round 4: the catalog itself goes to the model — the events' (cell, magnitude bin) lookups; the model grids
                # them (C03: spatial_counts for S, spatial_magnitude_counts for CL / Brier), then runs the whole test
                if rn_all is not None:
                    # `num_simulations` given separately: ALL injected rows go to the model, which reads the first nsim
                    j = drv.ask(f"c16_publicN {mode} {data.shape[0]} {data.shape[1]} {_lst(r1, _frac)} {_lst(r1, _bits)} "
                                f"{events_txt} {nsim} {_rows_txt(rn_all)}")
                else:
                    j = drv.ask(f"c16_public {mode} {data.shape[0]} {data.shape[1]} {_lst(r1, _frac)} {_lst(r1, _bits)} "
                                f"{events_txt} {_rows_txt(rn)}")
                run.count(f"public-from-events-{mode}")
            else:
                j = drv.ask(f"c16_pipe {'B' if mode == 'B' else 'L'} {_lst(dd, str)} {_lst(r1, _frac)} {_lst(r1, _bits)} "
                            f"{_lst(obs1d, lambda c: str(int(c)))} {_rows_txt(rn)}")
            pending.append((case, "pipe", [j], dict(vals=vals, tols=tols, sims=sims, qs=qs, fname=fname), None))
            run.count(f"pipeline-{mode}")


def _wrong_width(run, drv, pending, case, mode, fn, args, n_active, nsim, g, rates1d, counts1d, dims):
    """rows of uniform numbers whose width is not the number of active bins: `assert sim_fore.sum() == sim_cells` must
    fail (AssertionError), in the implementation and in the model (BinaryBrier.pipeline_row_width_assert)"""
    w = n_active + 1 if (n_active == 0 or g.random() < 0.5) else n_active - 1
    rn = g.random((max(nsim, 1), w))
    try:
        with numpy.errstate(all="ignore"):
            from . import c05 as _c05w
            with _c05w._capped_uniforms(2000):
                fn(*args, num_simulations=max(nsim, 1), random_numbers=rn)
        got = "returned"
    except Exception:                # which exception is not part of any statement: AssertionError today
        got = "exception"
    run.count(f"wrong-width-{mode}")
    if got != "exception":
        # the injected numbers are a testing hook and the property is silent about malformed ones: a library that accepts
        # them is not in violation; counted, and the model (which transcribes the assertion) is not consulted
        run.count(f"wrong-width-accepted-{mode}")
        return
    r1 = numpy.asarray(rates1d, dtype=float).ravel()
    if len(r1) == len(counts1d) and numpy.all(numpy.isfinite(r1)) and len(r1) <= PIPE_MAX_BINS:
        dd = dims or [len(r1)]
        j = drv.ask(f"c16_pipe {'B' if mode == 'B' else 'L'} {_lst(dd, str)} {_lst(r1, _frac)} {_lst(r1, _bits)} "
                    f"{_lst(counts1d, lambda c: str(int(c)))} {_rows_txt(rn)}")
        pending.append((dict(case, wrong_width=w), "pipe-exc", [j], got, None))


def _test_case(run, drv, pending, spec, tag="test"):
    from csep.core import binomial_evaluations as be
    from csep.core import brier_evaluations as br
    case = dict(spec=spec, kind="test", tag=tag)
    try:
        fore, cat, data, cnt = _build(spec)
    except _DataMismatch as e:
        run.oracle_failure(case, str(e))
        return
    ns, nm, nsim = spec["ns"], spec["nm"], spec["nsim"]
    rdt, rl = spec.get("rdtype", "f8"), spec.get("rlayout", "C")
    g = numpy.random.default_rng(spec["rn_seed"])
    if spec.get("factor"):
        run.count(f"factor-{spec['factor']['last'][0]}")
        if spec["factor"].get("pre"):
            run.count("factor-sequence")
    fc = cnt.ravel().tolist()
    nontriv = 0 < sum(1 for c in fc if c > 0) < len(fc) and max(fc) >= 2
    cr = spec.get("cat_region")
    run.count(f"catalog-region-{cr or ('same' if spec['same_region'] else 'equal')}")
    run.case(dict(kind="test", shape=[ns, nm], cls=spec["cls"], n_obs=int(cnt.sum()),
                  zeros=int((data == 0).sum()), tag=tag, rdtype=rdt, rlayout=rl),
             (data.tobytes(), cnt.tobytes(), rdt, rl) if nontriv else None)
    run.count(f"forecast-dtype-{rdt}")
    run.count(f"forecast-layout-{rl}")
    modes = [("S", be.binary_spatial_test), ("CL", be.binary_conditional_likelihood_test), ("B", br.brier_score_test)]
    from . import c05 as _c05m
    conv = spec.get("conv", "kw")
    shared_rn, repeated = {}, []
    run.count(f"call-convention-{conv}")
    run.count(f"catalog-class-{spec.get('cat_class', 'csep')}")
    # the catalog as the list of its events' (cell, magnitude bin) lookups, for the catalog-level model (c16_public)
    nev = len(spec["events"]) + sum(c for _, _, c in spec.get("events_bulk", []))
    evtxt = None
    if nev <= 2000:
        evs = [(e[0], e[1]) for e in spec["events"]] + [(i, j) for i, j, c in spec.get("events_bulk", []) for _ in range(c)]
        evtxt = ",".join(f"{i}:{j}" for i, j in evs) if evs else "-"
    if cr in ("none", "nomag-perm", "nomag-superset"):
        # a catalog without region cannot be gridded by the S-test; the CL / Brier test binds the forecast's region to it
        # (documented fallback), after which the S-test works on the same object: history CL/B first, then S.  The same order
        # for a catalog whose magnitude-less region has other cells / another cell order than the forecast's: the CL / Brier
        # test grids it on the FORECAST's region; the S-test BEFORE that is a genuine-defect candidate (AWAITING_DECISION)
        modes = [modes[1], modes[2], modes[0]] if spec["rn_seed"] % 2 else [modes[2], modes[0], modes[1]]
        if cr != "none":
            run.count("awaiting-decision-skipped:s-test-on-catalog-own-spatial-region")
    elif cr == "sm-othermags":
        # the catalog carries a space-magnitude region with other magnitude edges: the S-test (same cells) is well defined;
        # CL / Brier on it are a genuine-defect candidate (AWAITING_DECISION)
        modes = [modes[0]]
        run.count("awaiting-decision-skipped:catalog-own-space-magnitude-region-differs")
    # the magnitude edges of the forecast and of its space-magnitude region are the ones the user supplied, bit for bit
    want_m = [spec["m0"] + spec["dm"] * k for k in range(nm)]
    for what, got in (("forecast.magnitudes", getattr(fore, "magnitudes", None)),
                      ("forecast.region.magnitudes", getattr(fore.region, "magnitudes", None))):
        got = None if got is None else [float(x) for x in numpy.ravel(got)]
        if got is None or len(got) != nm or any(_bits(a) != _bits(b) for a, b in zip(got, want_m)):
            run.oracle_failure(case, f"{what} = {None if got is None else got[:5]} is not the list of magnitude edges the forecast "
                                     f"was built with {want_m[:5]}")
            return
    skip = _GIVEN.get("skip") or []
    cnt_target = cnt.copy()
    for k_ in skip:
        cnt_target[spec["events"][k_][0], spec["events"][k_][1]] -= 1
    ev_kept = None
    if skip and evtxt is not None:
        kept = [e for k_, e in enumerate(spec["events"]) if k_ not in set(skip)]
        ev_kept = ",".join(f"{e[0]}:{e[1]}" for e in kept) if kept else "-"
    run.count(f"copy-forecast-{(spec.get('copies') or [None, None])[0]}")
    run.count(f"copy-catalog-{(spec.get('copies') or [None, None])[1]}")
    strict = bool(spec.get("strict_fp")) and rdt in _F8
    if strict:
        run.count("errstate-divide-invalid-raise")
    if spec.get("pre_reject") and cr in (None, "nomag") and not skip:
        # round 7 (i): a call the library rejects on the same objects first (one column too many: the count assertion), caught
        fn0 = modes[spec["rn_seed"] % len(modes)][1]
        try:
            with numpy.errstate(all="ignore"), _c05m._capped_uniforms(2000):
                fn0(fore, cat, num_simulations=2, random_numbers=numpy.random.default_rng(spec["rn_seed"]).random((2, int((cnt > 0).sum()) + ns + 1)))
            run.count("pre-reject-accepted")
        except Exception:
            run.count("pre-reject-raised")
    for mode, fn in modes:
        cnt_m = cnt_target if (mode == "S" and skip) else cnt          # the user's spatial_counts() is what the S-test is about
        obs1d = cnt_m.sum(axis=1) if mode == "S" else cnt.ravel()
        n_active = int((obs1d > 0).sum())
        # round 4: `num_simulations` is an argument of its own - one call in eight injects 1-2 rows MORE than simulations
        # asked (the first `num_simulations` rows are the ones to be used); rarely a long verbose run (>= 100 simulations,
        # the `(idx + 1) % 100 == 0` progress branch)
        surplus = (1 + spec["rn_seed"] % 2) if (spec["rn_seed"] // 5) % 8 == 0 else 0
        long_run = spec["rn_seed"] % 97 == 0 and ns * nm <= 400
        nsim_call = (100 + spec["rn_seed"] % 31) if long_run else nsim
        # round 6: ONE random_numbers array object for the tests that take the same number of numbers (CL and Brier always; the S-test
        # when it has as many active cells): what a test does to / remembers of its numbers shows in the next one
        if shared_rn.get("a") is not None and shared_rn["a"].shape == (nsim_call + surplus, n_active):
            rn_all = shared_rn["a"]
            run.count("random-numbers-array-reused")
        else:
            rn_all = g.random((nsim_call + surplus, n_active))
            shared_rn["a"] = rn_all
        rn = rn_all[:nsim_call]
        owned = _c05m._Owned(random_numbers=rn_all, events=getattr(cat, "catalog", None), given=_GIVEN.get("array"))
        try:
            # with injected numbers the tests draw nothing from the global generator: a call that starts drawing is stopped
            with numpy.errstate(**(dict(divide="raise", invalid="raise") if strict else dict(all="ignore"))), \
                    _c05m._capped_uniforms(2000), _c05m._decimal_ctx(spec.get("decimal_prec")):
                if long_run:
                    import contextlib
                    import io
                    with contextlib.redirect_stdout(io.StringIO()):
                        res = _c05m._public_call(fn, conv, fore, cat, nsim_call, random_numbers=rn_all, verbose=True)
                    run.count("long-verbose-run")
                else:
                    sd_ = 12345 if (spec["rn_seed"] // 11) % 4 == 0 else None          # a seed next to injected numbers: no effect
                    res = _c05m._public_call(fn, conv, fore, cat, nsim_call, seed=sd_, random_numbers=rn_all)
        except Exception as e:
            run.oracle_failure(case, f"{fn.__name__} raised {type(e).__name__}: {e}")
            continue
        run.count(f"call-{fn.__name__}")
        ch = owned.changed()
        if ch:
            run.oracle_failure(case, f"{fn.__name__} changed the caller's own array(s) {ch} in place")
            return
        if not repeated and not long_run:
            # round 6: aliasing of RETURNED objects - overwrite in place what this call and the public getters handed out, repeat
            # the very same call: same values
            repeated.append(mode)
            o1, t1_ = float(res.observed_statistic), [float(x) for x in res.test_distribution]
            _c05m._scribble(res, fore, cat)
            try:
                with numpy.errstate(all="ignore"), _c05m._capped_uniforms(2000):
                    res2 = _c05m._public_call(fn, conv, fore, cat, nsim_call, random_numbers=rn_all)
                o2, t2_ = float(res2.observed_statistic), [float(x) for x in res2.test_distribution]
                if not ((o1 == o2 or (math.isnan(o1) and math.isnan(o2))) and len(t1_) == len(t2_) and
                        all(a == b or (math.isnan(a) and math.isnan(b)) for a, b in zip(t1_, t2_))):
                    run.oracle_failure(case, f"{fn.__name__} repeated after the objects it and the public getters RETURNED were overwritten "
                                             f"in place: {o2!r}, {t2_[:3]} instead of {o1!r}, {t1_[:3]}")
                    return
                res = res2
                run.count("repeat-after-overwriting-returned-objects")
            except Exception as e:
                run.oracle_failure(case, f"{fn.__name__} repeated after overwriting returned objects raised {type(e).__name__}: {e}")
                return
        if surplus:
            run.count("injected-rows-exceed-num-simulations")
        rex = None
        if mode == "S":
            with numpy.errstate(all="ignore"):
                rex = numpy.asarray(fore.spatial_counts(), dtype=float)
        _score_entries(run, drv, pending, case, mode, fn.__name__, data, cnt_m, rn, float(res.observed_statistic),
                       [float(x) for x in res.test_distribution], rdt, qs=res.quantile, rates_exact=rex,
                       dims=[ns, nm] if mode == "B" else None, events_txt=(ev_kept if (mode == "S" and skip) else evtxt),
                       rn_all=rn_all if surplus else None, pipe=not long_run)
        if spec["rn_seed"] % 8 == 0:
            _wrong_width(run, drv, pending, case, mode, fn, (fore, cat), n_active, nsim, g,
                         rex if mode == "S" else data.ravel(), [int(c) for c in obs1d], [ns, nm] if mode == "B" else None)
    if cr in ("none", "nomag", "nomag-perm", "nomag-superset"):
        # afterwards the catalog bins like the forecast: the forecast's region object, or a region with the SAME cells in the
        # SAME order and the same magnitude edges (which object it is, is incidental; how it bins is not)
        if not _bound_to(cat, fore):
            run.oracle_failure(case, f"a catalog that came without a space-magnitude region ({cr}) is bound to "
                                     f"{getattr(cat, 'region', None)!r} after the CL / Brier test: not a region that bins like the "
                                     f"forecast's (same cells, same order, same magnitude edges)")
    if not skip:            # the per-cell map mixes the user's two conventions (spatial_counts() vs event_count) by design of that class
        _cells_check(run, drv, pending, case, fore, cat, data, cnt, rdt)


def _cells_check(run, drv, pending, case, fore, cat, data, cnt, rdt="f8"):
    """binary_spatial_likelihood: per-cell binary terms of the spatial rates scaled by N_obs/N_fore. Checked where every
    scaled rate is positive (all spatial rates positive, catalog not empty); elsewhere only counted (0*log 0 = nan).
    Dtype-aware: a cell whose own term 1 - exp(-rate*scale) is 0 in the forecast's floating dtype is not compared."""
    from csep.core import poisson_evaluations as pe
    n = int(cnt.sum())
    srates = [math.fsum(r) for r in data.tolist()]
    try:
        with numpy.errstate(all="ignore"):
            bill = numpy.asarray(pe.binary_spatial_likelihood(fore, cat), dtype=float)
    except Exception as e:
        run.oracle_failure(case, f"binary_spatial_likelihood raised {type(e).__name__}: {e}")
        return
    if n == 0 or min(srates) <= 0.0:
        run.count("cells-outside-domain")
        run.extra["cells_nan_outside_domain"] = run.extra.get("cells_nan_outside_domain", 0) + int(numpy.isnan(bill).sum())
        return
    if rdt[0] == "u" and "map-unsigned-int-rates" in AWAITING_DECISION:
        run.count("cells-awaiting-decision:map-unsigned-int-rates")
        return
    run.count("cells-checked")
    s = n / math.fsum(srates)
    w = cnt.sum(axis=1)
    # the map works on the forecast as it is: for float32 / float16 rates the marginal sums, the scale and
    # 1 - exp(-rate * scale) are formed in that dtype (integer rates: exact sums, then float64)
    unit, nm = _unit(rdt), data.shape[1]
    slack = (nm + 4) * unit
    if unit:
        with numpy.errstate(all="ignore"):
            scale_dt = _NP[rdt](n) / _NP[rdt](math.fsum(srates))
        if not numpy.isfinite(scale_dt):
            # N_obs / N_fore exceeds the largest number of the forecast's dtype (float16: 65504): every cell is inf or nan
            run.count("cells-scale-overflows-in-forecast-dtype")
            return
    ref, tols = [], []
    for r, c in zip(srates, w):
        l = r * s
        if unit and (_underflows(l * (1.0 - slack), _NP[rdt]) or not numpy.isfinite(_NP[rdt](l * (1.0 + slack)))):
            # 1 - exp(-rate * scale) is 0 in the forecast's dtype (or rate * scale is not finite in it): the map's own term
            # is 0 * log(0) = nan (empty cell) or log(0) = -inf (active cell). Same kind of value as the nan of a zero-rate cell, outside the statement; the
            # cell is not compared (every other cell of the map is)
            run.count("cells-term-underflows-in-forecast-dtype")
            ref.append(None)
            tols.append(None)
        elif c > 0:
            p = -math.expm1(-l)
            ref.append(math.log(p))
            tols.append(EPS64 / p + (unit / p + slack * (l / p + abs(ref[-1])) if unit else 0.0))
        else:
            ref.append(-l)
            tols.append(slack * l)
    if bill.shape != (len(ref),):
        run.oracle_failure(case, f"binary_spatial_likelihood: shape {bill.shape} for {len(ref)} cells")
        return
    bad = [k for k in range(len(ref)) if ref[k] is not None and not _close(float(bill[k]), ref[k], tols[k])]
    if bad:
        k = bad[0]
        run.oracle_failure(case, f"binary_spatial_likelihood cell {k}: {float(bill[k])!r} != definition {ref[k]!r}")
    i = drv.ask(f"c16_cells {_rows(data, _bits)} {_rows(cnt, lambda c: str(int(c)))}")
    pending.append((case, "cells", [i], [float(x) for x in bill], tols))


def _underflows(x, dt):
    """is 1 - exp(-x) zero in the floating dtype dt (exp(-x) rounds to 1)"""
    with numpy.errstate(all="ignore"):
        return bool(dt(1.0) - numpy.exp(-dt(x)) == dt(0.0))


# ----------------------------------------------------------------------------- phase 2: default random path, sessions
def _guard(run, case, fn, *a):
    """lesson 6: a deviation that makes the EXAMINATION of an implementation output fail (wrong type / shape / length) is a
    reported failure with the case as replay, never a crash of the harness"""
    try:
        return fn(*a)
    except (AttributeError, TypeError, ValueError, IndexError, KeyError, OverflowError, ArithmeticError) as e:
        import traceback
        w = traceback.extract_tb(e.__traceback__)[-1]
        run.oracle_failure(case, f"the implementation's output could not be examined ({type(e).__name__}: {e}; "
                                 f"c16.py:{w.lineno})")
        return None


import contextlib as _contextlib


@_contextlib.contextmanager
def _capture_sims(module, rec):
    """record a copy of what every call of the module's private `_simulate_catalog` returns (nothing in the tree under test
    is edited; absent helper: nothing is recorded and the harness's own replay of the legacy stream stands in)"""
    orig = getattr(module, "_simulate_catalog", None)
    if not callable(orig):
        yield rec
        return

    def wrap(*a, **k):
        out = orig(*a, **k)
        try:
            rec.append(numpy.asarray(out, dtype=float).astype(int).ravel().copy())
        except Exception:
            rec.append(numpy.zeros(0, dtype=int))
        return out
    module._simulate_catalog = wrap
    try:
        yield rec
    finally:
        module._simulate_catalog = orig


def _rej_count(rates1d, n_active, nsim, stream):
    """how many uniform numbers the rejection rule consumes for `nsim` simulations on this stream (len(stream) if it runs out)"""
    r = numpy.where(numpy.asarray(rates1d, dtype=float) <= 0.0, 0.0, numpy.asarray(rates1d, dtype=float))
    w = numpy.cumsum(r)
    w = w / w[-1]
    pos = 0
    for _ in range(nsim):
        seen = set()
        while len(seen) < n_active:
            if pos >= len(stream):
                return len(stream)
            seen.add(int(numpy.searchsorted(w, stream[pos], side="right")))
            pos += 1
    return pos


def _rej_sims(rates1d, n_active, nsim, stream):
    """the simulated catalogs of the rejection loop (random_numbers=None) for the given stream of uniform numbers;
    None when the stream runs out"""
    r = numpy.where(numpy.asarray(rates1d, dtype=float) <= 0.0, 0.0, numpy.asarray(rates1d, dtype=float))
    w = numpy.cumsum(r)
    w = w / w[-1]
    pos, sims = 0, []
    for _ in range(nsim):
        arr, active = numpy.zeros(len(r), dtype=int), 0
        while active < n_active:
            if pos >= len(stream):
                return None
            loc = int(numpy.searchsorted(w, stream[pos], side="right"))
            pos += 1
            if arr[loc] == 0:
                arr[loc] = 1
                active += 1
        sims.append(arr)
    return sims


def _gen_default_spec(rng, tier):
    """lesson 5: random_numbers NOT injected, num_simulations >= 2, with the seed argument or with the ambient global
    generator seeded by the caller. Forecasts whose rejection loop terminates quickly: rates within two decades, at most
    half of the positive bins active."""
    ns = rng.choice([2, 3, 5, 8, 13, rng.randint(2, 20)])
    nm = rng.choice([1, 2, 3, 4])
    data = [[float(10.0 ** rng.uniform(-1, 1)) for _ in range(nm)] for _ in range(ns)]
    if rng.random() < 0.3:
        data[rng.randrange(ns)][rng.randrange(nm)] = 0.0
    pos = [(i, j) for i in range(ns) for j in range(nm) if data[i][j] > 0]
    pos_rows = sorted({i for i, _ in pos})
    rows = rng.sample(pos_rows, rng.randint(1, max(1, len(pos_rows) // 2)))
    cells = [c for c in pos if c[0] in rows]
    cells = rng.sample(cells, rng.randint(1, max(1, min(len(cells), len(pos) // 2))))
    events = []
    for e in range(rng.choice([1, 2, 3, len(cells), 2 * len(cells), rng.randint(1, 30)])):
        i, j = cells[e] if e < len(cells) and rng.random() < 0.8 else rng.choice(cells)
        events.append([i, j, rng.uniform(0.2, 0.8).hex(), rng.uniform(0.2, 0.8).hex(), rng.uniform(0.2, 0.8).hex()])
    test = dict(ns=ns, nm=nm, cls="two-decades", data=[[x.hex() for x in row] for row in data], events=events,
                nx=rng.randint(1, ns), dh=rng.choice([0.1, 0.5, 1.0]), x0=float(rng.randint(-20, 20)),
                y0=float(rng.randint(-20, 20)), m0=rng.choice(_MAGS()[0]), dm=rng.choice(_MAGS()[1]), nsim=1,
                rn_seed=0, same_region=rng.random() < 0.5, fscale=None, open_mag=False)
    return dict(test=test, nsim=rng.choice([2, 2, 3, 4, 6]), seed=rng.choice([0, 1, 7, 123456789, rng.randrange(2 ** 32)]),
                seeding=rng.choice(["arg", "ambient"]), level=rng.choice(["array", "public"]), verbose=rng.random() < 0.2)


def _default_case(run, drv, pending, spec, tag="default"):
    import contextlib
    import io
    from . import c05 as _c05m
    from csep.core import binomial_evaluations as be
    from csep.core import brier_evaluations as br
    fore, cat, data, cnt = _build(spec["test"])
    ns, nm = data.shape
    nsim, seed = spec["nsim"], spec["seed"]
    case = dict(spec=spec, kind="default", tag=tag)
    run.case(dict(kind="default", shape=[ns, nm], nsim=nsim, seeding=spec["seeding"], level=spec["level"], tag=tag),
             (data.tobytes(), cnt.tobytes(), nsim, seed, spec["seeding"], spec["level"]))
    run.count(f"default-path-{spec['level']}-{spec['seeding']}")
    state = numpy.random.get_state()
    try:
        numpy.random.seed(seed)
        stream = numpy.random.uniform(0, 1, size=20000)
        if spec["level"] == "public":
            calls = [("S", be.binary_spatial_test, (fore, cat)), ("CL", be.binary_conditional_likelihood_test, (fore, cat)),
                     ("B", br.brier_score_test, (fore, cat))]
        else:
            blt, bst = _private(run, be, "_binary_likelihood_test", _DRIVER_PARAMS), _private(run, br, "_brier_score_test", _DRIVER_PARAMS)
            if blt is None or bst is None:
                return
            calls = [("CL", blt, (numpy.array(data), numpy.array(cnt))),
                     ("S", blt, (data.sum(axis=1), cnt.sum(axis=1))),
                     ("B", bst, (numpy.array(data), numpy.array(cnt)))]
        for mode, fn, args in calls:
            if mode == "S":
                with numpy.errstate(all="ignore"):
                    r1 = numpy.asarray(fore.spatial_counts() if spec["level"] == "public" else args[0], dtype=float)
                o1 = cnt.sum(axis=1)
            else:
                r1, o1 = data.ravel(), cnt.ravel()
            n_active = int((o1 > 0).sum())
            ref = _rej_sims(r1, n_active, nsim, stream)
            if ref is None:
                run.count("default-path-stream-too-short")
                continue
            kw = dict(num_simulations=nsim, seed=seed if spec["seeding"] == "arg" else None)
            if spec["level"] == "array" or spec["verbose"]:
                kw["verbose"] = bool(spec["verbose"])
            if spec["seeding"] == "ambient":
                numpy.random.seed(seed)
            rec = []
            try:
                # the replay of the rejection rule (`_rej_sims`) says how many uniform numbers the correct loop consumes for this
                # input: 20x that (+ slack), counted in calls of the generator, is the cap - a loop that cannot terminate (more
                # active cells asked than there are cells of positive rate: D10's mechanism) raises Runaway within milliseconds
                need = _rej_count(r1, n_active, nsim, stream)
                with numpy.errstate(all="ignore"), contextlib.redirect_stdout(io.StringIO()), \
                        _capture_sims(br if mode == "B" else be, rec), _c05m._capped_uniforms(20 * need + 2000):
                    res = fn(*args, **kw)
            except Exception as e:
                run.oracle_failure(case, f"{fn.__name__} (random_numbers=None, {kw}) raised {type(e).__name__}: {e}")
                continue
            # round 4: the simulated catalogs the code itself built (observable while its `_simulate_catalog` helper is
            # called once per simulation).  If they are valid catalogs (0/1, exactly n_active active bins, none of rate <= 0)
            # but NOT the ones the legacy one-number-per-iteration loop places, the code consumes the generator's stream
            # in another way (batches, another call shape) - legal: its entries are judged on the catalogs it built and
            # the stream model is not applied.
            use_stream_model = True
            if len(rec) == nsim and all(len(a) == len(r1) for a in rec):
                run.count("default-path-simulated-arrays-observed")
                if not all(numpy.array_equal(a, b) for a, b in zip(rec, ref)):
                    valid = all(set(numpy.unique(a).tolist()) <= {0, 1} and int(a.sum()) == n_active and
                                not numpy.any((a > 0) & (numpy.asarray(r1) <= 0.0)) for a in rec)
                    if valid:
                        run.count("default-path-stream-consumed-differently")
                        ref, use_stream_model = rec, False

            def examine():
                if spec["level"] == "public":
                    qs, obs, td = res.quantile, float(res.observed_statistic), [float(x) for x in res.test_distribution]
                else:
                    qs, obs, td = res[0], float(res[1]), [float(x) for x in res[2]]
                if len(td) != nsim:
                    run.oracle_failure(case, f"{fn.__name__}: {len(td)} simulated entries for {nsim} simulations")
                    return
                want = sum(1 for x in td if x <= obs) / nsim
                if abs(float(qs) - want) > 1e-12:
                    run.oracle_failure(case, f"{fn.__name__}: quantile {float(qs)!r} but {int(want * nsim)} of {nsim} "
                                             f"simulated entries are <= the observed one")
                chk = _check_brier if mode == "B" else _check_binary
                orates = [float(x) for x in r1]
                vals = [obs] + td
                tols = [chk(run, case, f"{fn.__name__} observed (default random path)", obs, orates, [int(c) for c in o1])]
                for k in range(nsim):
                    tols.append(chk(run, case, f"{fn.__name__} simulated[{k}] (default random path, seed {seed})", td[k],
                                    orates, [int(c) for c in ref[k]]))
                if not use_stream_model:
                    return
                dd = [ns, nm] if mode == "B" else [len(r1)]
                j = drv.ask(f"c16_stream {'B' if mode == 'B' else 'L'} {_lst(dd, str)} {_lst(r1, _frac)} {_lst(r1, _bits)} "
                            f"{_lst(o1, lambda c: str(int(c)))} {nsim} {_lst(stream[:4000], _frac)}")
                pending.append((case, "pipe", [j], dict(vals=vals, tols=tols, sims=ref, qs=qs, fname=fn.__name__), None))
            _guard(run, case, examine)
    finally:
        numpy.random.set_state(state)


def _gen_session_spec(rng, tier):
    """lesson 1: ONE forecast object, two catalogs (sharing the forecast's region object, or arriving without region),
    a random sequence of evaluations and re-scalings of the forecast"""
    test = _gen_test_spec(rng, tier)
    for k in ("rdtype", "rlayout", "factor", "copies", "pre_reject", "strict_fp", "decimal_prec"):
        test.pop(k, None)
    if test.get("cat_class") == "user-neg":
        test["cat_class"] = "csep"              # the session builds its second catalog itself; user classes are a public-test class
    test["fscale"], test["nsim"] = None, rng.choice([1, 2])
    test["cat_region"] = rng.choice(["same", "same", "equal", "none", "nomag"])
    ns, nm = test["ns"], test["nm"]
    ev2 = [[rng.randrange(ns), rng.randrange(nm), rng.uniform(0.2, 0.8).hex(), rng.uniform(0.2, 0.8).hex(),
            rng.uniform(0.2, 0.8).hex()] for _ in range(rng.choice([0, 1, 3, rng.randint(1, 40)]))]
    steps = []
    for _ in range(rng.randint(3, 7)):
        r = rng.random()
        if r < 0.3:
            kind = rng.choice(["scalar", "scalar", "one", "array-full", "array-col", "array-row", "array-row2d", "array-0d",
                               "np-scalar"])
            steps.append(["scale", kind, rng.choice([0.5, 2.0, 3.0, 0.1, 10.0]), rng.randrange(2 ** 32)])
        else:
            steps.append([rng.choice(["S", "CL", "B", "cells"]), rng.choice([0, 0, 1]), rng.randrange(2 ** 32)])
    return dict(test=test, events2=ev2, steps=steps)


def _session_case(run, drv, pending, spec, tag="session"):
    from csep.core import binomial_evaluations as be
    from csep.core import brier_evaluations as br
    from csep.core.catalogs import CSEPCatalog
    t = spec["test"]
    fore, cat0, base, cnt0 = _build(t)
    # the second catalog shares the FIRST catalog's region object (possibly None: bound later by a CL / Brier test)
    t2 = dict(t, events=spec["events2"])
    _, cat1_tmp, _, cnt1 = _build(t2)
    cat1 = CSEPCatalog(data=cat1_tmp.catalog.copy(), region=cat0.region, name="catalog2")
    cats, cnts = [cat0, cat1], [cnt0, cnt1]
    ns, nm = base.shape
    case = dict(spec=spec, kind="session", tag=tag)
    run.case(dict(kind="session", shape=[ns, nm], steps=len(spec["steps"]), cat_region=t.get("cat_region"), tag=tag),
             (base.tobytes(), cnt0.tobytes(), cnt1.tobytes(), repr(spec["steps"])))
    run.count("session")
    factor = numpy.ones((ns, nm))
    snaps = [c.catalog.copy() for c in cats]
    fns = dict(S=be.binary_spatial_test, CL=be.binary_conditional_likelihood_test, B=br.brier_score_test)
    for k, st in enumerate(spec["steps"]):
        if st[0] == "scale":
            _, kind, c, sd = st
            g = numpy.random.default_rng(sd)
            if kind in ("scalar", "one"):
                val = dict(scalar=c, one=1)[kind]
            elif kind == "np-scalar":
                val = numpy.float64(c) if sd % 2 else numpy.float32(0.5)
            else:
                val = g.choice([0.5, 2.0, 4.0], size=dict([("array-full", (ns, nm)), ("array-col", (ns, 1)), ("array-row", (nm,)),
                                                           ("array-row2d", (1, nm)), ("array-0d", ())])[kind])
            try:
                fore.scale(val)
            except Exception as e:
                run.oracle_failure(case, f"step {k}: scale({kind}) raised {type(e).__name__}: {e}")
                return
            factor = numpy.ones((ns, nm)) * val
            run.count(f"session-scale-{kind}")
            continue
        mode, ci, sd = st
        cat, cnt = cats[ci], cnts[ci]
        with numpy.errstate(all="ignore"):
            now = _guard(run, case, lambda: numpy.array(fore.data, dtype=float))
        if now is None:
            return
        want = base * factor
        if now.shape != want.shape or not numpy.array_equal(now, want):
            run.oracle_failure(case, f"step {k}: the forecast's rates are no longer data x the scale factor set last "
                                     f"(an earlier evaluation or scaling left the forecast changed)")
            return
        if mode in ("S", "cells") and (cat.region is None):
            continue                    # not yet bound: the S-test / the map cannot grid a catalog without region
        if mode == "cells":
            _cells_check(run, drv, pending, case, fore, cat, now, cnt, "f8")
        else:
            obs1d = cnt.sum(axis=1) if mode == "S" else cnt.ravel()
            n_active = int((obs1d > 0).sum())
            g = numpy.random.default_rng(sd)
            nsim = t["nsim"]
            rn = g.random((nsim, n_active))
            try:
                with numpy.errstate(all="ignore"):
                    from . import c05 as _c05s
                    with _c05s._capped_uniforms(2000):
                        res = fns[mode](fore, cat, num_simulations=nsim, random_numbers=rn)
                    rex = numpy.asarray(fore.spatial_counts(), dtype=float) if mode == "S" else None
            except Exception as e:
                run.oracle_failure(case, f"step {k}: {fns[mode].__name__} raised {type(e).__name__}: {e}")
                return
            run.count(f"session-{mode}")
            _guard(run, case, lambda: _score_entries(
                run, drv, pending, case, mode, f"step {k} {fns[mode].__name__}", now, cnt, rn,
                float(res.observed_statistic), [float(x) for x in res.test_distribution], "f8", qs=res.quantile,
                rates_exact=rex, dims=[ns, nm] if mode == "B" else None))
            if mode in ("CL", "B") and t.get("cat_region") in ("none", "nomag") and not _bound_to(cat, fore):
                run.oracle_failure(case, f"step {k}: the catalog without space-magnitude region was not bound to the "
                                         f"forecast's region by {fns[mode].__name__}")
                return
        # nothing the evaluation was given may have changed: the forecast's rates, both catalogs' events
        with numpy.errstate(all="ignore"):
            after = _guard(run, case, lambda: numpy.array(fore.data, dtype=float))
        if after is None or after.shape != now.shape or not numpy.array_equal(after, now):
            run.oracle_failure(case, f"step {k}: {mode} changed the forecast's rates")
            return
        for q, (c_, sn) in enumerate(zip(cats, snaps)):
            if c_.catalog.shape != sn.shape or c_.catalog.tobytes() != sn.tobytes():
                run.oracle_failure(case, f"step {k}: {mode} changed the events of catalog {q}")
                return


def _gen_big_test_spec(rng):
    """lesson 4 through the public tests: a region of 1600+ cells x 41 magnitude bins (> 65536 bins, not a multiple of
    65536) and a catalog of > 65535 events in one bin"""
    ns, nm = 1600 + rng.randrange(1, 200), 41
    cells = [(0, 0), (ns - 1, nm - 1), (ns - 1, 0), (65536 // nm, 65536 % nm), (65536 // nm + 1, 3), (rng.randrange(ns), rng.randrange(nm))]
    events = [[i, j, rng.uniform(0.2, 0.8).hex(), rng.uniform(0.2, 0.8).hex(), rng.uniform(0.2, 0.8).hex()]
              for i, j in rng.sample(cells, rng.randint(2, len(cells))) for _ in range(rng.choice([1, 2]))]
    bulk = [[ns - 2, nm - 2, rng.choice([65536, 66000, 70001])]] if rng.random() < 0.6 else []
    return dict(ns=ns, nm=nm, cls="big-tiled", data_tile=[float(10.0 ** rng.uniform(-6, -1)).hex() for _ in range(89)],
                events=events, events_bulk=bulk, nx=40, dh=0.1, x0=float(rng.randint(-20, 20)), y0=float(rng.randint(-20, 20)),
                m0=2.5, dm=0.1, nsim=1, rn_seed=rng.randrange(2 ** 32) | 1, same_region=True, fscale=None, open_mag=False)


def _flush_pipe(run, case, line, exp):
    """the model ran the whole test from (rates, counts, uniform numbers): entries, simulated catalogs, quantile"""
    vals, tols, sims, qs = exp["vals"], exp["tols"], exp["sims"], exp["qs"]
    parts = line.split(" | ")
    if len(parts) != 3:
        run.mismatch(dict(case, mode="pipe"), [repr(v) for v in vals], line)
        return
    model = [_unbits(t) for t in parts[0].split(" ")]
    ok = len(model) == len(vals) and all(t is None or _close(v, m, t) for v, m, t in zip(vals, model, tols))
    marr = [] if parts[2] == "-" else [[int(x) for x in a.split(",")] for a in parts[2].split(";")]
    harr = [[int(c) for c in s_] for s_ in sims]
    if not ok or marr != harr:
        run.mismatch(dict(case, mode="pipe"), dict(entries=[repr(v) for v in vals], simulated=harr),
                     dict(entries=[repr(m) for m in model], simulated=marr))
        return
    for v, m, t in zip(vals, model, tols):
        if t is not None:
            _track("model", v, m)
    if qs is not None and len(vals) > 1:
        k, n = (int(x) for x in parts[1].split("/"))
        obs = vals[0]
        tie = any(t is None or abs(v - obs) <= 1e-9 * max(abs(v), abs(obs)) + 2 * (t + (tols[0] or 0.0)) + 1e-300
                  for v, t in zip(vals[1:], tols[1:])) or tols[0] is None
        if not tie and abs(float(qs) - k / n) > 1e-12:
            run.mismatch(dict(case, mode="pipe-quantile"), float(qs), f"{k}/{n}")


def _flush(run, drv, pending):
    out = drv.run()
    for case, mode, idx, vals, tols in pending:
        if mode == "pipe-exc":
            if out[idx[0]] != vals:
                run.mismatch(dict(case, mode=mode), vals, out[idx[0]])
            continue
        if mode == "pipe":
            _flush_pipe(run, case, out[idx[0]], vals)
            continue
        toks = [t for i in idx for t in out[i].replace(",", " ").split(" ")]
        model = [_unbits(t) if t.isdigit() else None for t in toks]
        ok = len(model) == len(vals) and all(t is None or (m is not None and _close(v, m, t))
                                             for v, m, t in zip(vals, model, tols))
        if not ok:
            run.mismatch(dict(case, mode=mode), [repr(v) for v in vals], [repr(m) for m in model])
        else:
            for v, m, t in zip(vals, model, tols):
                if t is not None:
                    _track("model", v, m)
    run.extra["d17_contribution_of_an_event_in_a_zero_rate_bin"] = _masked_contribution()
    run.extra["max_rel_dev_impl_vs_oracle"] = _DEV["oracle"]
    run.extra["max_rel_dev_impl_vs_lean_float"] = _DEV["model"]
    pending.clear()


# ----------------------------------------------------------------------------- numpy.ma primitives (trusted base, round 4)
_MA_OPS = ("where", "neg", "exp", "rsub", "log", "rmul", "filled0")


def _ma_primitives(run, drv, rng, n):
    """each numpy.ma primitive `binary_joint_log_likelihood_ndarray` goes through (Model/MaskedOps.lean), on its own, against
    numpy.ma itself: data of EVERY slot (masked ones included - `.data` reads them) and mask.  This validates the trusted
    transcription of numpy.ma, not pyCSEP: a disagreement is a harness error (exit 2), never a verdict."""
    asks = []
    for _ in range(n):
        g = numpy.random.default_rng(rng.randrange(2 ** 32))
        k = rng.choice([1, 2, 3, 5, 9])
        pool = [0.0, -0.0, 1.0, 0.5, 1e-9, 1e-17, 2.0 ** -54, 3.0, 10.0, -1.0, -2.5, 700.0, 1e-300, 0.9999999999999999]
        data = numpy.array([rng.choice(pool) if rng.random() < 0.6 else float(10.0 ** g.uniform(-12, 2)) * rng.choice([1, 1, -1])
                            for _ in range(k)])
        mk = rng.choice(["random", "random", "none", "all"])
        mask = numpy.array([rng.random() < 0.4 for _ in range(k)]) if mk == "random" else numpy.full(k, mk == "all")
        y = numpy.array([rng.choice([0.0, 1.0]) for _ in range(k)])
        op = rng.choice(_MA_OPS)
        m = numpy.ma.MaskedArray(data.copy(), mask=mask.copy())
        with numpy.errstate(all="ignore"):
            if op == "where":
                r = numpy.ma.masked_where(data <= 0.0, data)
            elif op == "neg":
                r = -m
            elif op == "exp":
                r = numpy.exp(m)
            elif op == "rsub":
                r = 1.0 - m
            elif op == "log":
                r = numpy.log(m)
            elif op == "rmul":
                r = y * m
            else:
                r = m.filled(0)
        rd = numpy.asarray(numpy.ma.getdata(r), dtype=float)
        rm = numpy.ma.getmaskarray(r) if op != "filled0" else None
        i = drv.ask(f"c16_ma {op} {_lst(data, _bits)} {_lst(mask, lambda b: '1' if b else '0')} "
                    f"{_lst(y, _bits) if op == 'rmul' else '-'}")
        asks.append((i, op, data, mask, y, rd, rm))
    out = drv.run()
    for i, op, data, mask, y, rd, rm in asks:
        parts = out[i].split(" ")
        md = [_unbits(t) for t in parts[0].split(",")]
        mm = [t == "1" for t in parts[1].split(",")] if len(parts) > 1 else None
        ok = len(md) == len(rd) and (rm is None or mm == [bool(b) for b in rm])
        for a, b in zip(md, rd):
            same = (a == b and math.copysign(1.0, a) == math.copysign(1.0, b)) or (math.isnan(a) and math.isnan(b))
            if not same and op in ("exp", "log") and math.isfinite(a) and math.isfinite(b):
                same = abs(a - b) <= 4e-16 * max(abs(a), abs(b))           # libm vs numpy's exp / log: a few ulp
            ok = ok and same
        if not ok:
            raise AssertionError(f"trusted base: numpy.ma primitive {op!r} differs from its model on data={data.tolist()} "
                                 f"mask={mask.tolist()} y={y.tolist()}: numpy {rd.tolist()} {None if rm is None else rm.tolist()} "
                                 f"model {out[i]!r}")
        run.count(f"numpy-ma-primitive-{op}")
    run.extra["numpy_ma_primitives_compared"] = run.extra.get("numpy_ma_primitives_compared", 0) + len(asks)


def _corpus_cases():
    """permanent witnesses: corpus/C16/*.json, each {"kind": "array"|"test", "spec": {...}} (layout of a replay case)"""
    import glob
    import json
    import os
    d = os.path.join(os.path.dirname(os.path.dirname(os.path.abspath(__file__))), "corpus", "C16")
    return [json.load(open(f)) for f in sorted(glob.glob(os.path.join(d, "*.json")))]


def _fixed_array_specs():
    def spec(shape, rates, counts, counts2=None, fl=False, **rep):
        return dict(dict(shape=list(shape), cls="fixed", ckind="fixed", rates=[float(x).hex() for x in rates],
                         counts=list(counts), counts2=list(counts2 or counts), float_counts=fl),
                    **(dict(dict(drivers=2, rn_seed=7), **rep) if rep else {}))
    r43 = [0.011, 0.7, 0.05, 2.5, 0.3, 0.002, 1.1, 0.09, 0.6, 0.004, 3.0, 0.25]
    c43 = [0, 2, 0, 1, 0, 0, 0, 0, 3, 0, 1, 0]
    return [
        # one (space x magnitude) array in several representations: column-major rates with row-major counts, the
        # reverse, slices, and whole-number rates stored as integers / float32, bool and uint8 observations
        spec((4, 3), r43, c43, rlayout="F", clayout="C"),
        spec((4, 3), r43, c43, rlayout="T", clayout="colstep", cdtype="f8"),
        spec((4, 3), r43, c43, rlayout="C", clayout="F", cdtype="?"),
        spec((4, 3), r43, c43, rlayout="rowstep", clayout="window", cdtype="u1"),
        spec((2, 3), [1, 2, 1, 3, 1, 1], [0, 1, 0, 2, 0, 0], rdtype="i8"),
        spec((2, 3), [1, 2, 0, 3, 10, 1], [0, 1, 0, 2, 0, 4], rdtype="i4", rlayout="F", cdtype="i4"),
        spec((5,), [0.5, 0.25, 2.0, 0.0, 8.0], [1, 0, 0, 0, 7], rdtype="f4", rlayout="step", clayout="rev"),
        spec((2, 3), [0.1, 0.2, 0.3, 0.4, 0.5, 0.6], [0, 1, 0, 2, 0, 0], [0, 5, 0, 1, 0, 0]),
        spec((4,), [0.5, 0.0, 0.3, 0.0], [1, 1, 0, 0]),                 # D17 witness: event in a zero-rate bin
        spec((1,), [1e-9], [3]),
        spec((3,), [10.0, 1e-9, 1.0], [0, 0, 0]),
        spec((2, 2), [0.0, 0.0, 0.0, 2.0], [0, 0, 0, 0], fl=True),
    ]


def run(run, rng, tier):
    drv, pending = Driver(), []
    for c in _corpus_cases():
        _KINDS.get(c.get("kind"), _test_case)(run, drv, pending, c["spec"], tag="corpus")
    for spec in _fixed_array_specs():
        _array_case(run, drv, pending, spec, tag="fixed")
    n_arr, n_test = (4400, 1400) if tier == "quick" else (50000, 15000)
    _ma_primitives(run, Driver(), rng, 400 if tier == "quick" else 6000)
    # phase 2 classes first (cheap): sizes, default random path, sessions on shared objects
    for _ in range(2 if tier == "quick" else 12):
        _array_case(run, drv, pending, _gen_big_array_spec(rng), tag="big")
    for _ in range(1 if tier == "quick" else 4):
        _test_case(run, drv, pending, _gen_big_test_spec(rng), tag="big")
    _flush(run, drv, pending)
    drv = Driver()
    for _ in range(120 if tier == "quick" else 2500):
        _default_case(run, drv, pending, _gen_default_spec(rng, tier))
        if len(pending) >= 600:
            _flush(run, drv, pending)
            drv = Driver()
    for _ in range(150 if tier == "quick" else 3000):
        _session_case(run, drv, pending, _gen_session_spec(rng, tier))
        if len(pending) >= 600:
            _flush(run, drv, pending)
            drv = Driver()
    _flush(run, drv, pending)
    drv = Driver()
    for _ in range(n_arr):
        _array_case(run, drv, pending, _gen_array_spec(rng, tier))
        if len(pending) >= 1000:
            _flush(run, drv, pending)
            drv = Driver()
    for _ in range(n_test):
        _test_case(run, drv, pending, _gen_test_spec(rng, tier))
        if len(pending) >= 600:
            _flush(run, drv, pending)
            drv = Driver()
    _flush(run, drv, pending)
    run.assumptions.append("events are generated at interior points of cells / magnitude bins (edge assignment is C01/C02)")
    run.assumptions.append("injected random numbers lie in [0, 1); the rejection sampler used without injection is C06 (D10)")
    from . import c05 as _c05x
    run.extra["copy_forms_unsupported_by_the_tree_under_test"] = sorted(_c05x._COPY_UNSUPPORTED)


def replay(run, payload):
    case = payload["case"]
    drv, pending = Driver(), []
    _KINDS.get(case.get("kind"), _test_case)(run, drv, pending, case["spec"], tag="replay")
    _flush(run, drv, pending)


_KINDS = dict(array=_array_case, test=_test_case, default=_default_case, session=_session_case)
