"""C18 — child process: the result / region round trips of the property, run under ANOTHER process environment (locale, text
encoding) than the harness itself.  Standalone: reads one JSON document from stdin
    {"repo": <tree under test>, "cases": [ {"id": .., "kind": "result"|"eval"|"region", ...}, ... ]}
and prints one JSON document {"encoding": <preferred encoding>, "failures": [{"id", "pair", "detail"}], "done": n} (ASCII).
Only public API of pyCSEP is used; every writer / reader pairing of the library is exercised:
    write_json -> load_evaluation_result | write_json -> load_json(Class) | FileSystem.save -> FileSystem.load(Class)
    FileSystem.save -> load_evaluation_result | FileSystem.save(backup=True) over an existing file -> load | to_dict -> from_dict
"""
import json
import math
import os
import sys
import tempfile
import warnings


def main():
    spec = json.loads(sys.stdin.read())
    sys.path.insert(0, spec["repo"])
    warnings.simplefilter("ignore")
    import locale
    import logging
    logging.disable(logging.CRITICAL)
    import numpy
    import csep
    from csep import models
    from csep.core.repositories import FileSystem
    from csep.core.regions import CartesianGrid2D

    fields = ("test_distribution", "name", "observed_statistic", "quantile", "status", "obs_catalog_repr", "sim_name", "obs_name",
              "min_mw")

    def same(a, b):
        if isinstance(a, numpy.ndarray):
            a = a.tolist()
        if isinstance(b, numpy.ndarray):
            b = b.tolist()
        if isinstance(a, (tuple, list)) and isinstance(b, (tuple, list)):
            return len(a) == len(b) and all(same(x, y) for x, y in zip(a, b))
        if isinstance(a, (float, numpy.floating)) and isinstance(b, (float, numpy.floating)) and math.isnan(a) and math.isnan(b):
            return True
        if isinstance(a, str) or isinstance(b, str):
            return type(a) is type(b) and a == b
        return a == b

    failures = []
    tmp = tempfile.mkdtemp(prefix="c18child")

    def pairs_for(res, cls, path):
        def w_json():
            csep.write_json(res, path)

        def w_fs():
            FileSystem(url=path).save(res.to_dict())

        def w_fs_backup():
            FileSystem(url=path).save({"stale": 1})
            FileSystem(url=path).save(res.to_dict(), backup=True)

        return [("write_json -> load_evaluation_result", w_json, lambda: csep.load_evaluation_result(path)),
                ("write_json -> load_json(Class)", w_json, lambda: csep.load_json(cls, path)),
                ("FileSystem.save -> FileSystem.load(Class)", w_fs, lambda: FileSystem(url=path).load(cls)),
                ("FileSystem.save -> load_evaluation_result", w_fs, lambda: csep.load_evaluation_result(path)),
                ("FileSystem.save(backup=True) -> load_evaluation_result", w_fs_backup, lambda: csep.load_evaluation_result(path)),
                ("to_dict -> from_dict", lambda: None, lambda: cls.from_dict(res.to_dict()))]

    def judge(cid, res, cls):
        want = {f: getattr(res, f) for f in fields}
        path = os.path.join(tmp, "r.json")
        for how, write, load in pairs_for(res, cls, path):
            for stale in os.listdir(tmp):
                os.remove(os.path.join(tmp, stale))
            try:
                write()
                back = load()
            except Exception as e:
                failures.append(dict(id=cid, pair=how, detail=f"{how}: {type(e).__name__}: {e}"[:300]))
                continue
            if type(back).__name__ != cls.__name__:
                failures.append(dict(id=cid, pair=how, detail=f"{how}: class {cls.__name__} loaded as {type(back).__name__}"))
                continue
            for f in fields:
                got = getattr(back, f, None)
                if not same(want[f], got):
                    failures.append(dict(id=cid, pair=how, detail=f"{how}: {cls.__name__}.{f}: wrote {want[f]!r}, loaded {got!r}"[:300]))
                    break

    def num(x):
        return {"nan": math.nan, "inf": math.inf, "-inf": -math.inf}.get(x, x) if isinstance(x, str) else x

    done = 0
    for c in spec["cases"]:
        cid = c["id"]
        try:
            if c["kind"] == "result":
                cls = getattr(models, c["cls"])
                res = cls(test_distribution=[num(x) for x in c["td"]], name=c["name"], observed_statistic=num(c["stat"]),
                          quantile=tuple(num(x) for x in c["quantile"]) if isinstance(c["quantile"], list) else num(c["quantile"]),
                          status=c["status"], obs_catalog_repr=c["repr"], sim_name=c["sim_name"], obs_name=c["obs_name"],
                          min_mw=num(c["min_mw"]))
                judge(cid, res, cls)
            elif c["kind"] == "eval":
                from csep.core.forecasts import GriddedForecast
                from csep.core.catalogs import CSEPCatalog
                from csep.core import poisson_evaluations as poisson
                origins = numpy.array([[0.0, 10.0], [1.0, 10.0], [0.0, 11.0], [1.0, 11.0]])
                mags = numpy.array([5.0, 6.0])
                region = CartesianGrid2D.from_origins(origins, dh=1.0, magnitudes=mags, name=c["region_name"])
                fc = GriddedForecast(data=numpy.array([[0.5, 0.1], [0.3, 0.2], [0.7, 0.1], [0.2, 0.4]]), region=region,
                                     magnitudes=mags, name=c["sim_name"])
                cat = CSEPCatalog(data=[(c["event_id"], 1000, 10.5, 0.5, 1.0, 5.1), ("b", 2000, 11.5, 1.5, 1.0, 6.3)],
                                  name=c["obs_name"], region=region)
                res = poisson.number_test(fc, cat)
                if res.sim_name != c["sim_name"] or res.obs_name != c["obs_name"]:
                    failures.append(dict(id=cid, pair="number_test", detail="number_test does not carry the forecast / catalog names"))
                judge(cid, res, type(res))
            elif c["kind"] == "region":
                lon0, lat0, dh = c["lon0"], c["lat0"], c["dh"]
                origins = numpy.array([[lon0 + dh * i, lat0 + dh * j] for i in range(c["nx"]) for j in range(c["ny"])])
                r = CartesianGrid2D.from_origins(origins, dh=dh, name=c["name"])
                probes = [(x + dh / 2, y + dh / 2) for x, y in origins.tolist()] + [(lon0, lat0), (lon0 - dh, lat0)]

                def loc(reg):
                    out = []
                    for p in probes:
                        try:
                            out.append(int(reg.get_index_of([p[0]], [p[1]])[0]))
                        except ValueError:
                            out.append(None)
                    return out
                a = loc(r)
                path = os.path.join(tmp, "g.json")
                for how, fn in (("write_json -> load_json", lambda: (csep.write_json(r, path), csep.load_json(CartesianGrid2D, path))[1]),
                                ("FileSystem.save -> FileSystem.load", lambda: (FileSystem(url=path).save(r.to_dict()),
                                                                                FileSystem(url=path).load(CartesianGrid2D))[1]),
                                ("to_dict -> from_dict", lambda: CartesianGrid2D.from_dict(r.to_dict()))):
                    try:
                        r2 = fn()
                        if loc(r2) != a:
                            failures.append(dict(id=cid, pair=how, detail=f"region {how}: rebuilt region indexes the probes differently"))
                    except Exception as e:
                        failures.append(dict(id=cid, pair=how, detail=f"region {how}: {type(e).__name__}: {e}"[:300]))
        except Exception as e:       # the case itself could not be built: reported, the parent decides
            failures.append(dict(id=cid, pair="build", detail=f"case could not be built: {type(e).__name__}: {e}"[:300]))
        done += 1
    print(json.dumps(dict(encoding=locale.getpreferredencoding(False), utf8_mode=sys.flags.utf8_mode, failures=failures, done=done)))


if __name__ == "__main__":
    main()
