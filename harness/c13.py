"""C13 — a catalog forecast is a stable, re-iterable collection.

Correspondence of csep.core.forecasts.CatalogForecast (in memory / streamed and cached / re-read on each pass)
with Model/ForecastIter.lean over operation histories + direct oracle against an independent application of the
filters to the generated catalogs.
"""
import contextlib
import glob
import hashlib
import io
import itertools
import json
import os
import shutil
import tempfile
from fractions import Fraction

import numpy

from .core import Driver, VERIF

LEVEL_TEXT = ("Proof by refinement: for every operation history (any length) on every well-formed initial forecast (in-memory "
              "list with or without n_cat, streamed+cached, streamed and re-read) the transcribed state machine of "
              "__next__ / get_event_counts / get_expected_rates / spatial_counts / magnitude_counts / the catalog tests' "
              "use of the forecast yields exactly the outputs of the specification 'the fixed list of once-filtered "
              "catalogs' (induction over the history with an explicit invariant); expected rates are the per-bin totals "
              "over n_cat and are returned identically. Round 4: the alphabet has all six catalog evaluations (one- and "
              "two-pass), streamed forecasts may be constructed with any n_cat, the once-filtered list is derived from "
              "the code-shaped sequence filter(statements) -> apply_mct -> filter_spatial on raw events, an aborted pass "
              "is characterised for every cut. Round 4 (owner): get_expected_rates is modelled WITH the exception of its loop "
              "body (Model/ForecastIterX.lean): no once-filtered event outside the grid => it is the exception-free operation "
              "(so the refinement theorem is about the code exactly there), otherwise it raises at the first offending catalog, "
              "leaves the forecast as that many __next__ calls do, caches nothing, and raises again after the repairing loop "
              "(all sources, any history). The forecast on ROWS (Model/ForecastConcrete.lean): what the harness used to supply per "
              "event (survives-the-filters flag, bin) is computed by C04's model of filter / apply_mct / filter_spatial and an exact "
              "space-magnitude binning; concrete_refines_spec: every history on every source built from rows shows every catalog "
              "filtered exactly once by the code's own filter stage, for every subset of the three stages. Round 5: reads of the "
              "expected-rates object in all argument forms (data, spatial_counts() 1-d, spatial_counts(cartesian=True) 2-d map, "
              "magnitude_counts(), total) are operations of the model (Model/ForecastReads.lean): in any history mixing them with "
              "the eleven operations each read is the corresponding view of the per-bin totals over n_cat, two reads of one kind "
              "agree wherever they stand, the 2-d map shows the 1-d vector's entries. Tied to the code by "
              "exhaustive short histories over all configurations and sampled long ones.")
LEVEL_NOTE = ("an event is abstracted to (survives the filters, bin index); in the c13_runc histories this abstraction is computed by "
              "the Lean model from the rows (statement semantics, completeness cut with the harness-supplied transcendental "
              "decision for rows inside the window, exact half-open cell test, last magnitude edge not above the magnitude; catalogs "
              "sorted in time as apply_mct assumes), elsewhere it is supplied by the harness. After an exception inside a pass the "
              "model follows the code (known finding D27) up to the point where the code caches rates built from an uninitialised "
              "scalar (no catalog left to iterate): such a history ends there. Catalog.filter / filter_spatial / "
              "spatial_magnitude_counts themselves belong to C04/C01/C03; the file decoder to C12; the statistics of the "
              "catalog tests to C10 (here only their use of the forecast and the stability of their results).")
DESIGN_REF = "DESIGN.md §4 C13"
TECHNIQUE = "Lean 4 state-machine model, refinement theorem by induction over histories; differential correspondence + exact oracle"

THEOREMS = ["ForecastIter.refines_spec", "ForecastIter.refines_spec_list", "ForecastIter.refines_spec_stream",
            "ForecastIter.expectedRates_eq_mean", "ForecastIter.expectedRates_stable", "ForecastIter.pass_yields_filtered",
            "ForecastIter.eventCounts_single_pass", "ForecastIter.nCat_correct", "ForecastIter.sources_agree",
            "ForecastIter.pass_spec", "ForecastIter.step_spec", "ForecastIter.finding_aborted_pass_not_restarted",
            "ForecastIter.payload_irrelevant", "ForecastIter.ids_none_all_survive",
            "ForecastIter.carried_filters_still_applied", "ForecastIter.expectedRates_on_forecast_grid",
            # round 4
            "ForecastIter.refines_spec_stream_any_ncat", "ForecastIter.stream_ncat_irrelevant",
            "ForecastIter.two_pass_evaluations_see_one_forecast", "ForecastIter.refines_spec_cfg",
            "ForecastIter.cfg_filters_exactly_once", "ForecastIter.filter_order_irrelevant",
            "ForecastIter.filtered_absCat", "ForecastIter.aborted_pass_characterised",
            "ForecastIter.list_wrong_ncat_always_fails",
            # phase 2
            "ForecastIter.shared_session_refines_spec", "ForecastIter.step_list_fields",
            "ForecastIter.inv_catalogs_replaced",
            # round 4 (owner): the exception inside get_expected_rates (C13_Rates.lean), the forecast on rows (C13_Concrete.lean)
            "ForecastIter.passLoop_acc", "ForecastIter.ratesLoop_of_pass", "ForecastIter.accFold_eq_accumulate",
            "ForecastIter.firstBad_none_iff", "ForecastIter.firstBad_some", "ForecastIter.ratesX_eq_rates",
            "ForecastIter.ratesX_raised_at", "ForecastIter.ratesX_raises_iff", "ForecastIter.ratesX_raises_again",
            "ForecastIter.filters_make_countable",
            "ForecastConcrete.yieldOf_events", "ForecastConcrete.abs_yieldOf", "ForecastConcrete.yieldedOnce_eq_filtered",
            "ForecastConcrete.concrete_refines_spec", "ForecastConcrete.cell_lt_iff", "ForecastConcrete.countable_abs_iff",
            "ForecastConcrete.spatial_on_rejects_only_small_magnitudes", "ForecastConcrete.concrete_rates_raise_iff",
            # round 5 (owner): reads of the expected rates in every argument form (C13_Reads.lean)
            "ForecastIter.stepR_spec", "ForecastIter.reads_refine_spec", "ForecastIter.read_stable",
            "ForecastIter.cartesian_consistent", "ForecastIter.reads_refine_spec_sources"]
TRUSTED = ["Lean 4.33 kernel", "axioms: propext, Classical.choice, Quot.sound at most",
           "Catalog.filter(statements) / filter_spatial(region) keep exactly the satisfying events, in place, and are "
           "idempotent (C04); spatial_magnitude_counts counts every event once in its bin (C03); load_ascii_catalogs "
           "yields the catalogs of the file in order (C12) — each re-checked here by the direct oracle on every pass",
           "c13_runc: region lookup as the exact half-open cell test and magnitude binning as 'last edge not above' (C01/C02/C03 own the "
           "floating-point lookups; generated coordinates and magnitudes keep away from edges); the completeness decision "
           "`mw < mct(t)` of rows inside the window is computed by the harness (transcendental)",
           "harness/c13.py, harness/c13_rates.py generators, file writer and comparison; driver parsing (Proto.lean, Drive/C04.lean)"]
RULE = ("forecasts of 1..6 catalogs (0..4 events each, empty catalogs written as placeholder lines or omitted) on a 2x2 or "
        "3x2 cell x 2 magnitude-bin region; configurations {in-memory list with n_cat, without n_cat, file loader store "
        "on, store off} x {apply_filters on/off} x {filter_spatial on/off}; histories: every sequence of length 4 (all "
        "shorter ones are prefixes) over the five forecast operations, every sequence of length <= 3 containing a catalog "
        "test, sampled sequences up to length 12; after every operation ids/order/events, event counts, n_cat, rates "
        "are compared. Round 2: additionally catalogs from a custom loader function (store on/off) and from a plain "
        "generator object (catalogs=<generator>), each crossed one dimension at a time and in random combination with: "
        "catalog ids {positions, all None, all equal, duplicates, distinct but unordered, the same Python object "
        "repeated}; catalogs already bound to a region other than the forecast's {same cells other magnitude edges "
        "with equal / different shape, same cells in another order, larger lattice, bound by a previous forecast with "
        "another region, unbound from a loader}; catalogs constructed with filters= {the forecast's statements (equal "
        "list / the same list object), other statements}. "
        "Round 4: the operation alphabet also has pseudolikelihood_test, resampled_magnitude_test and "
        "MLL_magnitude_test (seeded; expected rates if absent, then one resp. two passes); streamed sources (file, "
        "custom loader, generator object) constructed with n_cat= smaller / larger than / equal to the number of "
        "catalogs; apply_mct on/off with a mainshock event, events before the mainshock, inside the incompleteness "
        "window (small and large magnitudes) and after the critical time, crossed with the magnitude statement and the "
        "spatial filter (model: raw events with one flag per configured filter, c13_runcfg). "
        "Phase 2: MLL_magnitude_test(full_calculation=True) as operation TLF; evaluations with seed= and with seed=None "
        "under a harness-seeded global stream, verbose on/off; UCERF3-ETAS stochastic event sets written by the harness "
        "(.gz and .bin, file versions 1-3, format native/csep, store on/off); sessions of two forecasts sharing region, "
        "observation, file or the very catalog objects with interleaved operations (model: runShared); catalogs handed "
        "out by earlier passes re-inspected at the end of the history; NaN depths, an event at epoch 0; catalogs with "
        "more than 2^16 events and bins holding more than 65535 events. "
        "Round 4 (owner, harness/c13_rates.py): histories of 2-6 operations over {pass, event counts, expected rates, spatial / "
        "magnitude counts} on 7 sources where 1-3 events lie in no bin of the forecast's grid (outside the region, or magnitude "
        "3.5 below the first edge) and survive or not depending on apply_filters / filter_spatial / the magnitude statement "
        "(c13_runx: a request for the rates must raise exactly when a once-filtered catalog holds such an event, must never "
        "return rates of a part of the events; what follows the exception is compared exactly with the model and reported under "
        "the signature of D27); the same on ROWS with every combination of statement / apply_mct / spatial filter and user n_cat "
        "(c13_runc: the model gets rows, statements, the mainshock quantities, the cells and magnitude edges). "
        "Round 5 (c13_runr): histories of 3-8 steps mixing READS of the expected rates — .data, spatial_counts() / "
        "(cartesian=False) / positional, spatial_counts(cartesian=True) / (True), magnitude_counts(), .sum() / .event_count, each "
        "through the forecast's method or through the object returned by get_expected_rates() — with spatial / pseudolikelihood "
        "/ magnitude / number tests, passes and event counts on 7 sources; both representations of the spatial rates occur in "
        "every history; every returned value (shape, NaN positions, each entry) is compared with the view of the per-bin means "
        "and with the model. "
        "Round 6, riding along with every history class: half of the worlds overwrite in place every array / list a call hands "
        "out (event counts, rates data, spatial / magnitude counts, every read) before the history goes on; catalogs handed over "
        "as list / tuple / generator object / iter(list) / map object; the region given to the constructor or assigned "
        "afterwards; the constructor called by keywords or with all 17 arguments positionally; verbose positionally / by keyword; "
        "a region of 1 080 000 space-magnitude bins (> 2^20) with several events of one catalog in one bin (oracle only). "
        "A history is non-trivial when it has >= 2 operations; distinct by (configuration, variant, catalogs, ops)")

# sub-classes on which the UNCHANGED library does not behave as one would wish and for which a decision is pending:
# the generator leaves them out so that the check stays green (see notes/C13.md, "Observed on unchanged /repo")
AWAITING_DECISION = [
    # a custom loader with store=False that does not bind the region it is handed (catalogs unbound or bound to another
    # region): the catalog spatial / magnitude tests bin the re-created catalogs on THEIR region (IndexError /
    # ValueError / silently other numbers); passes, counts, n_cat and expected rates are right and are checked
    "loader-nostore:region-not-bound-by-loader:catalog-tests",
    # ("apply_mct:empty-catalog-reaches-apply_mct" was repaired in /repo: D37, cafbaf1 — apply_mct on a catalog without
    #  events returns self; empty catalogs now reach apply_mct freely, corpus/C13/d37_apply_mct_empty_catalog.json)
]

OPS = ["P", "E", "R", "S", "M"]
TESTS = ["N", "TS", "TM"]
TESTS4 = ["TP", "TR", "TL", "TLF"]      # round 4 (TLF, phase 2: full_calculation=True): pseudolikelihood (rates + 1 pass), resampled / MLL magnitude test (rates + 2 passes)
ALL_TESTS = TESTS + TESTS4
# round 5: READS of the expected-rates object in all their argument forms (model: Model/ForecastReads.lean, op c13_runr):
#   RD .data, RS spatial_counts() [1-d per cell], RC spatial_counts(cartesian=True) [2-d bounding-box map, NaN where no cell],
#   RM magnitude_counts(), RT .sum() / .event_count; each through the forecast's own method or through the object returned by
#   get_expected_rates(), keyword or positional (the call form of read k of a history is case["read_forms"][k])
READS = ["RD", "RS", "RC", "RM", "RT"]
TEST_SEED = 20240607
# apply_mct: mainshock M8.4 ten days after the first generated event time; an event's time class is
#   0 = before the mainshock (kept), 1 = one hour after it (completeness magnitude 4.89..4.94: only the 5.5 events stay),
#   2 = 400 days later, beyond the critical time of 73.6 days (kept)
MCT_MAIN_MAG = 8.4
MCT_T0 = 1262304000000 + 10 * 86400000
MCT_OFFSETS = [0, 10 * 86400000 + 3600000, 410 * 86400000]
MAG_CUT = 4.5
MAGS = [4.0, 5.0]


# ----------------------------------------------------------------------------- world construction
_REGIONS = {}


def make_region(nx, ny):
    """region + cell origins listed in the region's own index order"""
    from csep.core.regions import CartesianGrid2D
    if (nx, ny) not in _REGIONS:
        o = numpy.array([[0.1 * i, 0.1 * j] for j in range(ny) for i in range(nx)])
        region = CartesianGrid2D.from_origins(o, dh=0.1, magnitudes=numpy.array(MAGS))
        idx = region.get_index_of(o[:, 0] + 0.05, o[:, 1] + 0.05)
        origins = numpy.zeros_like(o)
        for k, i in enumerate(idx):
            origins[int(i)] = o[k]
        _REGIONS[(nx, ny)] = origins
    origins = _REGIONS[(nx, ny)]
    region = CartesianGrid2D.from_origins(origins, dh=0.1, magnitudes=numpy.array(MAGS))
    return region, origins


FOREIGN = {"mags-shift": 1, "mags-3": 2, "perm": 3, "big": 4}
_FOREIGN_REGIONS = {}


def foreign_region(nx, ny, kind):
    """a region that differs from the forecast's: (region, magnitude edges)"""
    from csep.core.regions import CartesianGrid2D
    if (nx, ny, kind) not in _FOREIGN_REGIONS:
        _, origins = make_region(nx, ny)
        if kind == "mags-shift":      # same cells, same number of magnitude bins, other edge
            reg = CartesianGrid2D.from_origins(origins, dh=0.1, magnitudes=numpy.array([4.0, 4.6]))
        elif kind == "mags-3":        # same cells, finer magnitude bins
            reg = CartesianGrid2D.from_origins(origins, dh=0.1, magnitudes=numpy.array([4.0, 4.5, 5.0]))
        elif kind == "perm":          # same cells listed in the opposite order, same magnitudes
            reg = CartesianGrid2D.from_origins(origins[::-1].copy(), dh=0.1, magnitudes=numpy.array(MAGS))
        elif kind == "big":           # a larger lattice
            o = numpy.array([[0.1 * i, 0.1 * j] for j in range(ny + 1) for i in range(nx + 1)])
            reg = CartesianGrid2D.from_origins(o, dh=0.1, magnitudes=numpy.array(MAGS))
        else:
            raise ValueError(kind)
        _FOREIGN_REGIONS[(nx, ny, kind)] = reg
    return _FOREIGN_REGIONS[(nx, ny, kind)]


def region_kind(case):
    """(kind of foreign region or None, bound through another forecast?)"""
    cr = case.get("cat_region")
    if cr in (None, "unbound"):
        return None, False
    if cr.startswith("otherfore:"):
        return cr.split(":", 1)[1], True
    return cr, False


def own_bin(case, ev, origins):
    """flat bin of the event on the grid of the region the catalog is bound to (information for the model only)"""
    kind, _ = region_kind(case)
    cell, mag = ev[0], ev[1]
    if kind is None or cell < 0:
        return bin_of(case, ev)
    reg = foreign_region(case["nx"], case["ny"], kind)
    mags = [float(m) for m in reg.magnitudes]
    sp = int(reg.get_index_of([float(origins[cell][0]) + 0.05], [float(origins[cell][1]) + 0.05])[0])
    mb = max(0, sum(1 for m in mags if mag >= m) - 1)
    return sp * len(mags) + mb


def cat_ids(case):
    """the catalog ids in the order of the pass (None allowed, equal ids allowed)"""
    idl = case.get("idlist")
    return list(idl) if idl is not None else list(range(len(case["cats"])))


def row_ci(case, ci):
    """index used for event ids / times: the same Python object repeated has the same events at every position"""
    return 0 if case.get("sameobj") else ci


def is_variant(case):
    return any(case.get(k) for k in ("cat_region", "cat_filters", "sameobj")) or case.get("idlist") is not None


def event_row(case, ci, ei, ev, origins):
    """(event_id, time_ms, lat, lon, depth, mag) of a generated event"""
    cell, mag = ev[0], ev[1]
    if cell < 0:      # outside the region (only generated when the spatial filter is applied)
        lon, lat = 7.05 + 0.1 * (-cell), -3.05
    else:
        lon, lat = float(origins[cell][0]) + 0.05, float(origins[cell][1]) + 0.05
    t = 1262304000000 + 1000 * (100 * ci + ei) + MCT_OFFSETS[tclass_of(ev)]   # 2010-01-01 + seconds
    depth = 10.0
    if case.get("zero_time") and ci == 0 and ei == 0 and tclass_of(ev) == 0:
        t = 0                     # the instant 1970-01-01T00:00:00 (epoch 0 is falsy)
    if case.get("nan_depth") and ei % 2 == 1:
        depth = float("nan")      # unreported depth
    return (f"c{ci}e{ei}", t, lat, lon, depth, float(mag))


def tclass_of(ev):
    return ev[2] if len(ev) > 2 else 0


def raw_flags(ev):
    """what each configured filter decides about a generated event, independently of the configuration:
    (satisfies 'magnitude >= 4.5', survives apply_mct for the M8.4 mainshock, lies inside the region)"""
    cell, mag = ev[0], ev[1]
    return (mag >= MAG_CUT, not (tclass_of(ev) == 1 and mag < 5.0), cell >= 0)


def keep_of(case, ev):
    pf, pm, ps = raw_flags(ev)
    if not case["apply_filters"]:
        return True
    if case["mag_filter"] and not pf:
        return False
    if case.get("mct") and not pm:
        return False
    if case["filter_spatial"] and not ps:
        return False
    return True


def bin_of(case, ev):
    cell, mag = ev[0], ev[1]
    mb = 0 if mag < 5.0 else 1
    return (max(cell, 0)) * len(MAGS) + mb


def write_csv(path, case, origins):
    from datetime import datetime, timezone
    lines = []
    n = len(case["cats"])
    for ci, evs in enumerate(case["cats"]):
        if not evs:
            # an empty catalog: placeholder line, or omitted (the last one must be present to be known)
            if case["placeholders"][ci] or ci == n - 1:
                lines.append(f",,,,,{ci},")
            continue
        for ei, ev in enumerate(evs):
            eid, t, lat, lon, depth, mag = event_row(case, ci, ei, ev, origins)
            ts = datetime.fromtimestamp(t / 1000, tz=timezone.utc).strftime("%Y-%m-%dT%H:%M:%S.%f")
            lines.append(f"{lon!r},{lat!r},{mag!r},{ts},{depth!r},{ci},{eid}")
    with open(path, "w") as f:
        f.write("\n".join(lines) + "\n")


_USER = {}


def UserCatalog():
    """a user's catalog class (the repo's own tests use such mock catalogs): filter / filter_spatial / apply_mct hand back a NEW
    catalog and leave the object itself alone; it has a length. CatalogForecast.__next__ uses what the calls return."""
    if "cls" not in _USER:
        from csep.core.catalogs import CSEPCatalog

        class UserCatalog(CSEPCatalog):
            def __len__(self):
                return self.event_count

            def filter(self, statements=None, in_place=True):
                return super().filter(statements, in_place=False)

            def filter_spatial(self, region=None, update_stats=False, in_place=True):
                return super().filter_spatial(region, update_stats=update_stats, in_place=False)

            def apply_mct(self, m_main, event_epoch, mc=2.5):
                import copy
                return CSEPCatalog.apply_mct(copy.deepcopy(self), m_main, event_epoch, mc)
        _USER["cls"] = UserCatalog
    return _USER["cls"]


def make_catalogs(case, origins, bound_region, filters):
    """the in-memory catalogs of a case (list / custom loader / generator sources) as the user would hand them over"""
    from csep.core.catalogs import CSEPCatalog
    ids = cat_ids(case)
    kw = {}
    cf = case.get("cat_filters")
    if cf == "same":                 # an equal list of statements; the constructor only stores it
        kw["filters"] = list(filters)
    elif cf == "same-object":        # the very list that is also given to the forecast
        kw["filters"] = filters
    elif cf == "other":
        kw["filters"] = ["magnitude >= 4.0"]
    if bound_region is not None:
        kw["region"] = bound_region

    # the user subclass is used where the unchanged tree supports it: histories of passes / counts / rates / reads on catalogs that
    # are not bound to a foreign region. (The catalog tests bin the catalogs of their own pass on the catalogs' region, which only the
    # in-place `cat.region = self.region` of get_expected_rates sets on stored objects: AWAITING_DECISION class, left out.)
    use_sub = bool(case.get("user_subclass")) and not case.get("cat_region") and not any(o in ALL_TESTS for o in case.get("ops", []))
    cls = UserCatalog() if use_sub else CSEPCatalog
    if use_sub and "region" not in kw:
        # catalogs whose filters hand back NEW objects never get the forecast's region assigned in place by get_expected_rates:
        # their owner binds the region himself (an unbound catalog in a catalog test is the AWAITING_DECISION class)
        kw["region"] = make_region(case["nx"], case["ny"])[0]

    def one(ci):
        r = row_ci(case, ci)
        return cls(data=[event_row(case, r, ei, ev, origins) for ei, ev in enumerate(case["cats"][ci])],
                   catalog_id=ids[ci], **kw)
    if case.get("sameobj"):
        c = one(0)
        return [c] * len(case["cats"])
    return [one(ci) for ci in range(len(case["cats"]))]


def write_u3(path, case, origins):
    """a UCERF3-ETAS stochastic event set (merged binary format, file version 1..3, plain or gzip-compressed)"""
    import gzip
    version = int(case.get("u3_version", 1))
    # the UCERF3-ETAS binary layout is an external file format: written from its specification here, NOT through private helpers
    # of the class under test (UCERF3Catalog._get_catalog_dtype / _get_header_dtype may be renamed at will)
    ev_fields = [("rupture_id", ">i4"), ("parent_id", ">i4"), ("generation", ">i2"), ("origin_time", ">i8"), ("latitude", ">f8"),
                 ("longitude", ">f8"), ("depth", ">f8"), ("magnitude", ">f8"), ("dist_to_parent", ">f8"), ("erf_index", ">i4"),
                 ("fss_index", ">i4"), ("grid_node_index", ">i4")] + ([("etas_k", ">f8")] if version >= 2 else [])
    hd_fields = [("catalog_size", ">i4")] if version <= 2 else [
        ("num_orignal_ruptures", ">i4"), ("seed", ">i8"), ("index", ">i4"), ("hist_rupt_start_id", ">i4"), ("hist_rupt_end_id", ">i4"),
        ("trig_rupt_start_id", ">i4"), ("trig_rupt_end_id", ">i4"), ("sim_start_epoch", ">i8"), ("sim_end_epoch", ">i8"),
        ("num_spont", ">i4"), ("num_supraseis", ">i4"), ("min_mag", ">f8"), ("max_mag", ">f8"), ("catalog_size", ">i4")]
    evd, hd = numpy.dtype(ev_fields), numpy.dtype(hd_fields)
    opener = gzip.open if path.endswith(".gz") else open
    with opener(path, "wb") as f:
        f.write(numpy.array([len(case["cats"])], dtype=">i4").tobytes())
        for ci, evs in enumerate(case["cats"]):
            f.write(numpy.array([version], dtype=">i2").tobytes())
            h = numpy.zeros(1, dtype=hd)
            h["catalog_size"] = len(evs)
            f.write(h.tobytes())
            a = numpy.zeros(len(evs), dtype=evd)
            for ei, ev in enumerate(evs):
                _eid, t, lat, lon, depth, mag = event_row(case, ci, ei, ev, origins)
                a[ei]["rupture_id"], a[ei]["parent_id"], a[ei]["generation"] = 100 * ci + ei, -1, ei % 3
                a[ei]["origin_time"], a[ei]["latitude"], a[ei]["longitude"] = t, lat, lon
                a[ei]["depth"], a[ei]["magnitude"] = depth, mag
            f.write(a.tobytes())


U3_SOURCES = ["u3gz-store", "u3gz-nostore", "u3bin-store", "u3bin-nostore"]


def build_forecast(case, tmpdir, region=None, cats=None):
    """the forecast under test + the generation table {event_id: (keep, bin, row)}; `region`: a region object shared
    with other forecasts of a session"""
    from csep import load_catalog_forecast
    from csep.core.forecasts import CatalogForecast as _CF
    region0, origins = make_region(case["nx"], case["ny"])
    region = region if region is not None else region0
    filters = [f"magnitude >= {MAG_CUT}"] if case["mag_filter"] else []
    table = {}
    for ci, evs in enumerate(case["cats"]):
        for ei, ev in enumerate(evs):
            row = event_row(case, row_ci(case, ci), ei, ev, origins)
            # last entry: the `keep` flag as the model carries it (round 4: the conjunction of the configured predicates,
            # a property of the event whether or not apply_filters is on)
            shown = keep_of(dict(case, apply_filters=True), ev) if case.get("round4") else keep_of(case, ev)
            table[row[0]] = (keep_of(case, ev), bin_of(case, ev), row, shown)
    table["@by_time"] = {v[2][1]: k for k, v in table.items()}
    kw = dict(region=region, filters=filters, filter_spatial=case["filter_spatial"], apply_filters=case["apply_filters"],
              name="f")
    if case.get("mct"):
        import datetime
        from csep.models import Event
        kw["apply_mct"] = True
        kw["event"] = Event(id="mainshock", magnitude=MCT_MAIN_MAG, latitude=0.05, longitude=0.05,
                            time=datetime.datetime.fromtimestamp(MCT_T0 / 1000, tz=datetime.timezone.utc))
    if case.get("ncat_given") is not None and case["source"] not in ("list", "list-ncat"):
        kw["n_cat"] = case["ncat_given"]     # a streamed forecast: the user's number, right or wrong
    kind, via_other = region_kind(case)
    foreign = foreign_region(case["nx"], case["ny"], kind) if kind else None
    src = case["source"]
    later = bool(case.get("region_later")) and src in ("list", "list-ncat", "gen-store")

    def CatalogForecast(catalogs=None, loader=None, filename=None, store=True, **k):          # noqa: shadows the class on purpose
        """the constructor in the call form of the case: keywords, or EVERY argument positionally in the pinned signature order
        (filename, catalogs, name, filter_spatial, filters, apply_mct, region, expected_rates, start_time, end_time, n_cat, event,
        loader, catalog_type, catalog_format, store, apply_filters); with region_later the region is assigned after construction"""
        from csep.core.forecasts import CatalogForecast as CF
        reg = k.get("region")
        if later:
            k = dict(k, region=None)
        if case.get("ctor_positional"):
            f = CF(filename, catalogs, k.get("name"), k.get("filter_spatial", False), k.get("filters"), k.get("apply_mct", False),
                   k.get("region"), None, None, None, k.get("n_cat"), k.get("event"), loader, "ascii", "native", store,
                   k.get("apply_filters", False))
        else:
            f = CF(catalogs=catalogs, loader=loader, filename=filename, store=store, **k)
        if later:
            if case.get("reject_first"):
                # (i) STATE AFTER A CAUGHT EXCEPTION: without a region the rates cannot be computed — the unchanged code rejects the
                # request before it touches the catalogs; the caller catches the exception, assigns the region and goes on
                try:
                    f.get_expected_rates()
                except Exception:
                    pass
            f.region = reg
        return f
    if src in ("list", "list-ncat"):
        if via_other:
            # the catalogs went through another forecast (other region) before: its get_expected_rates bound them
            cats = make_catalogs(case, origins, None, filters)
            _CF(catalogs=cats, region=foreign, name="other").get_expected_rates()
        elif cats is None:
            cats = make_catalogs(case, origins, foreign, filters)
        table["@cats"] = cats
        if src == "list-ncat":
            kw["n_cat"] = case.get("ncat_wrong", len(cats))
        fore = CatalogForecast(catalogs=tuple(cats) if case.get("entry") == "tuple" else cats, **kw)
    elif src in ("loader-store", "loader-nostore", "gen-store"):
        unbound = case.get("cat_region") == "unbound"

        def loader(format=None, filename=None, region=None, name=None):
            # a user-written loader: a generator function; binds the region it is handed unless the case says otherwise
            for c in make_catalogs(case, origins, foreign if foreign is not None else (None if unbound else region),
                                   filters):
                yield c
        if src == "gen-store":
            stream = loader(region=region)
            if case.get("entry") == "iter":
                stream = iter(list(stream))
            elif case.get("entry") == "map":
                stream = map(lambda c: c, list(stream))
            fore = CatalogForecast(catalogs=stream, **kw)
        else:
            fore = CatalogForecast(loader=loader, filename="in-memory simulation", store=(src == "loader-store"), **kw)
    elif src in U3_SOURCES:
        key = json.dumps([case["cats"], case["nx"], case["ny"], case.get("u3_version", 1), case.get("nan_depth"),
                          case.get("zero_time")])
        ext = "gz" if src.startswith("u3gz") else "bin"
        path = os.path.join(tmpdir, f"u3_{hashlib.sha1(key.encode()).hexdigest()}.{ext}")
        if not os.path.exists(path):
            write_u3(path, case, origins)
        fore = load_catalog_forecast(path, type="ucerf3", format=case.get("u3_format", "native"),
                                     store=src.endswith("-store"), **kw)
    else:
        key = json.dumps([case["cats"], case["placeholders"], case["nx"], case["ny"], case.get("nan_depth"),
                          case.get("zero_time")])
        path = os.path.join(tmpdir, f"fore_{hashlib.sha1(key.encode()).hexdigest()}.csv")
        if not os.path.exists(path):
            write_csv(path, case, origins)
        fore = load_catalog_forecast(path, store=(case["source"] == "file-store"), **kw)
    return fore, table, region, origins


def reference(case):
    """the specification: per catalog the generated events that survive one application of the filters"""
    out = []
    for ci, evs in enumerate(case["cats"]):
        out.append([(f"c{row_ci(case, ci)}e{ei}", ev) for ei, ev in enumerate(evs) if keep_of(case, ev)])
    return out


def ref_totals(case, ref):
    nb = case["nx"] * case["ny"] * len(MAGS)
    tot = [0] * nb
    for cat in ref:
        for _, ev in cat:
            tot[bin_of(case, ev)] += 1
    return tot


def make_obs(case, region, origins):
    from csep.core.catalogs import CSEPCatalog
    rows = [("o0", 1262304000000, float(origins[0][1]) + 0.05, float(origins[0][0]) + 0.05, 10.0, 4.7),
            ("o1", 1262304001000, float(origins[1][1]) + 0.05, float(origins[1][0]) + 0.05, 10.0, 5.5)]
    return CSEPCatalog(data=rows, region=region, name="obs")


# ----------------------------------------------------------------------------- one history
def canon_cat(cat, table):
    """the generated event ids of a yielded catalog, in order. Catalog classes without an id column (UCERF3) are read
    through their origin times, which are unique per generated event; an event that was never generated shows up as
    `?<time>`"""
    data = cat.catalog
    names = data.dtype.names or ()
    if "id" in names and not table.get("@by_time_only"):
        return [e.decode() if isinstance(e, bytes) else str(e) for e in cat.get_event_ids()]
    by_time = table["@by_time"]
    return [by_time.get(int(t), f"?{int(t)}") for t in cat.get_epoch_times()]


def same_float(a, b):
    a, b = float(a), float(b)
    return a == b or (a != a and b != b)


class Hist:
    """one forecast under test + everything the oracle remembers about it; `step` executes one operation"""

    def __init__(self, run, case, tmpdir, region=None, obs=None, label="", cats=None):
        self.run, self.case, self.tmpdir, self.label = run, case, tmpdir, label
        self.fore, self.table, self.region, self.origins = build_forecast(case, tmpdir, region=region, cats=cats)
        self.ref = reference(case)
        self.n = len(self.ref)
        self.exp_ids = cat_ids(case)
        self.ref_ids = [[eid for eid, _ in cat] for cat in self.ref]
        self.ref_counts = [len(c) for c in self.ref]
        self.tot = ref_totals(case, self.ref)
        self.outs, self.fails = [], []
        self.first_rates, self.first_rates_vals = None, None
        self.obs = obs
        self.ref_results = {}
        self.handed_out = []          # (catalog object, event ids when it was yielded, op index)
        self.verbose = bool(case.get("verbose"))

    def fail(self, msg):
        self.fails.append(self.label + msg)

    def replace_by_image(self, form, k):
        """(h) COPIES BEFORE USE: the forecast is replaced by an image of itself; what the history shows from here on must be what
        the original would have shown. A form the tree cannot produce for the present state of the object (a live generator cannot be
        deep-copied or pickled) is skipped and counted."""
        import copy
        import pickle
        try:
            if form == "copy":
                img = copy.copy(self.fore)
            elif form == "deepcopy":
                img = copy.deepcopy(self.fore)
            else:
                img = pickle.loads(pickle.dumps(self.fore))
        except Exception as e:
            self.run.count(f"image:{form} not available for this state ({type(e).__name__})")
            return
        self.fore = img
        if form != "copy":
            self.first_rates = None          # the image has its own expected-rates object (its values are still compared)
        self.run.count(f"image:forecast replaced by its {form} image before op")

    def scribble(self, ret):
        """ALIASING OF RETURNED OBJECTS: what a call hands out belongs to the caller. Overwrite it in place (sorted, zeroed, a
        constant) — if the forecast kept a reference to the same memory, the next request / evaluation shows it"""
        if not self.case.get("scribble"):
            return
        try:
            if isinstance(ret, numpy.ndarray):
                if ret.ndim == 0:
                    return
                flat = ret.reshape(-1)
                if flat.size and numpy.shares_memory(flat, ret):
                    flat.sort()
                    flat[...] = -7
                else:
                    ret[...] = -7
                self.run.count("scribbled:ndarray")
            elif isinstance(ret, list):
                ret[:] = [-7] * (len(ret) + 1)
                self.run.count("scribbled:list")
        except (ValueError, TypeError):
            self.run.count("scribble:read-only result")      # a read-only array cannot be corrupted by the caller: fine

    def layout(self):
        """([cell index or None for every position of the flattened bounding-box map], shape of the map): the region's own
        geometry (C01's subject), taken from region.get_cartesian on the cell numbers"""
        if getattr(self, "_layout", None) is None:
            ncell = len(self.tot) // len(MAGS)
            m = numpy.asarray(self.region.get_cartesian(numpy.arange(ncell, dtype=float)), dtype=float)
            self._layout = ([None if numpy.isnan(v) else int(v) for v in m.ravel()], tuple(m.shape))
        return self._layout

    def ncat_tok(self):
        try:
            v = self.fore.n_cat
            return "none" if v is None else str(int(v))
        except Exception as e:                      # noqa: a deviating type of n_cat is an output, not a crash
            return f"bad-n_cat:{type(e).__name__}"

    def check_rates_matrix(self, arr, k):
        n, tot = self.n, self.tot
        arr = numpy.asarray(arr, dtype=float).ravel()
        ks = []
        for j, v in enumerate(arr):
            kk = int(round(float(v) * n)) if numpy.isfinite(v) else -1
            ks.append(kk)
            # "equal the per-cell mean": to rounding (a mean accumulated in another order may differ in the last bits)
            if not abs(float(v) - kk / n) <= 1e-12 * max(1.0, kk / n):
                self.fail(f"op {k}: expected rate {float(v)!r} in bin {j} is not a mean k/{n}")
        if ks != tot:
            self.fail(f"op {k}: expected-rate totals {ks} differ from the per-bin totals of the filtered catalogs {tot}")
        return ks

    def check_marginal(self, arr, expect, k, what):
        n = self.n
        arr = numpy.asarray(arr, dtype=float).ravel()
        ks = [int(round(float(v) * n)) if numpy.isfinite(v) else -1 for v in arr]
        if len(arr) != len(expect) or any(not abs(float(v) - e / n) <= 1e-12 for v, e in zip(arr, expect)):
            self.fail(f"op {k}: {what} {list(map(float, arr))} differ from {expect}/{n}")
        return ks

    def check_pass(self, cats, k):
        table = self.table
        got_ids = [int(c.catalog_id) if c.catalog_id is not None else None for c in cats]
        got_ev = [canon_cat(c, table) for c in cats]
        if got_ids != self.exp_ids:
            self.fail(f"op {k}: pass yields {len(got_ids)} catalogs with ids {got_ids}, the forecast has "
                      f"{self.n} catalogs with ids {self.exp_ids}")
        if got_ev != self.ref_ids:
            self.fail(f"op {k}: pass yields events {got_ev}, the once-filtered catalogs are {self.ref_ids}")
        for c, evs in zip(cats, got_ev):   # event tuples untouched
            data = c.catalog
            for eid, row in zip(evs, data):
                g = table.get(eid)
                if g is None or int(row["origin_time"]) != g[2][1] or not (
                        same_float(row["latitude"], g[2][2]) and same_float(row["longitude"], g[2][3])
                        and same_float(row["depth"], g[2][4]) and same_float(row["magnitude"], g[2][5])):
                    self.fail(f"op {k}: event {eid} was altered")
            self.handed_out.append((c, list(evs), k))
        return got_ids, got_ev

    def step(self, k, op):
        """execute operation `op` (index k of this forecast's history); False = the history ends here"""
        from csep.core import catalog_evaluations as ce
        fore, table, case, run = self.fore, self.table, self.case, self.run
        n, tot, nm = self.n, self.tot, len(MAGS)
        nb = len(tot)
        outs = self.outs
        try:
            if op == "P":
                cats = [c for c in fore]
                got_ids, got_ev = self.check_pass(cats, k)
                outs.append("c" + (";".join(
                    f"{'none' if i is None else i}=" + (",".join(
                        (f"{1 if table[e][3] else 0}:{table[e][1]}" if e in table else "?") for e in evs) if evs else "-")
                    for i, evs in zip(got_ids, got_ev)) if cats else "-"))
            elif op in ALL_TESTS:
                if self.obs is None:
                    self.obs = make_obs(case, self.region, self.origins)
                fn, fkw = test_fn(ce, op, case)
                try:
                    with contextlib.redirect_stdout(io.StringIO()), numpy.errstate(all="ignore"):
                        pre_seed(case)
                        res = fn(fore, self.obs, verbose=self.verbose, **fkw)
                    key = result_key(res)
                except Exception as e:
                    if op not in TESTS4:
                        raise
                    # the evaluation itself rejects the forecast (e.g. no event at all: NaN probabilities). That is
                    # C10's business as long as a fresh forecast of the once-filtered catalogs is rejected alike;
                    # the history ends here (the evaluation left its pass unfinished: known finding D27)
                    key = ("exc", type(e).__name__)
                if op not in self.ref_results:
                    self.ref_results[op] = reference_result(case, op, self.tmpdir)
                if not same_result(key, self.ref_results[op]):
                    self.fail(f"op {k}: {fn.__name__}{fkw or ''} on the used forecast gives {key}, on a fresh forecast of the "
                              f"once-filtered catalogs {self.ref_results[op]}")
                if key[0] == "exc":
                    run.count("evaluation rejects the forecast (fresh forecast alike)")
                    outs.append(f"x@{self.ncat_tok()}")
                    return False
                outs.append("t")
            elif op == "E":
                with contextlib.redirect_stdout(io.StringIO()):
                    ret = fore.get_event_counts(self.verbose) if k % 2 else fore.get_event_counts(verbose=self.verbose)
                    ec = [int(v) for v in numpy.asarray(ret).ravel()]
                self.scribble(ret)
                if ec != self.ref_counts:
                    self.fail(f"op {k}: get_event_counts {ec}, a single pass has {self.ref_counts}")
                outs.append("n" + (",".join(map(str, ec)) if ec else "-"))
            elif op == "R":
                with contextlib.redirect_stdout(io.StringIO()):
                    er = fore.get_expected_rates(self.verbose) if k % 2 else fore.get_expected_rates(verbose=self.verbose)
                dat = er.data
                ks = self.check_rates_matrix(dat, k)
                self.scribble(dat)
                if self.first_rates is None:
                    self.first_rates, self.first_rates_vals = er, numpy.array(er.data, dtype=float).copy()
                else:
                    if er is not self.first_rates:
                        run.count("expected-rates-new-object")
                    if not numpy.array_equal(numpy.asarray(er.data, dtype=float), self.first_rates_vals):
                        self.fail(f"op {k}: get_expected_rates returned different values than on the first request")
                outs.append("r" + ",".join(map(str, ks)) + f"/{self.ncat_tok()}")
            elif op == "S":
                sc = fore.spatial_counts()
                exp = [sum(tot[s * nm:(s + 1) * nm]) for s in range(nb // nm)]
                ks = self.check_marginal(sc, exp, k, "spatial_counts")
                outs.append("r" + ",".join(map(str, ks)) + f"/{self.ncat_tok()}")
                self.scribble(sc)
            elif op == "M":
                mc = fore.magnitude_counts()
                exp = [sum(tot[m::nm]) for m in range(nm)]
                ks = self.check_marginal(mc, exp, k, "magnitude_counts")
                outs.append("r" + ",".join(map(str, ks)) + f"/{self.ncat_tok()}")
                self.scribble(mc)
            elif op in READS:
                form = int((case.get("read_forms") or {}).get(str(k), 0))
                sp_exp = [sum(tot[s * nm:(s + 1) * nm]) for s in range(nb // nm)]
                lay = self.layout()
                if op == "RD":
                    val = [lambda: fore.get_expected_rates().data, lambda: (fore.get_expected_rates(), fore.expected_rates.data)[1]][form % 2]()
                    exp, shape = list(tot), (nb // nm, nm)
                elif op == "RS":
                    val = [lambda: fore.spatial_counts(), lambda: fore.spatial_counts(cartesian=False),
                           lambda: fore.get_expected_rates().spatial_counts(), lambda: fore.get_expected_rates().spatial_counts(False)][form % 4]()
                    exp, shape = sp_exp, (nb // nm,)
                elif op == "RC":
                    val = [lambda: fore.spatial_counts(cartesian=True), lambda: fore.spatial_counts(True),
                           lambda: fore.get_expected_rates().spatial_counts(cartesian=True)][form % 3]()
                    exp, shape = [None if c is None else sp_exp[c] for c in lay[0]], lay[1]
                elif op == "RM":
                    val = [lambda: fore.magnitude_counts(), lambda: fore.get_expected_rates().magnitude_counts()][form % 2]()
                    exp, shape = [sum(tot[m::nm]) for m in range(nm)], (nm,)
                else:
                    val = [lambda: fore.get_expected_rates().sum(), lambda: fore.get_expected_rates().event_count][form % 2]()
                    exp, shape = [sum(tot)], ()
                arr = numpy.asarray(val, dtype=float)
                if tuple(arr.shape) != tuple(shape):
                    self.fail(f"op {k} ({op}, call form {form}): the value has shape {tuple(arr.shape)}, this read of the expected "
                              f"rates has shape {tuple(shape)}")
                flat = arr.ravel()
                toks = []
                for j, v in enumerate(flat):
                    e = exp[j] if j < len(exp) else None
                    if numpy.isnan(v):
                        toks.append("x")
                        if e is not None and len(flat) == len(exp):
                            self.fail(f"op {k} ({op}): NaN at position {j}, expected {e}/{n}")
                    else:
                        kk = int(round(float(v) * n)) if numpy.isfinite(v) else -1
                        toks.append(str(kk))
                        if len(flat) == len(exp) and (e is None or not abs(float(v) - e / n) <= 1e-12 * max(1.0, e / n)):
                            self.fail(f"op {k} ({op}, call form {form}): value {float(v)!r} at position {j}, the "
                                      f"{'map has no cell there' if e is None else f'per-bin mean is {e}/{n}'}")
                run.count(f"read:{op}:form{form % 4}")
                outs.append("v" + (",".join(toks) if toks else "-") + f"/{self.ncat_tok()}")
                self.scribble(val)
            else:
                raise ValueError(f"unknown operation {op}")
            if op != "P" and op != "E" and op != "N" and self.first_rates is None and fore.expected_rates is not None:
                self.first_rates = fore.expected_rates
                self.first_rates_vals = numpy.array(self.first_rates.data, dtype=float).copy()
                self.check_rates_matrix(self.first_rates.data, k)
            if self.first_rates is not None and fore.expected_rates is not None and not numpy.array_equal(
                    numpy.asarray(fore.expected_rates.data, dtype=float), self.first_rates_vals):
                self.fail(f"op {k}: the cached expected rates changed")
        except Exception as e:
            self.fail(f"op {k} ({op}) raised {type(e).__name__}: {e}")
            outs.append("e")
            outs[-1] += f"@{self.ncat_tok()}"
            return False
        if self.ncat_tok() != str(n):
            self.fail(f"op {k}: n_cat is {self.ncat_tok()}, the forecast has {n} catalogs")
        outs[-1] += f"@{self.ncat_tok()}"
        return True

    def finish(self):
        """catalogs handed out earlier still hold the events they held when they were yielded (a cache or a loader must
        not hand out views of a buffer it re-uses); the observation and the region are as they were"""
        for c, evs, k in self.handed_out:
            try:
                now = canon_cat(c, self.table)
            except Exception as e:
                now = f"{type(e).__name__}: {e}"
            if now != evs:
                self.fail(f"the catalog yielded by op {k} held events {evs}; at the end of the history the same object "
                          f"holds {now}")
                break
        try:
            mags = [float(m) for m in self.region.magnitudes]
        except Exception as e:
            mags = f"{type(e).__name__}"
        if mags != [float(m) for m in MAGS]:
            self.fail(f"the forecast's region has magnitude bins {mags} at the end of the history, {MAGS} at the start")
        if self.obs is not None:
            try:
                oid = [e.decode() for e in self.obs.get_event_ids()]
            except Exception as e:
                oid = f"{type(e).__name__}"
            if oid != ["o0", "o1"]:
                self.fail(f"the observed catalog handed to the evaluations now holds {oid}")


def run_history(run, case, tmpdir):
    """execute the operations on the real forecast; returns list of canonical outputs and the oracle's complaints"""
    h = Hist(run, case, tmpdir)
    plan = case.get("copy_plan")
    for k, op in enumerate(case["ops"]):
        if plan:
            import random as _random
            r = _random.Random(plan["seed"] + 7919 * k)
            if r.random() < plan["p"]:
                h.replace_by_image(r.choice(["copy", "deepcopy", "pickle"]), k)
        if case.get("numstate") and op not in ALL_TESTS:
            import decimal as _decimal
            with numpy.errstate(divide="raise", invalid="raise", over="raise"), _decimal.localcontext() as ctx:
                ctx.prec = 3
                ok = h.step(k, op)
            run.count("numeric-state:errstate-raise+decimal-prec-3")
        else:
            ok = h.step(k, op)
        if not ok:
            break
    h.finish()
    return h.outs, h.fails


def pre_seed(case):
    """seed_mode 'global': the evaluation gets seed=None and draws from numpy's global stream, seeded here"""
    if case.get("seed_mode") == "global":
        numpy.random.seed(TEST_SEED)


def test_fn(ce, op, case=None):
    """the catalog evaluation behind an operation letter + its extra keyword arguments (TLF = the MLL test with
    full_calculation=True; the seed is passed as argument or, seed_mode 'global', left to numpy's global stream)"""
    fn = dict(N=ce.number_test, TS=ce.spatial_test, TM=ce.magnitude_test, TP=ce.pseudolikelihood_test,
              TR=ce.resampled_magnitude_test, TL=ce.MLL_magnitude_test, TLF=ce.MLL_magnitude_test)[op]
    kw = {}
    if op in ("TR", "TL", "TLF"):
        kw["seed"] = None if (case or {}).get("seed_mode") == "global" else TEST_SEED
    if op == "TLF":
        kw["full_calculation"] = True
    return fn, kw


def result_key(res):
    if res is None:                 # an evaluation may decline (e.g. pseudolikelihood on an undersampled forecast)
        return ((), None, (), "declined")
    return (tuple(float(v) for v in numpy.asarray(res.test_distribution, dtype=float).ravel()), res.observed_statistic,
            tuple(res.quantile), res.status)


def reference_result(case, op, tmpdir):
    """the same catalog test on a fresh in-memory forecast built from the once-filtered catalogs"""
    from csep.core import catalog_evaluations as ce
    from csep.core.catalogs import CSEPCatalog
    from csep.core.forecasts import CatalogForecast
    region, origins = make_region(case["nx"], case["ny"])
    cats = []
    for ci, evs in enumerate(case["cats"]):
        rows = [event_row(case, ci, ei, ev, origins) for ei, ev in enumerate(evs) if keep_of(case, ev)]
        cats.append(CSEPCatalog(data=rows, catalog_id=ci, region=region))
    fore = CatalogForecast(catalogs=cats, region=region, n_cat=len(cats), name="ref")
    obs = make_obs(case, region, origins)
    fn, fkw = test_fn(ce, op, case)
    try:
        with contextlib.redirect_stdout(io.StringIO()), numpy.errstate(all="ignore"):
            pre_seed(case)
            res = fn(fore, obs, verbose=False, **fkw)
    except Exception as e:
        return ("exc", type(e).__name__)
    return result_key(res)


def same_result(a, b):
    if a[0] == "exc" or b[0] == "exc":
        return a == b
    def close(x, y):
        if x is None or y is None:
            return x is y
        x, y = float(x), float(y)
        return x == y or abs(x - y) <= 1e-9 * max(1.0, abs(x), abs(y)) or (x != x and y != y)
    return (len(a[0]) == len(b[0]) and all(close(x, y) for x, y in zip(a[0], b[0])) and close(a[1], b[1])
            and len(a[2]) == len(b[2]) and all(close(x, y) for x, y in zip(a[2], b[2])) and a[3] == b[3])


def stream_arg(case):
    """(kind, a) of the initial state for the driver"""
    if case["source"] == "list":
        return "list", "none"
    if case["source"] == "list-ncat":
        return "list", str(len(case["cats"]))
    store = "1" if case["source"] in ("file-store", "loader-store", "gen-store", "u3gz-store", "u3bin-store") else "0"
    if case.get("ncat_given") is not None:
        return "streamn", f"{store}:{case['ncat_given']}"
    return "stream", store


def model_line4(case):
    """round 4: raw events `<pf><pm><ps>:bin[:own]` + the filter configuration; the model applies the three filters"""
    _, origins = make_region(case["nx"], case["ny"])

    def rev(ev, own):
        pf, pm, ps = raw_flags(ev)
        return f"{int(pf)}{int(pm)}{int(ps)}:{bin_of(case, ev)}" + (f":{own_bin(case, ev, origins)}" if own else "")
    if is_variant(case):
        kind, _ = region_kind(case)
        grid = FOREIGN[kind] if kind else 0
        carries = 1 if case.get("cat_filters") in ("same", "same-object") else 0
        cats = ";".join(f"{'none' if i is None else i}.{grid}.{carries}=" +
                        (",".join(rev(ev, True) for ev in evs) if evs else "-")
                        for i, evs in zip(cat_ids(case), case["cats"]))
    else:
        cats = ";".join((",".join(rev(ev, False) for ev in evs) if evs else "-") for evs in case["cats"])
    nb = case["nx"] * case["ny"] * len(MAGS)
    kind, a = stream_arg(case)
    cfg = f"{int(bool(case['mag_filter']))}{int(bool(case.get('mct')))}{int(bool(case['filter_spatial']))}"
    return (f"c13_runcfg {kind} {a} {1 if case['apply_filters'] else 0} {cfg} {nb} {len(MAGS)} {cats} "
            f"{','.join(case['ops'])}")


def model_line(case):
    if case.get("reads"):
        parts = model_line(dict(case, reads=False)).split(" ")
        assert parts[0] == "c13_run" and len(parts) == 8
        return " ".join(["c13_runr"] + parts[1:7] + [case["layout"]] + parts[7:])
    if case.get("round4"):
        return model_line4(case)
    if is_variant(case):
        # <id|none>.<grid>.<carries>=<keep:cell:own,...> : what the catalogs bring along (the model never reads it)
        _, origins = make_region(case["nx"], case["ny"])
        kind, _ = region_kind(case)
        grid = FOREIGN[kind] if kind else 0
        carries = 1 if case.get("cat_filters") in ("same", "same-object") else 0
        cats = ";".join(
            f"{'none' if i is None else i}.{grid}.{carries}=" +
            (",".join(f"{1 if keep_of(case, ev) else 0}:{bin_of(case, ev)}:{own_bin(case, ev, origins)}" for ev in evs)
             if evs else "-")
            for i, evs in zip(cat_ids(case), case["cats"]))
    else:
        cats = ";".join((",".join(f"{1 if keep_of(case, ev) else 0}:{bin_of(case, ev)}" for ev in evs) if evs else "-")
                        for evs in case["cats"])
    nb = case["nx"] * case["ny"] * len(MAGS)
    if case["source"] == "list":
        kind, a = "list", "none"
    elif case["source"] == "list-ncat":
        kind, a = "list", str(len(case["cats"]))
    else:
        # streamed: file or custom loader, cached (store) or re-created on each pass; a generator object is cached
        kind, a = "stream", "1" if case["source"] in ("file-store", "loader-store", "gen-store", "u3gz-store", "u3bin-store") else "0"
    return (f"c13_run {kind} {a} {1 if case['apply_filters'] else 0} {nb} {len(MAGS)} {cats} "
            f"{','.join(case['ops'])}")


def do_history(run, drv, pending, case, tmpdir):
    if case.get("reads") and "layout" not in case:
        region, _ = make_region(case["nx"], case["ny"])
        m = numpy.asarray(region.get_cartesian(numpy.arange(case["nx"] * case["ny"], dtype=float)), dtype=float).ravel()
        case["layout"] = ",".join("x" if numpy.isnan(v) else str(int(v)) for v in m)
    outs, fails = run_history(run, case, tmpdir)
    nontriv = (case["source"], case["apply_filters"], case["mag_filter"], case["filter_spatial"],
               json.dumps([case.get("idlist"), case.get("cat_region"), case.get("cat_filters"), case.get("sameobj")]),
               json.dumps(case["cats"]), tuple(case["ops"])) if len(case["ops"]) >= 2 else None
    run.case(case, nontriv)
    run.count(f"{case['source']}-{'filters' if case['apply_filters'] else 'nofilters'}")
    if is_variant(case):
        for key in variant_keys(case):
            run.count(key)
    run.count(f"len-{len(case['ops'])}")
    if case.get("round4"):
        run.count("r4:apply_mct=" + ("on" if case.get("mct") else "off") + ("" if case["apply_filters"] else "(filters off)"))
        if case.get("ncat_given") is not None:
            g, n = case["ncat_given"], len(case["cats"])
            run.count("r4:n_cat given " + ("smaller" if g < n else "larger" if g > n else "equal"))
        for o in set(case["ops"]) & set(TESTS4):
            run.count("r4:op " + o)
    for f in fails[:1]:
        run.oracle_failure(case, f)
    i = drv.ask(model_line(case))
    pending.append((case, i, outs))


def flush(run, drv, pending):
    out = drv.run()
    drv.lines.clear()
    for item in pending:
        case, i, outs = item[:3]
        if len(item) == 5 and item[3] == "session":
            ops = item[4]
            model = out[i].split("|")
            impl = list(outs)
            model = [("t@" + m.split("@")[1]) if op in ALL_TESTS and not m.startswith("e") else m
                     for m, op in zip(model, ops)]
            if impl and impl[-1].startswith("x"):
                impl, model = impl[:-1], model[:len(impl) - 1]
                if impl != model:
                    run.mismatch(case, impl, model)
            elif impl != model[:len(impl)] or (len(impl) < len(model) and not (impl and impl[-1].startswith("e"))):
                run.mismatch(case, impl, model)
            continue
        if len(item) == 4 and item[3] == "abort-exc":
            st = run.extra.setdefault("aborted_by_exception_model_agreement", dict(agree=0, differ=0))
            st["agree" if out[i] == outs[0] else "differ"] += 1
            continue
        if len(item) == 4 and item[3] == "ratesx":
            from . import c13_rates
            c13_rates.compare(run, case, outs, out[i])
            continue
        if len(item) == 4 and item[3] == "wrong-ncat":
            if out[i] != outs[0]:
                run.mismatch(case, outs, out[i])
            continue
        if len(item) == 4:     # aborted pass: one observable
            if out[i] != outs[0]:
                run.mismatch(case, outs, out[i])
            continue
        model = out[i].split("|")
        impl = list(outs)
        # catalog tests: the model shows the catalogs the test iterated over, the implementation only its result
        model = [("t@" + m.split("@")[1]) if op in ALL_TESTS and not m.startswith("e") else m
                 for m, op in zip(model, case["ops"])]
        if impl and impl[-1].startswith("x"):     # the history ended in an evaluation that rejects the forecast
            impl, model = impl[:-1], model[:len(impl) - 1]
            if impl != model:
                run.mismatch(case, impl, model)
            continue
        if impl != model[:len(impl)] or (len(impl) < len(model) and not impl[-1].startswith("e")):
            run.mismatch(case, impl, model)
    pending.clear()


# ----------------------------------------------------------------------------- sessions: two forecasts, shared sub-objects
def do_session(run, drv, pending, case, tmpdir):
    """phase 2: two forecasts built from the same configuration share the region object, the observed catalog handed to
    the evaluations, the forecast file (file sources) or — `share_cats`, in-memory lists — the very catalog objects;
    their operations are interleaved (`session` = [[which, op], ...]). Each forecast on its own must satisfy the
    specification after every step; each forecast's sub-history is compared with the model."""
    region, origins = make_region(case["nx"], case["ny"])
    obs = make_obs(case, region, origins)
    h0 = Hist(run, case, tmpdir, region=region, obs=obs, label="forecast A: ")
    cats = h0.table.get("@cats") if case.get("share_cats") else None
    h1 = Hist(run, case, tmpdir, region=region, obs=obs, label="forecast B: ", cats=cats)
    hs, alive, subs = [h0, h1], [True, True], [[], []]
    seq_ops, seq_outs = [], []
    for which, op in case["session"]:
        if not all(alive):
            if case.get("share_cats") or not alive[which]:
                if case.get("share_cats"):
                    break        # shared objects: a failed operation of one forecast ends the session
                continue
        subs[which].append(op)
        alive[which] = hs[which].step(len(subs[which]) - 1, op)
        seq_ops.append((which, op))
        seq_outs.append(hs[which].outs[-1])
    for h in hs:
        h.finish()
    run.case(case, ("session", case["source"], bool(case.get("share_cats")), json.dumps(case["cats"]),
                    json.dumps(case["session"])))
    run.count(f"session-{case['source']}" + ("-shared-catalog-objects" if case.get("share_cats") else ""))
    for f in (h0.fails + h1.fails)[:1]:
        run.oracle_failure(case, f)
    if case.get("share_cats") and seq_ops:
        # one model run for both forecasts: ForecastIter.runShared (theorem shared_session_refines_spec)
        shown = dict(case, apply_filters=True) if case.get("round4") else case
        cats = ";".join((",".join(f"{1 if keep_of(shown, ev) else 0}:{bin_of(case, ev)}" for ev in evs) if evs else "-")
                        for evs in case["cats"])
        nb = case["nx"] * case["ny"] * len(MAGS)
        a = "none" if case["source"] == "list" else str(len(case["cats"]))
        i = drv.ask(f"c13_shared {a} {1 if case['apply_filters'] else 0} {nb} {len(MAGS)} {cats} "
                    + ",".join(f"{w}:{op}" for w, op in seq_ops))
        pending.append((case, i, seq_outs, "session", [op for _, op in seq_ops]))
        return
    for h, sub in zip(hs, subs):
        if sub:
            i = drv.ask(model_line(dict(case, ops=sub)))
            pending.append((case, i, h.outs, "session", sub))


def gen_session(rng, src):
    w = gen_world4(rng, src, rng.random() < 0.6, rng.random() < 0.5, rng.random() < 0.3)
    w.pop("ncat_given", None)
    w["kind"] = "session"
    if src in ("list", "list-ncat") and rng.random() < 0.5:
        w["share_cats"] = True
    pool = OPS + (ALL_TESTS if tests_allowed(w) else [])
    w["session"] = [[rng.randrange(2), rng.choice(pool if rng.random() < 0.35 else OPS)] for _ in range(rng.randint(3, 8))]
    return w


# ----------------------------------------------------------------------------- sizes beyond 2^16
def do_big(run, drv, pending, case, tmpdir):
    """phase 2: catalogs with more than 2^16 events and per-bin counts above 65535 (oracle only: event counts, exact
    rates k/n, n_cat, marginals); built from constant / tiled numpy data, in memory and through a custom loader"""
    from csep.core.catalogs import CSEPCatalog
    from csep.core.forecasts import CatalogForecast
    region, origins = make_region(case["nx"], case["ny"])
    ncell = len(origins)
    sizes = case["sizes"]
    nbins = ncell * len(MAGS)
    tot = [0] * nbins

    def catalogs():
        out = []
        for ci, n in enumerate(sizes):
            a = numpy.zeros(n, dtype=CSEPCatalog.dtype)
            k = numpy.arange(n)
            cell = (k % ncell) if ci % 2 else numpy.full(n, case["cell"] % ncell)
            a["id"] = numpy.char.add("e", k.astype(str)).astype("S256") if n else a["id"]
            a["origin_time"] = 1262304000000 + k
            a["longitude"] = origins[cell, 0] + 0.05 if n else a["longitude"]
            a["latitude"] = origins[cell, 1] + 0.05 if n else a["latitude"]
            a["depth"] = 10.0
            a["magnitude"] = 5.5
            out.append(CSEPCatalog(data=a, catalog_id=ci))
        return out
    for ci, n in enumerate(sizes):
        for c in range(ncell):
            cnt = (len(range(c, n, ncell)) if ci % 2 else (n if c == case["cell"] % ncell else 0))
            tot[c * len(MAGS) + 1] += cnt
    nc = len(sizes)
    if case["source"] == "list":
        fore = CatalogForecast(catalogs=catalogs(), region=region, name="big")
    else:
        def loader(format=None, filename=None, region=None, name=None):
            for c in catalogs():
                yield c
        fore = CatalogForecast(loader=loader, filename="big", store=(case["source"] == "loader-store"), region=region,
                               name="big")
    run.case(dict(case), ("big", case["source"], tuple(sizes), tuple(case["ops"])))
    run.count("sizes beyond 2^16")
    fails = []
    for k, op in enumerate(case["ops"]):
        try:
            if op == "E":
                ec = [int(v) for v in numpy.asarray(fore.get_event_counts(verbose=False)).ravel()]
                if ec != sizes:
                    fails.append(f"op {k}: get_event_counts {ec}, the catalogs hold {sizes} events")
            elif op == "P":
                got = [int(c.event_count) for c in fore]
                if got != sizes:
                    fails.append(f"op {k}: a pass yields catalogs with {got} events, the catalogs hold {sizes}")
            elif op in ("R", "S", "M"):
                er = fore.get_expected_rates()
                arr = numpy.asarray(er.data, dtype=float).ravel()
                want = [t / nc for t in tot]
                def off(v, w):      # "equal the per-cell mean": to rounding; a 16-bit / 32-bit counter overflow is off by far more
                    return not abs(float(v) - w) <= 1e-12 * max(1.0, w)
                if len(arr) != nbins or any(off(v, w) for v, w in zip(arr, want)):
                    bad = next((j for j in range(min(len(arr), nbins)) if off(arr[j], want[j])), None)
                    fails.append(f"op {k}: expected rate in bin {bad} is {float(arr[bad]) if bad is not None else arr.shape}, "
                                 f"the per-bin mean of the catalogs is {want[bad] if bad is not None else nbins}")
                if op == "S":
                    sc = numpy.asarray(fore.spatial_counts(), dtype=float).ravel()
                    ws = [sum(tot[c * len(MAGS):(c + 1) * len(MAGS)]) / nc for c in range(ncell)]
                    if len(sc) != ncell or any(abs(float(v) - w) > 1e-9 * max(1.0, w) for v, w in zip(sc, ws)):
                        fails.append(f"op {k}: spatial_counts {sc.tolist()} differ from {ws}")
                if op == "M":
                    mc = numpy.asarray(fore.magnitude_counts(), dtype=float).ravel()
                    wm = [sum(tot[m::len(MAGS)]) / nc for m in range(len(MAGS))]
                    if len(mc) != len(MAGS) or any(abs(float(v) - w) > 1e-9 * max(1.0, w) for v, w in zip(mc, wm)):
                        fails.append(f"op {k}: magnitude_counts {mc.tolist()} differ from {wm}")
            if fore.n_cat != nc:
                fails.append(f"op {k}: n_cat is {fore.n_cat}, the forecast has {nc} catalogs")
        except Exception as e:
            fails.append(f"op {k} ({op}) raised {type(e).__name__}: {e}")
            break
    for f in fails[:1]:
        run.oracle_failure(case, f)


# ----------------------------------------------------------------------------- wrong n_cat for an in-memory list
def do_wrong_ncat(run, drv, pending, case, tmpdir):
    """an in-memory list constructed with an n_cat that is not its length: a MISCONFIGURED forecast, outside the property's
    hypotheses. Demanded — for every operation kind of the case, each as the FIRST operation on a FRESH object — is only that
    the forecast either rejects the configuration (any exception) or handles it, in which case what it returns must be the
    specification's (never catalogs / counts / rates of a part of the list handed out as if complete; checked by do_history).
    What an object does AFTER it has rejected its configuration with an exception is unconstrained (the property promises
    nothing there, as after the aborted pass of D27): such operations are neither executed nor compared with the model.
    The code as it stands fails the assert of __next__ in every operation (theorem list_wrong_ncat_always_fails).
    (A streamed forecast with a wrong n_cat is a different class: the code corrects the number; checked strictly elsewhere.)"""
    m = case["ncat_wrong"]
    first_ops = list(dict.fromkeys(case["ops"]))
    rejected, handled = [], []
    for op in first_ops:
        fore, table, region, origins = build_forecast(case, tmpdir)
        try:
            with contextlib.redirect_stdout(io.StringIO()):
                if op == "P":
                    [c for c in fore]
                elif op == "E":
                    fore.get_event_counts(verbose=False)
                elif op == "R":
                    fore.get_expected_rates()
                elif op == "S":
                    fore.spatial_counts()
                elif op == "M":
                    fore.magnitude_counts()
            handled.append(op)
        except Exception:
            rejected.append(op)
    run.case(case, ("wrong-ncat", m, json.dumps(case["cats"]), tuple(first_ops)))
    for op in handled:
        # the configuration was accepted by this operation on a fresh object: its answer must be the specification's
        run.count("list-wrong-ncat: handled by the implementation as first operation (checked against the specification)")
        do_history(run, drv, pending, dict(case, kind="history", ops=[op]), tmpdir)
    if rejected:
        run.count("list-wrong-ncat: rejected by the first operation on a fresh object")
        nb = case["nx"] * case["ny"] * len(MAGS)
        cats = ";".join((",".join(f"{1 if keep_of(case, ev) else 0}:{bin_of(case, ev)}" for ev in evs) if evs else "-")
                        for evs in case["cats"])
        # the model (every operation fails the assert and changes nothing, so a sequence equals fresh objects)
        i = drv.ask(f"c13_run list {m} {1 if case['apply_filters'] else 0} {nb} {len(MAGS)} {cats} {','.join(rejected)}")
        pending.append((case, i, ["|".join(f"e@{m}" for _ in rejected)], "wrong-ncat"))


# ----------------------------------------------------------------------------- aborted pass (finding)
ABORT_SIG = "catalog-forecast:aborted-pass-not-restarted"


def do_aborted(run, drv, pending, case, tmpdir):
    """get_expected_rates() raises inside its pass (event outside the region, spatial filter not applied);
    the next complete for-loop must still yield every catalog"""
    fore, table, region, origins = build_forecast(case, tmpdir)
    n = len(case["cats"])
    if case.get("break_after"):
        # round 4: a for-loop left by `break` behind the k-th catalog (1 <= k <= n; k = n: behind the last catalog,
        # before the loop would have seen StopIteration)
        k0 = case["break_after"] - 1
        run.case(case, ("aborted-break", case["source"], k0, json.dumps(case["cats"])))
        run.count(f"aborted-by-break-{case['source']}")
        for i, _c in enumerate(fore):
            if i == k0:
                break
        raised = f"break behind catalog {k0}"
    else:
        k0 = min(ci for ci, evs in enumerate(case["cats"]) if any(ev[0] < 0 for ev in evs))
        run.case(case, ("aborted", case["source"], json.dumps(case["cats"])))
        run.count(f"aborted-{case['source']}")
        raised = None
        try:
            er = fore.get_expected_rates()
        except Exception as e:
            raised = type(e).__name__
        if raised is None:
            # no exception: acceptable iff the rates are the per-bin means of the events that DO lie in a bin (an event outside
            # every cell is in no cell's count; whether it must be rejected is C03's business) — never rates of a part of the catalogs
            nb = case["nx"] * case["ny"] * len(MAGS)
            tot = [0] * nb
            for evs in case["cats"]:
                for ev in evs:
                    if ev[0] >= 0:
                        tot[bin_of(case, ev)] += 1
            arr = numpy.asarray(er.data, dtype=float).ravel()
            if len(arr) != nb or any(abs(float(v) - t / n) > 1e-12 for v, t in zip(arr, tot)):
                run.oracle_failure(case, f"get_expected_rates accepted an event outside the region and returned "
                                         f"{list(map(float, arr))}, not the per-bin means {tot}/{n} of the events inside")
            else:
                run.count("aborted: implementation skips events outside the grid instead of raising")
            return
    cats = [c for c in fore]
    ids = [int(c.catalog_id) for c in cats]
    evs = [canon_cat(c, table) for c in cats]
    impl = "c" + (";".join(f"{i}=" + (",".join(f"{1 if table[e][3] else 0}:{table[e][1]}" for e in ev) if ev else "-")
                           for i, ev in zip(ids, evs)) if ids else "-") + f"@{fore.n_cat}"
    if ids != list(range(n)):
        run.oracle_failure(case, (f"after a for-loop was left by {raised}" if case.get("break_after") else
                                  f"after get_expected_rates raised {raised} at catalog {k0}") +
                                 f" the next complete for-loop "
                                 f"yields catalogs {ids}, not 0..{n - 1}: the aborted pass is not restarted",
                           signature=ABORT_SIG)
    if ids == list(range(n)) and evs == [[eid for eid, _ in cat] for cat in reference(case)]:
        # the loop after the abandoned one yields every once-filtered catalog: the property is met (the present code does not
        # do that: known finding D27; the model follows the present code and is therefore not asked)
        run.count("aborted: the next for-loop is a complete pass (property met, D27 not present)")
        return
    line = model_line(dict(case, ops=[])).rsplit(" ", 1)[0].replace("c13_run", "c13_abort") + f" {k0 + 1}"
    i = drv.ask(line)
    # left by `break`: no exception was raised, the model (D27 characterised for every cut) is compared strictly.
    # left by an exception of the forecast's own get_expected_rates: the property promises nothing about the object afterwards;
    # the agreement with the model is only counted (run.extra["aborted_by_exception_model_agreement"])
    pending.append((dict(case, ops=["P"]), i, [impl], "abort" if case.get("break_after") else "abort-exc"))


def gen_aborted(rng):
    src = rng.choice(["list", "list-ncat", "file-store", "file-nostore"])
    if rng.random() < 0.5:      # round 4: left by `break` behind the k-th catalog, filters on or off
        w = gen_world(rng, src, rng.random() < 0.5, rng.random() < 0.5)
        w["break_after"] = rng.randint(1, len(w["cats"]))
        w["kind"] = "aborted"
        return w
    w = gen_world(rng, src, False, False)
    while len(w["cats"]) < 2:
        w = gen_world(rng, src, False, False)
    k0 = rng.randrange(len(w["cats"]))
    w["cats"][k0] = w["cats"][k0] + [[-1, 5.5]]
    w["kind"] = "aborted"
    return w


# ----------------------------------------------------------------------------- generators
CONFIGS = [(src, af, sp) for src in ("list", "list-ncat", "file-store", "file-nostore")
           for af in (False, True) for sp in (False, True)]


def gen_world(rng, src, af, sp):
    nx, ny = rng.choice([(2, 2), (3, 2)])
    ncat = rng.randint(1, 6)
    cats = []
    for _ in range(ncat):
        ne = rng.choice([0, 0, 1, 2, 3, 4])
        evs = []
        for _ in range(ne):
            cell = rng.randrange(nx * ny)
            if af and sp and rng.random() < 0.25:
                cell = -rng.randint(1, 3)      # outside the region, removed by the spatial filter
            evs.append([cell, rng.choice([4.2, 4.7, 5.5])])
        cats.append(evs)
    w = dict(kind="history", source=src, apply_filters=af, filter_spatial=sp, mag_filter=rng.random() < 0.8,
             nx=nx, ny=ny, cats=cats, placeholders=[rng.random() < 0.5 for _ in range(ncat)])
    # phase 2: keyword and value classes that ride along with every kind of history
    if rng.random() < 0.3:
        w["verbose"] = True            # verbose=True of the evaluations / get_event_counts / get_expected_rates
    if rng.random() < 0.3:
        w["seed_mode"] = "global"      # seed=None: the evaluations draw from numpy's global stream
    if rng.random() < 0.1:
        w["nan_depth"] = True          # every second event has an unreported (NaN) depth
    if rng.random() < 0.1:
        w["zero_time"] = True          # the first event of the forecast happens at epoch 0
    # round 6 classes that ride along with every kind of history
    if rng.random() < 0.5:
        w["scribble"] = True           # ALIASING OF RETURNED OBJECTS: every array / list a call hands out is overwritten in place
    if src in ("list", "list-ncat") and rng.random() < 0.25:
        w["entry"] = "tuple"           # ENTRY POINTS: catalogs as a tuple
    if src == "gen-store":
        w["entry"] = rng.choice(["generator", "iter", "map"])      # a generator object, iter(list), a map object
    if src in ("list", "list-ncat", "gen-store") and rng.random() < 0.3:
        w["region_later"] = True       # constructed WITHOUT region=, the region is assigned afterwards
    if src in ("list", "list-ncat", "gen-store", "loader-store", "loader-nostore") and rng.random() < 0.3:
        w["ctor_positional"] = True    # CALL FORMS: CatalogForecast(...) with every argument positionally, in signature order
    # round 7 classes
    if rng.random() < 0.3:
        # (h) COPIES BEFORE USE: in front of some operations the forecast object is replaced by copy.copy / copy.deepcopy / a pickle
        # image of itself (before the first pass, between passes, after evaluations); the history goes on with the image
        w["copy_plan"] = dict(seed=rng.randrange(2 ** 32), p=rng.choice([0.2, 0.4, 0.7]))
    if src in ("list", "list-ncat", "gen-store", "loader-store", "loader-nostore") and rng.random() < 0.15:
        w["user_subclass"] = True      # (j) catalogs of a user subclass whose filter / filter_spatial / apply_mct return a NEW catalog
    if rng.random() < 0.2:
        w["numstate"] = True           # (k) passes, counts, rates and reads run under numpy.errstate(raise) and a 3-digit decimal context
    if w.get("region_later") and rng.random() < 0.5:
        w["reject_first"] = True       # (i) the rates are requested while the forecast has no region yet (rejected), then it gets one
    return w


# ----------------------------------------------------------------------------- round 2: what catalogs bring along
MEM_SOURCES = ["list", "list-ncat", "loader-store", "loader-nostore", "gen-store"]
ID_MODES = ["none", "equal", "dups", "unordered", "sameobj"]
REGION_MODES = ["mags-shift", "mags-3", "perm", "big", "otherfore", "unbound"]
FILTER_MODES = ["same", "same-object", "other"]
VARIANTS = [("ids", m) for m in ID_MODES] + [("region", m) for m in REGION_MODES] + [("filters", m) for m in FILTER_MODES]


def variant_keys(case):
    keys = []
    if case.get("sameobj"):
        keys.append("ids:same-object-repeated")
    elif case.get("idlist") is not None:
        idl = case["idlist"]
        keys.append("ids:all-none" if all(i is None for i in idl) else
                    "ids:not-distinct" if len(set(idl)) < len(idl) else "ids:distinct-unordered")
    if case.get("cat_region"):
        keys.append("region:" + case["cat_region"])
    if case.get("cat_filters"):
        keys.append("catfilters:" + case["cat_filters"])
    return keys


def set_variant(w, rng, dim, mode):
    """vary one dimension of a world in place; returns False when the mode does not exist for the source"""
    n = len(w["cats"])
    src = w["source"]
    if dim == "ids":
        if mode == "none":
            w["idlist"] = [None] * n
        elif mode == "equal":
            w["idlist"] = [rng.choice([0, 3, 7])] * n
        elif mode == "dups":
            pool = [None, 0, 1, 2]
            w["idlist"] = [rng.choice(pool) for _ in range(n)]
        elif mode == "unordered":
            w["idlist"] = rng.sample(range(0, 3 * n + 2), n)
        elif mode == "sameobj":
            w["cats"] = [list(map(list, w["cats"][0])) for _ in range(n)]
            w["idlist"] = [rng.choice([None, 0, 5])] * n
            w["sameobj"] = True
    elif dim == "region":
        outside = any(ev[0] < 0 for evs in w["cats"] for ev in evs)
        if mode == "otherfore":
            if src not in ("list", "list-ncat"):
                return False
            kind = rng.choice(["mags-shift", "mags-3", "perm", "big"])
            # the other forecast's get_expected_rates needs every event inside its region; with events outside
            # (they exist only where this forecast's spatial filter removes them) the catalogs are bound directly
            mode = kind if outside else "otherfore:" + kind
        elif mode == "unbound":
            if src in ("list", "list-ncat"):
                return False     # in-memory catalogs are unbound by default (round-1 classes)
        w["cat_region"] = mode
    elif dim == "filters":
        w["cat_filters"] = mode
    return True


def tests_allowed(w):
    """catalog tests on a re-created (store=False) stream whose loader does not bind the forecast's region: see
    AWAITING_DECISION"""
    if ("loader-nostore:region-not-bound-by-loader:catalog-tests" in AWAITING_DECISION
            and w["source"] == "loader-nostore" and w.get("cat_region")):
        return False
    return True


def gen_variant(rng, src, af, sp, dims):
    """a world on an in-memory / custom-loader / generator source with the listed (dimension, mode) variations"""
    w = gen_world(rng, src, af, sp)
    if any(d == "ids" and m in ("equal", "dups", "none", "sameobj") for d, m in dims):
        while len(w["cats"]) < 2:
            w = gen_world(rng, src, af, sp)
    for d, m in dims:
        set_variant(w, rng, d, m)
    return w


# ----------------------------------------------------------------------------- round 4
ALL_SOURCES = ["list", "list-ncat", "file-store", "file-nostore", "loader-store", "loader-nostore", "gen-store"]


def gen_world4(rng, src, af, sp, mct):
    """a world with time classes (apply_mct), optionally a user-given n_cat for a streamed source"""
    w = gen_world(rng, src, af, sp)
    guard = "apply_mct:empty-catalog-reaches-apply_mct" in AWAITING_DECISION and mct and af
    for evs in w["cats"]:
        tcs = sorted(rng.choice([0, 0, 1, 1, 1, 2]) for _ in evs)     # sorted in time, as apply_mct assumes
        for ev, tc in zip(evs, tcs):
            ev.append(tc)
        if guard and not any(all(raw_flags(ev)) for ev in evs):
            # see AWAITING_DECISION: apply_mct must never see an empty catalog. An in-memory list is filtered again on
            # every pass, so one event has to survive ALL configured filters (statement, apply_mct, spatial filter)
            evs.append([rng.randrange(w["nx"] * w["ny"]), 5.5, max([2] if not evs else [tclass_of(e) for e in evs])])
    w["mct"] = bool(mct)
    w["round4"] = True
    if src not in ("list", "list-ncat") and rng.random() < 0.6:
        n = len(w["cats"])
        w["ncat_given"] = rng.choice([n, max(0, n - 1), n + 1, n + rng.randint(2, 5), 0, 1])
    return w


def gen_ops4(rng, w, lo, hi):
    L = rng.randint(lo, hi)
    tests = ALL_TESTS if tests_allowed(w) else []
    return [rng.choice(TESTS4 if (tests and rng.random() < 0.3) else tests if (tests and rng.random() < 0.15) else OPS)
            for _ in range(L)]


def gen_ops(rng, w, lo, hi, p_test=0.25):
    L = rng.randint(lo, hi)
    pool = OPS + TESTS if tests_allowed(w) else OPS
    return [rng.choice(pool if rng.random() < p_test else OPS) for _ in range(L)]


def dispatch(case):
    if case.get("kind") == "ratesx":
        from . import c13_rates
        return c13_rates.do_ratesx
    if case.get("kind") == "bigregion":
        from . import c13_rates
        return c13_rates.do_bigregion
    return {"aborted": do_aborted, "wrong-ncat": do_wrong_ncat, "session": do_session, "big": do_big}.get(
        case.get("kind"), do_history)


def run(run, rng, tier):
    drv, pending = Driver(), []
    run.extra["csep_file"] = __import__("csep").__file__
    tmpdir = tempfile.mkdtemp(prefix="c13_")
    try:
        for path in sorted(glob.glob(os.path.join(VERIF, "corpus", "C13", "*.json"))):
            case = json.load(open(path))
            dispatch(case)(run, drv, pending, case, tmpdir)
            run.count("corpus")
        quick = tier == "quick"
        # exhaustive: every length-4 sequence over the five forecast operations (shorter ones are prefixes),
        # on every configuration, each on its own random forecast
        allops = OPS + TESTS
        n_ex = 0
        for ci, (src, af, sp) in enumerate(CONFIGS):
            for ops in itertools.product(OPS, repeat=4):
                do_history(run, drv, pending, dict(gen_world(rng, src, af, sp), ops=list(ops)), tmpdir)
                n_ex += 1
            flush(run, drv, pending)
        run.extra["exhaustive_len4_histories_5ops"] = n_ex
        run.extra["exhaustive"] = True
        # histories with catalog tests: quick = every sequence of length 3 over all eight operations that contains a
        # test (a quarter of them per configuration, rotating); thorough = every sequence of length 4 over all eight
        L = 3 if quick else 4
        n_t = 0
        for ci, (src, af, sp) in enumerate(CONFIGS):
            for si, ops in enumerate(itertools.product(allops, repeat=L)):
                if not any(o in TESTS for o in ops):
                    continue
                if quick and (si + ci) % 4 != 0:
                    continue
                do_history(run, drv, pending, dict(gen_world(rng, src, af, sp), ops=list(ops)), tmpdir)
                n_t += 1
            flush(run, drv, pending)
        run.extra["histories_with_catalog_tests"] = n_t
        run.extra["exhaustive_len4_all8ops"] = not quick
        # round 2: custom loaders / generator objects and what catalogs bring along (ids, bound regions, carried filter
        # statements). One dimension at a time on every (source, apply_filters, filter_spatial): quick = a few random
        # histories each, thorough = every length-3 sequence over the five forecast operations + random ones with tests;
        # then random combinations of all dimensions.
        n_v = 0
        for src in MEM_SOURCES:
            for af in (False, True):
                for sp in (False, True):
                    for dim, mode in [(None, None)] + VARIANTS:
                        dims = [(dim, mode)] if dim else []
                        if dim is None and src in ("list", "list-ncat"):
                            continue     # round-1 configurations
                        if dim and not set_variant(dict(source=src, cats=[[[0, 4.7]], [[0, 4.7]]]), rng, dim, mode):
                            continue     # the mode does not exist for this source
                        if quick:
                            seqs = [None] * 5
                        else:
                            seqs = list(itertools.product(OPS, repeat=3)) + [None] * 25
                        for ops in seqs:
                            w = gen_variant(rng, src, af, sp, dims)
                            w["ops"] = list(ops) if ops is not None else gen_ops(rng, w, 2, 4)
                            do_history(run, drv, pending, w, tmpdir)
                            n_v += 1
                flush(run, drv, pending)
        for _ in range(800 if quick else 12000):
            src = rng.choice(MEM_SOURCES)
            af, sp = rng.random() < 0.5, rng.random() < 0.5
            dims = []
            if rng.random() < 0.6:
                dims.append(("ids", rng.choice(ID_MODES)))
            if rng.random() < 0.6:
                dims.append(("region", rng.choice(REGION_MODES)))
            if rng.random() < 0.6:
                dims.append(("filters", rng.choice(FILTER_MODES)))
            w = gen_variant(rng, src, af, sp, dims)
            w["ops"] = gen_ops(rng, w, 2, 8)
            do_history(run, drv, pending, w, tmpdir)
            n_v += 1
        flush(run, drv, pending)
        run.extra["histories_custom_loader_ids_regions_carried_filters"] = n_v
        run.extra["awaiting_decision"] = list(AWAITING_DECISION)
        # round 4: more evaluations in the alphabet, user-given n_cat on streamed sources, apply_mct
        n_4 = 0
        for src in ALL_SOURCES:
            for af in (False, True):
                for sp in (False, True):
                    for mct in (False, True):
                        if quick:
                            seqs = [None] * 6
                        else:
                            seqs = list(itertools.product(["P", "E", "R"] + TESTS4, repeat=2)) + [None] * 60
                        for ops in seqs:
                            w = gen_world4(rng, src, af, sp, mct)
                            w["ops"] = list(ops) if ops is not None else gen_ops4(rng, w, 2, 5)
                            do_history(run, drv, pending, w, tmpdir)
                            n_4 += 1
            flush(run, drv, pending)
        for _ in range(300 if quick else 6000):
            src = rng.choice(ALL_SOURCES)
            w = gen_world4(rng, src, rng.random() < 0.7, rng.random() < 0.5, rng.random() < 0.6)
            if src not in ("file-store", "file-nostore") and rng.random() < 0.4:
                set_variant(w, rng, *rng.choice(VARIANTS))
            w["ops"] = gen_ops4(rng, w, 2, 8)
            do_history(run, drv, pending, w, tmpdir)
            n_4 += 1
        flush(run, drv, pending)
        for _ in range(40 if quick else 600):
            w = gen_world(rng, "list-ncat", rng.random() < 0.5, rng.random() < 0.5)
            n = len(w["cats"])
            w["ncat_wrong"] = rng.choice([m for m in (0, 1, n - 1, n + 1, n + 3, 2 * n) if m != n and m >= 0])
            w["kind"] = "wrong-ncat"
            w["ops"] = [rng.choice(OPS) for _ in range(rng.randint(1, 5))]
            do_wrong_ncat(run, drv, pending, w, tmpdir)
            n_4 += 1
        flush(run, drv, pending)
        run.extra["histories_round4_evaluations_ncat_applymct"] = n_4
        # phase 2: UCERF3 stochastic event sets (.gz / .bin, file versions 1-3, format native / csep, store on / off),
        # the MLL test with full_calculation=True, sessions of two forecasts sharing sub-objects, sizes beyond 2^16
        n_5 = 0
        for src in U3_SOURCES:
            for af in (False, True):
                for sp in (False, True):
                    for _ in range(4 if quick else 60):
                        w = gen_world4(rng, src, af, sp, rng.random() < 0.3)
                        w["u3_version"], w["u3_format"] = rng.choice([1, 2, 3]), rng.choice(["native", "csep"])
                        w["ops"] = gen_ops4(rng, w, 2, 5)
                        do_history(run, drv, pending, w, tmpdir)
                        n_5 += 1
            flush(run, drv, pending)
        for _ in range(260 if quick else 5000):
            src = rng.choice(ALL_SOURCES + U3_SOURCES + ["file-nostore", "loader-nostore", "u3gz-nostore", "u3gz-store"])
            w = gen_world4(rng, src, rng.random() < 0.5, rng.random() < 0.5, rng.random() < 0.3)
            if src in U3_SOURCES:
                w["u3_version"], w["u3_format"] = rng.choice([1, 2, 3]), rng.choice(["native", "csep"])
            L = rng.randint(2, 6)
            w["ops"] = [rng.choice(["TLF", "TLF", "TL", "TR", "TP"] if rng.random() < 0.4 and tests_allowed(w) else OPS)
                        for _ in range(L)]
            do_history(run, drv, pending, w, tmpdir)
            n_5 += 1
        flush(run, drv, pending)
        for _ in range(150 if quick else 3000):
            do_session(run, drv, pending, gen_session(rng, rng.choice(ALL_SOURCES + U3_SOURCES)), tmpdir)
            n_5 += 1
        flush(run, drv, pending)
        for src in (["list", "loader-store"] if quick else ["list", "loader-store", "loader-nostore"] * 3):
            do_big(run, drv, pending, dict(kind="big", source=src, nx=2, ny=2, cell=rng.randrange(4),
                                           sizes=[rng.choice([65536, 65537, 70000]), rng.choice([66000, 131073]), 0],
                                           ops=[rng.choice(["R", "E", "S"]), "P", rng.choice(["M", "R"]), "E"]), tmpdir)
            n_5 += 1
        run.extra["histories_phase2_ucerf3_fullcalc_sessions_sizes"] = n_5
        # deliberate: a pass aborted by an exception (finding, see notes/C13.md)
        for _ in range(16 if quick else 120):
            do_aborted(run, drv, pending, gen_aborted(rng), tmpdir)
        flush(run, drv, pending)
        # round 6 (owner): a region above 2^20 space-magnitude bins, several events of one catalog in one bin (oracle only)
        from . import c13_rates
        for _ in range(3 if quick else 30):
            c13_rates.do_bigregion(run, drv, pending, c13_rates.gen_bigregion(rng), tmpdir)
        # round 5 (owner): reads of the expected rates in all argument forms, interleaved with the evaluations (c13_runr)
        from . import c13_rates
        for _ in range(260 if quick else 6000):
            do_history(run, drv, pending, c13_rates.gen_reads(rng), tmpdir)
        flush(run, drv, pending)
        # round 4 (owner): get_expected_rates with the exception of its loop body inside the model (c13_runx)
        from . import c13_rates
        for _ in range(150 if quick else 4000):
            c13_rates.do_ratesx(run, drv, pending, c13_rates.gen_ratesx(rng), tmpdir)
        flush(run, drv, pending)
        # ... and the forecast on ROWS: the model computes every filter decision and every bin itself (c13_runc)
        for _ in range(220 if quick else 5000):
            c13_rates.do_ratesx(run, drv, pending, c13_rates.gen_concrete(rng), tmpdir)
        flush(run, drv, pending)
        # sampled long histories
        for _ in range(400 if quick else 5000):
            src, af, sp = rng.choice(CONFIGS)
            L = rng.randint(5, 12)
            ops = [rng.choice(allops if rng.random() < 0.3 else OPS) for _ in range(L)]
            do_history(run, drv, pending, dict(gen_world(rng, src, af, sp), ops=ops), tmpdir)
        flush(run, drv, pending)
    finally:
        shutil.rmtree(tmpdir, ignore_errors=True)


def replay(run, payload):
    case = payload["case"]
    drv, pending = Driver(), []
    tmpdir = tempfile.mkdtemp(prefix="c13_")
    try:
        dispatch(case)(run, drv, pending, case, tmpdir)
        flush(run, drv, pending)
    finally:
        shutil.rmtree(tmpdir, ignore_errors=True)
